//! Each witness is a `compile_fail,E0xxx` doctest paired with a compiling twin that differs
//! only in the offending line, so that a witness cannot "pass" because of an unrelated error.
//! Run with `cargo +nightly test --doc` (stable ignores the error code).

/// W1 — `Resizer::set_cpu_extensions` / `MulDiv::set_cpu_extensions` need `unsafe`.
/// ```compile_fail,E0133
/// use fast_image_resize::{CpuExtensions, Resizer};
/// let mut r = Resizer::new();
/// r.set_cpu_extensions(CpuExtensions::None);
/// ```
/// ```no_run
/// use fast_image_resize::{CpuExtensions, Resizer};
/// let mut r = Resizer::new();
/// unsafe { r.set_cpu_extensions(CpuExtensions::None) };
/// ```
/// ```compile_fail,E0133
/// use fast_image_resize::{CpuExtensions, MulDiv};
/// let mut m = MulDiv::new();
/// m.set_cpu_extensions(CpuExtensions::None);
/// ```
/// ```no_run
/// use fast_image_resize::{CpuExtensions, MulDiv};
/// let mut m = MulDiv::new();
/// unsafe { m.set_cpu_extensions(CpuExtensions::None) };
/// ```
pub struct W1;

/// W2 — `InnerPixel` is sealed: the `Sealed` super-trait cannot be named outside the crate.
/// ```compile_fail,E0603
/// use fast_image_resize::pixels::private::Sealed;
/// ```
/// ```no_run
/// use fast_image_resize::pixels::InnerPixel;
/// fn _f<P: InnerPixel>() {}
/// ```
pub struct W2;

/// W3 — `UnsafeImageMut` (the aliasing handle used by the mutable splits) is not nameable.
/// ```compile_fail,E0603
/// use fast_image_resize::images::UnsafeImageMut;
/// ```
/// ```no_run
/// use fast_image_resize::images::TypedCroppedImageMut;
/// ```
pub struct W3;

/// W4 — component counts must match in `change_type_of_pixel_components_typed`.
/// ```compile_fail,E0271
/// use fast_image_resize::images::TypedImage;
/// use fast_image_resize::pixels::{U16x4, U8x3};
/// let src = TypedImage::<U8x3>::new(2, 2);
/// let mut dst = TypedImage::<U16x4>::new(2, 2);
/// let _ = fast_image_resize::change_type_of_pixel_components_typed(&src, &mut dst);
/// ```
/// ```no_run
/// use fast_image_resize::images::TypedImage;
/// use fast_image_resize::pixels::{U16x3, U8x3};
/// let src = TypedImage::<U8x3>::new(2, 2);
/// let mut dst = TypedImage::<U16x3>::new(2, 2);
/// let _ = fast_image_resize::change_type_of_pixel_components_typed(&src, &mut dst);
/// ```
pub struct W4;

/// W5 — parts returned by `split_by_height_mut` keep the parent mutably borrowed.
/// ```compile_fail,E0499
/// use fast_image_resize::images::TypedImage;
/// use fast_image_resize::pixels::U8;
/// use fast_image_resize::ImageViewMut;
/// use std::num::NonZeroU32;
/// let mut img = TypedImage::<U8>::new(4, 4);
/// let n = NonZeroU32::new(2).unwrap();
/// let h = NonZeroU32::new(4).unwrap();
/// let parts = img.split_by_height_mut(0, h, n).unwrap();
/// let again = img.split_by_height_mut(0, h, n).unwrap();
/// drop(parts);
/// drop(again);
/// ```
/// ```no_run
/// use fast_image_resize::images::TypedImage;
/// use fast_image_resize::pixels::U8;
/// use fast_image_resize::ImageViewMut;
/// use std::num::NonZeroU32;
/// let mut img = TypedImage::<U8>::new(4, 4);
/// let n = NonZeroU32::new(2).unwrap();
/// let h = NonZeroU32::new(4).unwrap();
/// let parts = img.split_by_height_mut(0, h, n).unwrap();
/// drop(parts);
/// let again = img.split_by_height_mut(0, h, n).unwrap();
/// drop(again);
/// ```
/// The same for `split_by_width_mut`:
/// ```compile_fail,E0499
/// use fast_image_resize::images::TypedImage;
/// use fast_image_resize::pixels::U8;
/// use fast_image_resize::ImageViewMut;
/// use std::num::NonZeroU32;
/// let mut img = TypedImage::<U8>::new(4, 4);
/// let n = NonZeroU32::new(2).unwrap();
/// let w = NonZeroU32::new(4).unwrap();
/// let parts = img.split_by_width_mut(0, w, n).unwrap();
/// let again = img.split_by_width_mut(0, w, n).unwrap();
/// drop(parts);
/// drop(again);
/// ```
pub struct W5;

/// W6 — a read-only view is not accepted as a destination.
/// ```compile_fail,E0277
/// use fast_image_resize::images::{TypedImage, TypedImageRef};
/// use fast_image_resize::pixels::U8;
/// use fast_image_resize::Resizer;
/// let px = vec![U8::new(0); 16];
/// let src = TypedImage::<U8>::new(4, 4);
/// let mut dst = TypedImageRef::<U8>::new(4, 4, &px).unwrap();
/// let _ = Resizer::new().resize_typed(&src, &mut dst, None);
/// ```
/// ```no_run
/// use fast_image_resize::images::{TypedImage, TypedImageRef};
/// use fast_image_resize::pixels::U8;
/// use fast_image_resize::Resizer;
/// let px = vec![U8::new(0); 16];
/// let src = TypedImageRef::<U8>::new(4, 4, &px).unwrap();
/// let mut dst = TypedImage::<U8>::new(4, 4);
/// let _ = Resizer::new().resize_typed(&src, &mut dst, None);
/// ```
pub struct W6;

/// W7 — internals that skip validation are not callable from outside the crate.
/// ```compile_fail,E0603
/// use fast_image_resize::crop_box::CroppedSrcImageView;
/// ```
/// ```compile_fail,E0603
/// use fast_image_resize::convolution::optimisations::Normalizer16;
/// ```
/// ```compile_fail,E0603
/// use fast_image_resize::images::check_crop_box;
/// ```
/// ```no_run
/// use fast_image_resize::CropBox;
/// ```
pub struct W7;
