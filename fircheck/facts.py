"""Fact extraction: runs the firdrv driver under cargo for one build configuration and
caches the result keyed by a hash of everything cargo reads from /repo."""
import fcntl
import hashlib
import json
import os
import shutil
import subprocess
import sys
import time
import uuid

VERIF = os.path.dirname(os.path.dirname(os.path.abspath(__file__)))
REPO = os.environ.get("FIR_REPO", "/repo")
CACHE = os.path.join(VERIF, ".cache")
DRIVER = os.path.join(VERIF, "driver", "target", "release", "firdrv")

CONFIGS = {
    "x86": {"args": [], "rustflags": ""},
    "x86-rayon": {"args": ["--features", "rayon"], "rustflags": ""},
    "arm": {
        "args": ["-Zbuild-std=core,alloc,std", "--target", "aarch64-unknown-linux-gnu"],
        "rustflags": "",
    },
    "arm-rayon": {
        "args": ["-Zbuild-std=core,alloc,std", "--target", "aarch64-unknown-linux-gnu",
                 "--features", "rayon"],
        "rustflags": "",
    },
    "wasm": {
        "args": ["-Zbuild-std=core,alloc,std", "--target", "wasm32-unknown-emscripten"],
        "rustflags": "-C target-feature=+simd128",
    },
}


class CheckError(Exception):
    """The check could not analyse what it claims to (exit 2, never a VIOLATION)."""


def _sysroot():
    return subprocess.check_output(
        ["rustc", "+nightly", "--print", "sysroot"], text=True).strip()


def tree_hash(repo=None):
    repo = repo or REPO
    h = hashlib.sha256()
    paths = []
    for base in ("src",):
        for root, dirs, files in os.walk(os.path.join(repo, base)):
            dirs.sort()
            for f in sorted(files):
                paths.append(os.path.join(root, f))
    for f in ("Cargo.toml", "Cargo.lock", "README.md", "resizer/Cargo.toml"):
        p = os.path.join(repo, f)
        if os.path.exists(p):
            paths.append(p)
    for p in paths:
        h.update(os.path.relpath(p, repo).encode())
        h.update(b"\0")
        with open(p, "rb") as fh:
            h.update(fh.read())
        h.update(b"\0")
    return h.hexdigest()


def _driver_hash():
    if not os.path.exists(DRIVER):
        raise CheckError("driver binary missing: run ./setup.sh (%s)" % DRIVER)
    with open(DRIVER, "rb") as fh:
        return hashlib.sha256(fh.read()).hexdigest()


def facts_path(cfg, repo=None):
    key = hashlib.sha256(
        ("%s|%s|%s|%s" % (tree_hash(repo), cfg, _driver_hash(), repo or REPO)).encode()
    ).hexdigest()[:32]
    return os.path.join(CACHE, "facts", cfg, "%s.json" % key)


def extract(cfg, repo=None, verbose=True):
    """Return the path of the facts file for `cfg`, extracting if necessary."""
    repo = repo or REPO
    if cfg not in CONFIGS:
        raise CheckError("unknown configuration %s" % cfg)
    out = facts_path(cfg, repo)
    os.makedirs(os.path.dirname(out), exist_ok=True)
    lock_path = os.path.join(CACHE, "lock-%s" % cfg)
    with open(lock_path, "w") as lock:
        fcntl.flock(lock, fcntl.LOCK_EX)
        if os.path.exists(out):
            return out
        t0 = time.time()
        nonce = uuid.uuid4().hex
        # persistent target dir per configuration (keeps the build of std / deps);
        # the crate's own fingerprints are removed so that cargo re-invokes the wrapper.
        tgt = os.path.join(CACHE, "target", cfg)
        os.makedirs(tgt, exist_ok=True)
        for root, dirs, files in os.walk(tgt):
            if os.path.basename(root) == ".fingerprint":
                for d in dirs:
                    if d.startswith("fast_image_resize-") or d.startswith("fast-image-resize-"):
                        shutil.rmtree(os.path.join(root, d), ignore_errors=True)
                dirs[:] = []
        env = dict(os.environ)
        sysroot = _sysroot()
        env["LD_LIBRARY_PATH"] = os.path.join(sysroot, "lib") + (
            ":" + env["LD_LIBRARY_PATH"] if env.get("LD_LIBRARY_PATH") else "")
        env["RUSTFLAGS"] = ("-Zmir-opt-level=0 -Awarnings " + CONFIGS[cfg]["rustflags"]).strip()
        env["RUSTC_WORKSPACE_WRAPPER"] = DRIVER
        env["CARGO_TARGET_DIR"] = tgt
        env["CARGO_NET_OFFLINE"] = "true"
        env["FIRDRV_OUT"] = out + ".new"
        env["FIRDRV_NONCE"] = nonce
        env["FIRDRV_CFG"] = cfg
        env.pop("RUSTC_WRAPPER", None)
        cmd = ["cargo", "+nightly", "check", "--offline", "--lib", "-p", "fast_image_resize"]
        cmd += CONFIGS[cfg]["args"]
        if os.path.exists(out + ".new"):
            os.remove(out + ".new")
        p = subprocess.run(cmd, cwd=repo, env=env, stdout=subprocess.PIPE,
                           stderr=subprocess.STDOUT, text=True)
        if p.returncode != 0:
            raise CheckError("extraction failed for %s (cargo exit %d):\n%s"
                             % (cfg, p.returncode, p.stdout[-4000:]))
        if not os.path.exists(out + ".new"):
            raise CheckError("driver wrote no facts for %s (stale cargo cache?)\n%s"
                             % (cfg, p.stdout[-2000:]))
        with open(out + ".new") as fh:
            head = fh.read(4096)
        if nonce not in head:
            raise CheckError("facts file for %s does not carry this run's nonce" % cfg)
        os.replace(out + ".new", out)
        if verbose:
            print("[facts] extracted %s in %.1fs -> %s" % (cfg, time.time() - t0,
                  os.path.relpath(out, VERIF)), file=sys.stderr)
        # keep the cache small: drop facts of older trees for this cfg
        d = os.path.dirname(out)
        olds = sorted((f for f in os.listdir(d) if f.endswith(".json")),
                      key=lambda f: os.path.getmtime(os.path.join(d, f)))
        for f in olds[:-6]:
            try:
                os.remove(os.path.join(d, f))
            except OSError:
                pass
        return out


def load(cfg, repo=None):
    path = extract(cfg, repo)
    with open(path) as fh:
        return json.load(fh)
