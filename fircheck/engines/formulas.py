"""Formula rules: geometry expressions of the code compared, as polynomial functions, with the
formulas the properties state (C01: centre / window / kernel argument of precompute_coefficients;
C11: nearest-neighbour column and row positions; C15: margins of the fit crop).
See engines/poly.py for the normal form; nothing is evaluated on runtime values."""
import re
from fractions import Fraction

from ..sym import Sym, fmt, short
from . import poly
from .poly import p_add, p_atom, p_const, p_mul, Poly, equal, show, atoms_of, freeze
from .validators import closure_return

HALF = p_const(Fraction(1, 2))


def _local(fn, name):
    ls = [i for i, l in enumerate(fn.locals) if l[1] == name]
    return ls[0] if len(ls) == 1 else None


def _iter_atoms(p):
    return sorted((a for a in atoms_of(p) if a[0] == "iter"), key=repr)


def _verdict(rep, rule, key, loc, actual, expected_for, what, P, allowed_atoms=None):
    """expected_for: function(iter_atom or None) -> polynomial"""
    if actual is None:
        rep.unk(rule, key, loc, "%s does not normalise (%s)" % (what, P.failed))
        return
    cands = _iter_atoms(actual) or [None]
    for x in cands:
        try:
            exp = expected_for(x)
        except Exception:
            exp = None
        if exp is not None and equal(actual, exp):
            rep.ok(rule, key, loc, "%s = %s" % (what, show(actual)[:150]))
            return
    exp = expected_for(cands[0])
    extra = [a for a in atoms_of(actual) if a[0] in ("trunc", "floor", "ceil", "round", "max", "min",
                                                     "clamp", "abs", "l", "g")
             and (exp is None or a not in atoms_of(exp))]
    if exp is None or extra:
        rep.unk(rule, key, loc, "%s = %s: not a polynomial in the expected quantities" % (
            what, show(actual)[:160]))
    else:
        rep.bad(rule, key, loc, "%s is computed as  %s  but the property requires  %s  (compared "
                "as polynomial functions of the same quantities)" % (what, show(actual)[:200],
                                                                     show(exp)[:200]))


def _specialise(f, sym, P, p, flag_local, value, depth=0):
    """replace every multi-definition local atom of p by the definition that is consistent
    with `flag == value` (definitions guarded by facts on the flag parameter); atoms that stay
    ambiguous are kept"""
    if p is None or depth > 6:
        return p
    flag = ("param", flag_local, f.local_name(flag_local))

    def pick(a):
        if a[0] != "l":
            return None
        l = a[2]
        defs = [d for d in f.defs().get(l, []) if d[3]]
        if len(defs) < 2:
            return None
        keep = []
        for (bb, j, rv, w) in defs:
            consistent = True
            for cond, val in sym.facts_at(bb):
                c = cond
                while c[0] == "cast":
                    c = c[2]
                if c == flag and isinstance(val, (bool, int)) and bool(val) != value:
                    consistent = False
            if consistent:
                keep.append((bb, j, rv))
        if len(keep) != 1:
            return None
        q = P.norm(sym.rvalue(keep[0][2], keep[0][0], (keep[0][0], keep[0][1])))
        if q is None:
            return None
        return _specialise(f, sym, P, q, flag_local, value, depth + 1)
    return poly.map_atoms(p, pick)


def _judge(rep, rule, key, loc, what, act, exp, base, P):
    if act is None:
        rep.unk(rule, key, loc, "%s does not normalise (%s)" % (what, P.failed))
    elif exp is not None and equal(act, exp):
        rep.ok(rule, key, loc, "%s = %s" % (what, show(act)[:150]))
    elif exp is None:
        rep.unk(rule, key, loc, "%s = %s: expected form not built" % (what, show(act)[:140]))
    else:
        foreign = [a for a in poly.leaf_atoms(act) if a not in base]
        if foreign:
            rep.unk(rule, key, loc, "%s = %s depends on quantities outside the formula (%s)" % (
                what, show(act)[:140], ", ".join(poly._show_atom(a) for a in foreign[:3])))
        elif [n for n in poly.opaque_names(act) if n != "max"] != \
                [n for n in poly.opaque_names(exp) if n != "max"]:
            rep.unk(rule, key, loc, "%s = %s uses other rounding / clamping functions than the "
                    "formula %s" % (what, show(act)[:120], show(exp)[:120]))
        else:
            rep.bad(rule, key, loc, "%s is computed as  %s  but the property requires  %s  (both "
                    "are functions of the same quantities and differ as polynomials)" % (
                        what, show(act)[:220], show(exp)[:220]))


def coefficients_formula(rep, prog, rule):
    rep.rule(rule, "in precompute_coefficients, for adaptive_kernel_size = true and = false "
             "separately (definitions guarded by the flag are selected accordingly): the centre of "
             "destination sample i is in0 + (i + 1/2) * (in1 - in0) / out_size, the window is "
             "[floor(centre - support * fs) clamped at 0, ceil(centre + support * fs) clamped at "
             "in_size), the kernel is evaluated at (x + 1/2 - centre) / fs, with fs = max(scale, 1) "
             "for adaptive kernels and fs = 1 otherwise: each expression is normalised to a "
             "polynomial over (in0, in1, out_size, in_size, i, x, support) and compared with the "
             "stated formula as a function")
    f = prog.fn_by_name("convolution::precompute_coefficients")
    rep.touch(f)
    sym = Sym(f)
    P = Poly(sym)
    in0, in1 = p_atom(("v", "in0")), p_atom(("v", "in1"))
    outn = p_atom(("v", "out_size"))
    sup = p_atom(("v", "filter_support"))
    insz = p_atom(("v", "in_size"))
    flag_l = f.param_index("adaptive_kernel_size")
    if flag_l is None:
        rep.unk(rule, "anchors", f.loc, "parameter adaptive_kernel_size not found")
        return
    inv_out = p_atom(("inv", freeze(outn)))
    scale = p_mul(p_add(in1, in0, -1), inv_out)
    one = p_const(Fraction(1))
    fs_adaptive = p_atom(("max",) + tuple(sorted([freeze(scale), freeze(one)], key=repr)))

    def centre(x):
        return p_add(in0, p_mul(p_add(p_atom(x), HALF), scale))
    l_c = _local(f, "in_center")
    calls = [c for c in f.calls() if c.callee.get("id") is None and len(c.args) == 1]
    rep.floor(rule, "kernel evaluations", len(calls), 1)
    for case in (True, False):
        tag = "adaptive" if case else "fixed"
        fs = fs_adaptive if case else one
        inv_fs = p_atom(("inv", freeze(fs))) if case else one
        # 1. centre
        if l_c is None:
            rep.unk(rule, "%s|centre" % tag, f.loc, "local in_center not found")
            continue
        c_act = _specialise(f, sym, P, P.norm(sym.local(l_c)), flag_l, case)
        its = _deep_iter_atoms(c_act) if c_act is not None else []
        xo = its[0] if len(its) == 1 else None
        base = {("v", "in0"), ("v", "in1"), ("v", "out_size"), ("v", "filter_support"),
                ("v", "in_size")} | set(its)
        _judge(rep, rule, "%s|centre" % tag, f.loc, "the centre of destination sample i", c_act,
               centre(xo) if xo else None, base, P)
        if xo is None:
            continue
        # 2. window
        for name, inner_fn, outer_fn, bound, sign in (
                ("x_min", "floor", "max", p_const(Fraction(0)), -1),
                ("x_max", "ceil", "min", insz, 1)):
            l = _local(f, name)
            if l is None:
                rep.unk(rule, "%s|window|%s" % (tag, name), f.loc, "local %s not found" % name)
                continue
            act = _specialise(f, sym, P, P.norm(sym.local(l)), flag_l, case)
            q = p_add(centre(xo), p_mul(sup, fs), sign)
            inner = p_atom((inner_fn, freeze(q)))
            args = sorted([freeze(inner), freeze(bound)], key=repr)
            exp = p_atom(("trunc", freeze(p_atom((outer_fn,) + tuple(args)))))
            _judge(rep, rule, "%s|window|%s" % (tag, name), f.loc,
                   "the %s of the window" % ("first pixel" if sign < 0 else "end"), act, exp, base, P)
        # 3. kernel argument
        for c in calls:
            arg = _specialise(f, sym, P, P.norm(sym.operand(c.args[0], (c.bb, "term"))), flag_l, case)
            xs = [a for a in (_deep_iter_atoms(arg) if arg is not None else []) if a != xo]
            xi = xs[0] if len(xs) == 1 else None
            exp = p_mul(p_add(p_add(p_atom(xi), HALF), centre(xo), -1), inv_fs) if xi else None
            _judge(rep, rule, "%s|kernel-argument" % tag, c.at,
                   "the argument of the kernel for source pixel x", arg, exp,
                   base | ({xi} if xi else set()), P)
    window_arguments(rep, prog, rule)


def window_arguments(rep, prog, rule):
    """call sites of precompute_coefficients: in0 = crop.left (top), in1 - in0 = crop.width
    (height) of the same crop box"""
    from .validators import subst as esubst
    n = 0
    for g in sorted(prog.fns.values(), key=lambda z: z.id):
        for c in g.calls():
            if not c.name.endswith("precompute_coefficients") or len(c.args) < 4:
                continue
            n += 1
            rep.touch(g)
            gs = Sym(g)
            args = [gs.operand(a, (c.bb, "term")) for a in c.args[:4]]
            if g.kind == "closure":
                parent = prog.fns.get(g.d.get("parent"))
                caps = None
                if parent is not None:
                    ps = Sym(parent)
                    for b, blk in enumerate(parent.blocks):
                        for j, st in enumerate(blk["s"]):
                            if st[0] == "a" and st[2][0] == "agg" and st[2][1] == "closure" \
                                    and st[2][2] == g.id:
                                caps = [ps.operand(o, (b, j)) for o in st[2][4]]
                if caps is not None:
                    p1 = ("param", 1, g.local_name(1))
                    mapping = {("field", p1, i): ce for i, ce in enumerate(caps)}
                    args = [esubst(a, mapping) for a in args]
                    P = Poly(Sym(parent))
                else:
                    P = Poly(gs)
            else:
                P = Poly(gs)
            in0, in1 = P.norm(args[1]), P.norm(args[2])
            key = "%s|window-arguments" % g.name
            if in0 is None or in1 is None:
                rep.unk(rule, key, c.at, "arguments do not normalise (%s)" % P.failed)
                continue
            span = p_add(in1, in0, -1)

            def single_field(p):
                if len(p) == 1:
                    (m, cc), = p.items()
                    if cc == 1 and len(m) == 1 and m[0][0] == "f" and "crop_box" in m[0][1]:
                        return m[0]
                return None
            a0, asp = single_field(in0), single_field(span)
            pairs = {("left", "width"), ("top", "height")}
            crop_only = all(a[0] == "f" and "crop_box" in a[1] for a in atoms_of(in0) | atoms_of(in1))
            if a0 and asp and (a0[2], asp[2]) in pairs and a0[1] == asp[1]:
                rep.ok(rule, key, c.at, "in0 = crop.%s, in1 - in0 = crop.%s" % (a0[2], asp[2]))
            elif crop_only:
                rep.bad(rule, key, c.at, "the source interval handed to precompute_coefficients is "
                        "[%s, %s): the property needs [left, left + width) resp. [top, top + height) "
                        "of the crop box" % (show(in0)[:80], show(in1)[:100]))
            else:
                rep.unk(rule, key, c.at, "in0 = %s, in1 = %s" % (show(in0)[:80], show(in1)[:80]))
    rep.floor(rule, "precompute_coefficients calls", n, 2)


def _deep_iter_atoms(p):
    out = []

    def walk(q):
        for m in q:
            for a in m:
                if a[0] == "iter":
                    if a not in out:
                        out.append(a)
                for x in a[1:]:
                    if isinstance(x, tuple) and x and isinstance(x[0], tuple) and len(x[0]) == 2 \
                            and isinstance(x[0][0], tuple):
                        try:
                            walk(dict(x))
                        except (TypeError, ValueError):
                            pass
    walk(p)
    return out


def _unwrap(p, layers):
    """strip single-atom opaque layers: trunc(max(floor(Q), b)) -> Q"""
    cur = p
    for (name,) in layers:
        if cur is None or len(cur) != 1:
            return None
        (m, c), = cur.items()
        if c != 1 or len(m) != 1 or m[0][0] != name:
            return None
        a = m[0]
        args = [dict(x) for x in a[1:]]
        if name in ("max", "min"):
            # the non-constant, non-parameter argument
            args = [q for q in args if any(k for k in q if k != ())
                    and not (len(q) == 1 and list(q)[0] and list(q)[0][0][0] == "v")]
            if len(args) != 1:
                return None
        cur = args[0] if args else None
    return cur


def nearest_formula(rep, prog, rule):
    rep.rule(rule, "resample_nearest reads column floor(left + (x + 1/2) * crop_width / dst_width) "
             "(before the clamp to the row) and steps the rows from top + crop_height / dst_height "
             "/ 2 by crop_height / dst_height; every iter_rows_with_step implementation truncates "
             "an accumulator that starts at start_y and grows by exactly `step` (polynomial "
             "comparison with the formula of the property)")
    f = prog.fn_by_name("resizer::resample_nearest")
    rep.touch(f)
    sym = Sym(f)
    P = Poly(sym)

    def fld(name):
        return p_atom(("f", "crop_box(cropped_src_view)", name))

    def getter(name):
        return p_atom(("g", name, ("dst_view",)))
    # columns
    maps = [c for c in f.calls() if (c.method or "") == "map" and len(c.args) == 2]
    done = False
    for c in maps:
        cl = sym.operand(c.args[1], (c.bb, "term"))
        if not (cl[0] == "agg" and cl[1] == "closure"):
            continue
        r = closure_return(prog, cl[2], [("param", 99, "x")], list(cl[4]))
        if r is None:
            continue
        act = P.norm(r)
        if act is None:
            rep.unk(rule, "column", c.at, "column expression does not normalise (%s)" % P.failed)
            done = True
            continue
        inner = None
        for a in atoms_of(act):
            if a[0] == "min":
                for q in a[1:]:
                    qd = dict(q)
                    if len(qd) == 1 and list(qd)[0] and list(qd)[0][0][0] == "trunc":
                        inner = dict(list(qd)[0][0][1])
        if inner is None and len(act) == 1:
            (m, cc), = act.items()
            if len(m) == 1 and m[0][0] == "trunc":
                inner = dict(m[0][1])
        x = p_atom(("v", "x"))
        exp = p_add(fld("left"), p_mul(p_mul(p_add(x, HALF), fld("width")),
                                        p_atom(("inv", freeze(getter("width"))))))
        done = True
        if inner is None:
            rep.unk(rule, "column", c.at, "column entry %s: shape not recognised" % show(act)[:160])
        elif equal(inner, exp):
            rep.ok(rule, "column", c.at, "column = trunc(%s)" % show(inner)[:140])
        elif [a for a in atoms_of(inner) if a not in atoms_of(exp)]:
            rep.unk(rule, "column", c.at, "column position %s uses other quantities" % show(inner)[:160])
        else:
            rep.bad(rule, "column", c.at, "the column position is  %s  but the property requires  %s"
                    % (show(inner)[:200], show(exp)[:200]))
    if not done:
        rep.unk(rule, "column", f.loc, "column table closure not found")
    # rows
    calls = [c for c in f.calls() if (c.method or "") == "iter_rows_with_step"]
    rep.floor(rule, "iter_rows_with_step calls", len(calls), 1)
    for c in calls:
        start = P.norm(sym.operand(c.args[1], (c.bb, "term")))
        step = P.norm(sym.operand(c.args[2], (c.bb, "term")))
        e_step = p_mul(fld("height"), p_atom(("inv", freeze(getter("height")))))
        e_start = p_add(fld("top"), p_mul(HALF, e_step))
        for key, act, exp in (("row-start", start, e_start), ("row-step", step, e_step)):
            if act is None:
                rep.unk(rule, key, c.at, "does not normalise (%s)" % P.failed)
            elif equal(act, exp):
                rep.ok(rule, key, c.at, show(act)[:140])
            elif [a for a in atoms_of(act) if a not in atoms_of(exp)]:
                rep.unk(rule, key, c.at, "%s uses other quantities" % show(act)[:160])
            else:
                rep.bad(rule, key, c.at, "%s is  %s  but the property requires  %s" % (
                    key, show(act)[:200], show(exp)[:200]))
    # any other way the source rows are obtained (a fast path that takes consecutive rows):
    # the first row must be trunc(top + scale/2) under the facts that guard that path
    for c in f.calls():
        if (c.method or "") != "iter_rows" or len(c.args) < 2:
            continue
        recv = fmt(sym.operand(c.args[0], (c.bb, "term")))
        if "dst_view" in recv:
            continue
        act = P.norm(sym.operand(c.args[1], (c.bb, "term")))
        key = "row-source|iter_rows"
        if act is None:
            rep.unk(rule, key, c.at, "start row does not normalise (%s)" % P.failed)
            continue
        # facts: dst dimension == crop dimension makes the scale 1
        eqs = {}
        for cond, val in sym.facts_at(c.bb):
            if cond[0] == "bin" and ((cond[1] == "Eq" and val is True) or (cond[1] == "Ne" and val is False)):
                a_, b_ = P.norm(cond[2]), P.norm(cond[3])
                if a_ is not None and b_ is not None and len(a_) == 1 and len(b_) == 1:
                    (ma, ca), = a_.items()
                    (mb, cb), = b_.items()
                    if ca == 1 and cb == 1 and len(ma) == 1 and len(mb) == 1:
                        if ma[0][0] == "g":
                            eqs[ma[0]] = b_
                        elif mb[0][0] == "g":
                            eqs[mb[0]] = a_
        e_step = p_mul(fld("height"), p_atom(("inv", freeze(getter("height")))))
        e_start = p_add(fld("top"), p_mul(HALF, e_step))
        e_start = poly.map_atoms(e_start, lambda a: eqs.get(a))
        inner = None
        if len(act) == 1:
            (m, cc), = act.items()
            if cc == 1 and len(m) == 1 and m[0][0] == "trunc":
                inner = dict(m[0][1])
        if inner is None:
            rep.unk(rule, key, c.at, "start row %s: shape not recognised" % show(act)[:120])
        elif equal(inner, e_start):
            rep.ok(rule, key, c.at, "consecutive rows from trunc(%s)" % show(inner)[:100])
        elif [a for a in atoms_of(inner) if a not in atoms_of(e_start) and a[0] != "f"]:
            rep.unk(rule, key, c.at, "start row %s uses other quantities" % show(inner)[:120])
        else:
            rep.bad(rule, key, c.at, "this path of resample_nearest takes consecutive source rows "
                    "starting at trunc(%s); the property requires row floor(top + (y + 1/2) * "
                    "crop_height / dst_height), i.e. a start of trunc(%s) on this path" % (
                        show(inner)[:120], show(e_start)[:120]))
    # accumulators of the implementations
    n = 0
    for g in sorted(prog.fns.values(), key=lambda z: z.id):
        if g.kind != "closure":
            continue
        parent = prog.fns.get(g.d.get("parent"))
        if parent is None or (parent.d.get("method") or parent.name.rsplit("::", 1)[-1]) != "iter_rows_with_step":
            continue
        gs = Sym(g)
        GP = Poly(gs)
        # stores through the captured `y`: *(_1.k) = *(_1.k) + step
        for b, blk in enumerate(g.blocks):
            if blk["c"]:
                continue
            for j, st in enumerate(blk["s"]):
                if st[0] != "a" or "*" not in st[1][1:] or g.local_ty(st[1][0]) is None:
                    continue
                ups = g.d.get("upvars") or g.d.get("captures") or []
                pl = st[1]
                fs = [p for p in pl[1:] if isinstance(p, list) and p[0] == "f"]
                if pl[0] != 1 or not fs:
                    continue
                k = fs[0][1]
                name = ups[k][0] if k < len(ups) else "?"
                if name != "y":
                    continue
                n += 1
                rep.touch(parent)
                val = GP.norm(gs.rvalue(st[2], b, (b, j)))
                key = "%s|accumulator" % parent.name
                if val is None:
                    rep.unk(rule, key, st[3], "update of y does not normalise (%s)" % GP.failed)
                    continue
                ats = sorted(atoms_of(val), key=repr)
                ok = len(val) == 2 and all(c == 1 for c in val.values()) and \
                    all(len(m) == 1 for m in val) and {a[0] for a in ats} <= {"f"}
                names = sorted(_upvar_name(ups, a) for a in ats)
                if ok and names == ["step", "y"]:
                    rep.ok(rule, key, st[3], "y += step")
                elif {a[0] for a in ats} <= {"f"} and set(names) <= {"step", "y", "start_y"}:
                    rep.bad(rule, key, st[3], "the row position is updated as y = %s; the property "
                            "steps it by exactly `step`" % show(val)[:120])
                else:
                    rep.unk(rule, key, st[3], "y = %s" % show(val)[:120])
    rep.floor(rule, "row-position accumulators", n, 2)


def _upvar_name(ups, atom):
    try:
        k = atom[2]
        return ups[int(k)][0]
    except (ValueError, IndexError, TypeError):
        return "?"


def _consistent(Fa, Fb):
    for (c1, v1) in Fa:
        for (c2, v2) in Fb:
            if c1 == c2 and isinstance(v1, (bool, int)) and isinstance(v2, (bool, int)) and bool(v1) != bool(v2):
                return False
    return True


KEEP_NAMES = ("crop_width", "crop_height", "centering")


def _resolve_under(f, sym, e, F, depth=0):
    """replace multi-definition locals of e by the one definition whose guarding facts do not
    contradict F (correlated branches on the same condition); other locals stay atoms"""
    if depth > 12 or not isinstance(e, tuple) or not e:
        return e
    if e[0] == "local":
        if f.local_name(e[1]) in KEEP_NAMES:
            return e            # a quantity the formula is stated in
        defs = [d for d in f.defs().get(e[1], []) if d[3]]
        if len(defs) >= 1 and len(defs) == len(f.defs().get(e[1], [])):
            keep = [d for d in defs if _consistent(sym.facts_at(d[0]), F)]
            if len(keep) == 1:
                d = keep[0]
                rv = sym.rvalue(d[2], d[0], (d[0], d[1]))
                if rv != e:
                    return _resolve_under(f, sym, rv, list(F) + list(sym.facts_at(d[0])), depth + 1)
        return e
    return tuple(_resolve_under(f, sym, x, F, depth + 1) if isinstance(x, tuple) else x for x in e)


def _locals_in(e, acc=None):
    acc = [] if acc is None else acc
    if isinstance(e, tuple) and e:
        if e[0] == "local":
            if e not in acc:
                acc.append(e)
        else:
            for x in e:
                if isinstance(x, tuple):
                    _locals_in(x, acc)
    return acc


def _project(e):
    """(a, b).0 -> a"""
    if not isinstance(e, tuple) or not e:
        return e
    e = tuple(_project(x) if isinstance(x, tuple) else x for x in e)
    if e[0] == "field" and isinstance(e[1], tuple) and e[1] and e[1][0] == "agg" and e[1][1] == "tuple":
        k = e[2]
        try:
            k = int(k)
        except (TypeError, ValueError):
            return e
        if k < len(e[1][4]):
            return e[1][4][k]
    return e


def fit_formula(rep, prog, rule):
    rep.rule(rule, "the box returned by fit_src_into_dst_size (through a helper, if it delegates) has "
             "left = (width - crop_width) * centering.0 and top = (height - crop_height) * centering.1 on "
             "every path (definitions under correlated branches are resolved consistently; polynomial "
             "comparison): the removed margin is split in the ratio the centering asks for; a margin "
             "multiplied by the other component of the centering is a violation")
    f = prog.fn_by_name("crop_box::CropBox::fit_src_into_dst_size")
    rep.touch(f)

    def find_agg(g):
        """the CropBox aggregate with computed margins (a literal whole-source box
        {0, 0, width, height} of an early return is C15.full-span's business)"""
        found = None
        for b, blk in enumerate(g.blocks):
            if blk["c"]:
                continue
            for jx, st in enumerate(blk["s"]):
                if st[0] == "a" and st[2][0] == "agg" and st[2][1] == "adt" and \
                        str(st[2][2]).rsplit("::", 1)[-1] == "CropBox":
                    ops = st[2][4]
                    if len(ops) >= 2 and all(o[0] == "k" for o in ops[:2]):
                        continue
                    found = (b, jx, st)
        return found
    g = f
    agg = find_agg(g)
    if agg is None:
        # delegation: _0 = helper(...)
        for c in f.calls():
            if c.dest and c.dest[0] == 0:
                tg = prog.call_targets(c)
                if len(tg) == 1 and find_agg(tg[0]) is not None:
                    g = tg[0]
                    agg = find_agg(g)
                    rep.touch(g)
    if agg is None:
        rep.unk(rule, "crop box", f.loc, "the CropBox aggregate was not found")
        return
    b, jx, st = agg
    adt = prog.adt_ids("CropBox")
    fields = [x[0] for x in prog.adts[adt[0]]["variants"][0]["fields"]] if adt else ["left", "top", "width", "height"]
    sym = Sym(g)
    P = Poly(sym)

    def named(*names):
        for nm in names:
            for i in range(1, g.arg_count + 1):
                if g.local_name(i) == nm:
                    return p_atom(("v", nm))
            l = _local(g, nm)
            if l is not None:
                return p_atom(("l", nm, l))
        return None
    n = 0
    for fld, dims, crop, ci in (("left", ("src_width", "width"), "crop_width", 0),
                                ("top", ("src_height", "height"), "crop_height", 1)):
        if fld not in fields:
            continue
        op = st[2][4][fields.index(fld)]
        e0 = sym.operand(op, (b, jx))
        # the definitions of the operand (one per path)
        variants = []
        multi = [a for a in _locals_in(e0) if len([d for d in g.defs().get(a[1], []) if d[3]]) > 1
                 and g.local_name(a[1]) not in KEEP_NAMES]
        if multi:
            L = multi[0]
            for d in g.defs()[L[1]]:
                F = sym.facts_at(d[0])
                from .validators import subst as esubst
                e1 = esubst(e0, {L: sym.rvalue(d[2], d[0], (d[0], d[1]))})
                variants.append((_project(_resolve_under(g, sym, e1, F)), F,
                                 g.blocks[d[0]]["s"][d[1]][3] if d[1] != "term" else g.loc))
        else:
            variants.append((_project(_resolve_under(g, sym, e0, sym.facts_at(b))), sym.facts_at(b), st[3]))
        D = named(*dims)
        Cw = named(crop)
        for vi, (e, F, loc) in enumerate(variants):
            n += 1
            key = "crop_%s" % fld + ("" if len(variants) == 1 else "#%d" % vi)
            act = P.norm(e)
            if act is None or D is None or Cw is None:
                rep.unk(rule, key, loc, "does not normalise (%s)" % P.failed)
                continue
            cents = sorted((a for a in atoms_of(act) if a[0] == "f" and "centering" in a[1]), key=repr)
            ok = any(equal(act, p_mul(p_add(D, Cw, -1), p_atom(ca))) and str(ca[2]) == str(ci) for ca in cents)
            if ok:
                rep.ok(rule, key, loc, "%s = %s" % (fld, show(act)[:120]))
                continue
            if not act:
                # a zero margin: fine where the path established that this dimension is not cropped
                if any(crop in fmt(c_) or any(d_ in fmt(c_) for d_ in dims) or "crop_" in fmt(c_) for c_, _ in F):
                    rep.ok(rule, key, loc, "%s = 0 on a path that compared the crop size with the source" % fld)
                else:
                    rep.unk(rule, key, loc, "%s = 0 without a comparison of the crop size on the path" % fld)
                continue
            opaque = [a for a in atoms_of(act) if a[0] in ("g", "trunc", "max", "min", "floor")]
            if "@bb" in show(act):
                # the crop size / the centering come out of a helper that was not resolved
                rep.unk(rule, key, loc, "%s = %s: built from the result of a helper call" % (fld, show(act)[:120]))
            elif len(cents) == 1 and not opaque:
                rep.bad(rule, key, loc, "%s is  %s  but the property requires  (%s - %s) * centering.%d"
                        % (fld, show(act)[:160], dims[0], crop, ci))
            else:
                # not a polynomial (min / max / clamp inside): evaluated at concrete sizes instead. For a
                # centering inside [0, 1] the property fixes the value: (dim - crop) * centering
                wit = None
                for dv, cv, cc in ((1000.0, 500.0, 0.25), (1000.0, 500.0, 0.75), (900.0, 300.0, 0.1)):
                    env = {"dim": dv, "crop": cv, "cent": cc, "dims": dims, "cropname": crop, "ci": ci}
                    got = _feval(e, env)
                    if got is None or not env.get("used"):
                        # not evaluated, or a path on which the caller's centering is not used at all
                        # (the NaN / None default): the sample points say nothing there
                        wit = None
                        break
                    want = (dv - cv) * cc
                    if abs(got - want) > 1e-6 * max(1.0, abs(want)):
                        wit = (dv, cv, cc, got, want)
                        break
                    wit = "agree"
                if isinstance(wit, tuple):
                    rep.bad(rule, key + "|witness", loc,
                            "%s = %s: for a source %s of %g, a crop %s of %g and centering.%d = %g the box gets "
                            "%s = %g, but the share of the removed margin %g on that side must be the centering: "
                            "%g" % (fld, fmt(e)[:140], dims[1], wit[0], crop, wit[1], ci, wit[2], fld, wit[3],
                                    wit[0] - wit[1], wit[4]))
                else:
                    rep.unk(rule, key, loc, "%s = %s: shape not recognised%s" % (
                        fld, show(act)[:140], " (agrees with the formula at three sample points)" if wit == "agree" else ""))
    rep.floor(rule, "margin expressions", n, 2)


def _feval(e, env):
    """float value of a margin expression at a sample point; None when a node is not understood"""
    if not isinstance(e, tuple) or not e:
        return None
    k = e[0]
    if k == "const":
        return float(e[1]) if isinstance(e[1], (int, float)) and not isinstance(e[1], bool) else None
    if k in ("param", "local"):
        nm = e[2] if len(e) > 2 else None
        if nm in env["dims"]:
            return env["dim"]
        if nm == env["cropname"]:
            return env["crop"]
        return None
    if k == "field":
        if "centering" in fmt(e[1]) and str(e[2]) == str(env["ci"]):
            env["used"] = True
            return env["cent"]
        return None
    if k == "cast":
        return _feval(e[2], env)
    if k in ("copy", "deref", "ref"):
        return _feval(e[1], env)
    if k == "bin":
        a, b = _feval(e[2], env), _feval(e[3], env)
        if a is None or b is None:
            return None
        try:
            return {"Add": a + b, "Sub": a - b, "Mul": a * b, "Div": (a / b) if b else None}.get(e[1])
        except Exception:
            return None
    if k == "un" and len(e) > 2 and e[1] == "Neg":
        a = _feval(e[2], env)
        return None if a is None else -a
    if k in ("call", "callat"):
        nm = e[1] if k == "call" else e[2]
        args = e[2] if k == "call" else e[3]
        vals = [_feval(a, env) for a in args]
        if any(v is None for v in vals):
            return None
        if nm == "min" and len(vals) == 2:
            return min(vals)
        if nm == "max" and len(vals) == 2:
            return max(vals)
        if nm == "clamp" and len(vals) == 3:
            return min(max(vals[0], vals[1]), vals[2])
        if nm == "abs" and len(vals) == 1:
            return abs(vals[0])
    return None


def quantise(rep, prog, rule):
    rep.rule(rule, "Normalizer16::new / Normalizer32::new multiply every weight by (1 << p) where p "
             "is the very value stored as the normaliser's precision (the kernels shift the "
             "accumulator right by that precision): a different exponent scales every result by a "
             "power of two")
    n = 0
    for nm in ("convolution::optimisations::Normalizer16::new",
               "convolution::optimisations::Normalizer32::new"):
        f = prog.fn_by_name(nm)
        rep.touch(f)
        sym = Sym(f)
        stored = None
        for b, blk in enumerate(f.blocks):
            for j, st in enumerate(blk["s"]):
                if st[0] == "a" and st[2][0] == "agg" and st[2][1] == "adt" and "Normalizer" in st[2][2] \
                        and st[2][4]:
                    stored = sym.operand(st[2][4][0], (b, j))
        # the closure that converts a weight
        conv = None
        for g in f.closures():
            gs = Sym(g)
            for (bb, j, rv, w) in g.defs().get(0, []):
                e = gs.rvalue(rv, bb, (bb, j))
                s = fmt(e)
                if "Mul" in s and ("arg1.0" in s or "arg1" in s):
                    conv = (g, e)
        key = nm.rsplit("::", 2)[-2]
        if stored is None or conv is None:
            rep.unk(rule, key, f.loc, "anchors not found (stored precision / weight conversion)")
            continue
        n += 1
        g, e = conv
        # captured scale in the parent
        caps = None
        for b, blk in enumerate(f.blocks):
            for j, st in enumerate(blk["s"]):
                if st[0] == "a" and st[2][0] == "agg" and st[2][1] == "closure" and st[2][2] == g.id:
                    caps = [sym.operand(o, (b, j)) for o in st[2][4]]
        if not caps:
            rep.unk(rule, key, f.loc, "captures of the conversion closure not found")
            continue
        sc = caps[0]
        while sc[0] == "cast":
            sc = sc[2]
        if sc[0] == "ovf":
            sc = sc[1]
        if not (sc[0] == "bin" and sc[1] == "Shl" and sc[2][0] == "const" and sc[2][1] == 1):
            rep.unk(rule, key, f.loc, "scale = %s: not of the form 1 << p" % fmt(caps[0])[:80])
            continue
        p = sc[3]
        while p[0] == "cast":
            p = p[2]
        st_ = stored
        while st_[0] == "cast":
            st_ = st_[2]
        if p == st_:
            rep.ok(rule, key, f.loc, "weights scaled by 1 << %s, stored precision %s" % (fmt(p), fmt(st_)))
        elif p[0] in ("bin", "ovf") and fmt(st_) in fmt(p):
            rep.bad(rule, key, f.loc, "weights are scaled by 1 << (%s) but the normaliser stores "
                    "precision %s: the kernels shift by a different amount than the weights were "
                    "scaled with" % (fmt(p), fmt(st_)))
        else:
            rep.unk(rule, key, f.loc, "scale exponent %s vs stored precision %s" % (fmt(p), fmt(st_)))
    rep.floor(rule, "normaliser constructors", n, 2)


def quantised_untouched(rep, prog, rule):
    """the quantised coefficient of a weight is round(weight * scale) and nothing else"""
    rep.rule(rule, "in Normalizer16::new / Normalizer32::new the vector of quantised coefficients of a "
             "chunk is handed on as it was collected from the per-weight conversion: no element is "
             "written afterwards (last_mut / first_mut / get_mut / index_mut / iter_mut / swap on the "
             "collected vector). An adjustment after rounding (putting the rounding remainder of the "
             "sum into one tap) gives that coefficient another value -- and possibly another sign -- "
             "than its weight: a non-negative kernel gets a negative tap, raising a source pixel can "
             "lower a destination pixel")
    WRITERS = ("last_mut", "first_mut", "get_mut", "index_mut", "iter_mut", "swap", "as_mut_slice",
               "as_mut", "deref_mut", "fill", "sort", "reverse", "truncate", "insert")
    n = 0
    for nm in ("convolution::optimisations::Normalizer16::new",
               "convolution::optimisations::Normalizer32::new"):
        fs = [f for f in prog.fns.values() if f.name == nm] or prog._by_tail(nm)
        if len(fs) != 1:
            rep.unk(rule, nm.rsplit("::", 2)[-2] + "|anchor", "", "constructor not found")
            continue
        f = fs[0]
        rep.touch(f)
        sym = Sym(f)
        # the collected vectors: results of `collect` of type Vec<i16> / Vec<i32>
        vecs = []
        for c in f.calls():
            if (c.method or short(c.name)) == "collect" and c.dest:
                ty = f.local_ty(c.dest[0]) or ""
                if re.search(r"Vec<i(16|32)>", ty):
                    vecs.append(c.dest[0])
        key = nm.rsplit("::", 2)[-2]
        if not vecs:
            rep.unk(rule, key, f.loc, "no collected Vec<i16> / Vec<i32> of coefficients found")
            continue
        n += 1
        bad = None
        for c in f.calls():
            m = c.method or short(c.name)
            if m not in WRITERS or not c.args:
                continue
            e = sym.operand(c.args[0], (c.bb, "term"))
            x = e
            while isinstance(x, tuple) and x and x[0] in ("ref", "deref", "cast", "reborrow"):
                x = x[2] if x[0] == "cast" else x[1]
            if x[0] == "local" and x[1] in vecs:
                bad = (c, m)
                break
        if bad:
            rep.bad(rule, key + "|adjusted", bad[0].at,
                    "%s modifies the collected coefficients through `%s` after the weights were rounded: "
                    "the adjusted tap no longer is round(weight * 2^precision)" % (nm, bad[1]))
        else:
            rep.ok(rule, key, f.loc, "coefficients are handed on as collected")
    rep.floor(rule, "normaliser constructors", n, 2)
