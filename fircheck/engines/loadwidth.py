"""E7 (partial) — guard adequacy of SIMD loads: where a vector load `helper(buf, idx)` is
guarded by an available fact `idx < len(buf) - K` (loop invariant or dominating branch), the
K+1 elements the guard leaves must cover the bytes the helper reads. Loads without such a
guard (cursor-alignment idioms that rely on the kernels' documented preconditions) are listed
as not covered and contribute nothing."""
import re

from ..cfg import Dom, loop_blocks
from ..sym import Sym, fmt, short
from .avail import Avail

FLOOR = {"x86": 200, "x86-rayon": 200, "arm": 140, "arm-rayon": 140, "wasm": 80}
HELPER_MODS = ("simd_utils::", "neon_utils::", "wasm32_utils::")
PRIM_SIZE = {"u8": 1, "i8": 1, "u16": 2, "i16": 2, "u32": 4, "i32": 4, "f32": 4, "u64": 8,
             "i64": 8, "f64": 8, "u128": 16}


def type_size(ty):
    """size in bytes of a primitive, array or pixels::Pixel type string"""
    ty = ty.strip()
    if ty in PRIM_SIZE:
        return PRIM_SIZE[ty]
    m = re.match(r"^\[(.+); (\d+)\]$", ty)
    if m:
        s = type_size(m.group(1))
        return s * int(m.group(2)) if s else None
    m = re.match(r"^pixels::Pixel<(.+), (\w+), (\d+)>$", ty)
    if m:
        return type_size(m.group(1))
    return None


INTRINSIC_BYTES = [
    (r"^_mm_loadl_epi64$", 8), (r"^_mm_loadu_(si128|ps|pd)$", 16), (r"^_mm_load_(si128|ps|pd)$", 16),
    (r"^_mm256_loadu_(si256|ps|pd)$", 32),
    (r"^vld1_[usf]\d+$", 8), (r"^vld1q_[usf]\d+$", 16),
    (r"^vld1_[usf]\d+_x2$", 16), (r"^vld1_[usf]\d+_x3$", 24), (r"^vld1_[usf]\d+_x4$", 32),
    (r"^vld1q_[usf]\d+_x2$", 32), (r"^vld1q_[usf]\d+_x3$", 48), (r"^vld1q_[usf]\d+_x4$", 64),
    (r"^vld2_[usf]\d+$", 16), (r"^vld2q_[usf]\d+$", 32), (r"^vld3_[usf]\d+$", 24),
    (r"^vld3q_[usf]\d+$", 48), (r"^vld4_[usf]\d+$", 32), (r"^vld4q_[usf]\d+$", 64),
    (r"^v128_load$", 16), (r"^v128_load32_(zero|splat)$", 4), (r"^v128_load64_(zero|splat)$", 8),
]


def helper_width(prog, h):
    """bytes read from `buf` by a (buf, index) load helper, derived from its own body: only
    reads whose pointer is derived from the buf parameter count (a helper that copies n
    elements into a local array and loads the array reads n elements from buf)"""
    total = 0
    hs = Sym(h)
    buf = ("param", 1, h.local_name(1))

    def from_buf(op, c):
        e = hs.operand(op, (c.bb, "term"))
        return buf in _atoms_of(e)
    for c in h.calls():
        nm = short(c.name)
        if nm == "copy_nonoverlapping" and len(c.args) == 3 and from_buf(c.args[0], c):
            n = _strip(hs.operand(c.args[2], (c.bb, "term")))
            t = c.targs()
            if n[0] == "const" and t and type_size(t[0]):
                total = max(total, n[1] * type_size(t[0]))
            else:
                return None
            continue
        if not c.args or not from_buf(c.args[0], c):
            continue
        if nm == "read_unaligned" or nm == "read":
            t = c.targs()
            if t and type_size(t[0]):
                total = max(total, type_size(t[0]))
        for rx, b in INTRINSIC_BYTES:
            if re.match(rx, nm):
                total = max(total, b)
    return total or None      # None: single-element helpers (element size at the call site)


def _atoms_of(e, acc=None):
    acc = set() if acc is None else acc
    if isinstance(e, tuple) and e:
        if e[0] in ("param", "local"):
            acc.add(e)
        for x in e:
            if isinstance(x, tuple):
                _atoms_of(x, acc)
    return acc


def load_sites(prog, fn):
    out = []
    for c in fn.calls():
        if not c.name.startswith(HELPER_MODS):
            continue
        tg = prog.call_targets(c)
        if not tg or len(c.args) != 2:
            continue
        h = tg[0]
        if not (h.local_ty(1).startswith("&[") and h.local_ty(2) == "usize"):
            continue
        if short(c.name).startswith("store"):
            continue
        out.append((c, h))
    return out


def _strip(e):
    while isinstance(e, tuple) and e and e[0] == "cast":
        e = e[2]
    return e


def remaining_from_guard(facts, idx, buf):
    """elements known to remain from idx: max over facts idx (+c) < len(buf) - K"""
    best = None
    off = 0
    base = _strip(idx)
    if base[0] == "bin" and base[1] == "Add" and _strip(base[3])[0] == "const":
        off = _strip(base[3])[1]
        base = _strip(base[2])
    norm = []
    for cond, val in facts:
        if cond[0] != "bin" or cond[1] not in ("Lt", "Le", "Gt", "Ge") or not isinstance(val, bool):
            continue
        op, l_, r_ = cond[1], cond[2], cond[3]
        if not val:
            op = {"Lt": "Ge", "Le": "Gt", "Gt": "Le", "Ge": "Lt"}[op]
        if op in ("Gt", "Ge"):
            op, l_, r_ = {"Gt": "Lt", "Ge": "Le"}[op], r_, l_
        norm.append((op, l_, r_))           # l_ < r_  /  l_ <= r_
    for (op_, l_, r_) in norm:
        cond = ("bin", op_, l_, r_)
        a, b = _strip(l_), _strip(r_)
        if a != base:
            continue
        k = None
        if b[0] == "call" and b[1] == "saturating_sub" and _is_len_of(b[2][0], buf) and \
                _strip(b[2][1])[0] == "const":
            k = _strip(b[2][1])[1]
        elif b[0] == "bin" and b[1] == "Sub" and _is_len_of(b[2], buf) and _strip(b[3])[0] == "const":
            k = _strip(b[3])[1]
        elif _is_len_of(b, buf):
            k = 0
        if k is None:
            continue
        rem = (k + 1 if cond[1] == "Lt" else k) - off
        best = rem if best is None else max(best, rem)
    return best


def _same_row(a, b):
    a, b = _strip(a), _strip(b)
    if a == b:
        return True
    # rows of one `[&[T]; N]` array have equal lengths (documented kernel precondition)
    if a[0] == "index" and b[0] == "index" and _strip(a[1]) == _strip(b[1]):
        return True
    return False


def _is_len_of(e, buf):
    e = _strip(e)
    if e[0] == "call" and e[1] == "len" and e[2]:
        return _same_row(e[2][0], buf)
    if e[0] == "local":
        return False
    return False


def window_slack(sym, facts, buf, idx):
    """elements known to lie between the end of the coefficient window and the end of the row:
    an available fact  len(buf) - E >= m  where E is a snapshot `idx + len(coefficients)`"""
    best = 0
    base = _strip(idx)
    for cond, val in facts:
        if val is not True or cond[0] != "bin" or cond[1] not in ("Ge", "Gt", "Le", "Lt"):
            continue
        if cond[1] in ("Le", "Lt"):         # m <= len - E   is   len - E >= m
            cond = ("bin", {"Le": "Ge", "Lt": "Gt"}[cond[1]], cond[3], cond[2])
        a, b = _strip(cond[2]), _strip(cond[3])
        if b[0] != "const" or not isinstance(b[1], int):
            continue
        if a[0] == "ovf":
            a = a[1]
        if not (a[0] == "bin" and a[1] == "Sub" and _is_len_of(a[2], buf)):
            continue
        e = _strip(a[3])
        if e[0] != "local":
            continue
        ds = [d for d in sym.defs.get(e[1], []) if d[3]]
        if len(ds) != 1:
            continue
        d = sym.rvalue(ds[0][2], ds[0][0])
        if d[0] == "ovf":
            d = d[1]
        if d[0] == "bin" and d[1] == "Add" and base in (_strip(d[2]), _strip(d[3])) and \
                any(_strip(x)[0] == "call" and _strip(x)[1] == "len" for x in (d[2], d[3])):
            m = b[1] if cond[1] == "Ge" else b[1] + 1
            best = max(best, m)
    return best


def chunk_element(sym, buf, idx):
    """buf is an item of a chunks_exact(N) iterator and idx a constant: N - idx remain"""
    i = _strip(idx)
    if i[0] != "const" or not isinstance(i[1], int):
        return None
    e = _strip(buf)
    # (next(iter) as Some).0
    for _ in range(3):
        if e[0] in ("field", "variant"):
            e = _strip(e[1])
    if not (e[0] == "callat" and e[2] == "next" and e[3]):
        return None
    it = e[3][0]
    for _ in range(8):
        it = _strip(it)
        if it[0] == "local":
            ds = [d for d in sym.defs.get(it[1], []) if d[3]]
            if len(ds) != 1:
                return None
            it = sym.rvalue(ds[0][2], ds[0][0])
        elif it[0] in ("callat", "call") and (it[2] if it[0] == "callat" else it[1]) in (
                "into_iter", "by_ref", "iter"):
            it = (it[3] if it[0] == "callat" else it[2])[0]
        else:
            break
    it = _strip(it)
    if it[0] in ("callat", "call") and (it[2] if it[0] == "callat" else it[1]) in (
            "chunks_exact", "chunks_exact_mut"):
        args = it[3] if it[0] == "callat" else it[2]
        k = _strip(args[1])
        if k[0] == "const":
            return k[1] - i[1]
    return None


def coefficients_left(sym, facts):
    """number of coefficients known to remain from an available fact on a coefficient slice:
    `if let Some(&k) = reminder.first()` -> 1;  `if let Some(k) = chunks_exact(N).next()` -> N"""
    best = None
    for cond, val in facts:
        if val != 1 or cond[0] != "discr":
            continue
        e = _strip(cond[1])
        if e[0] not in ("callat", "call"):
            continue
        nm = e[2] if e[0] == "callat" else e[1]
        args = e[3] if e[0] == "callat" else e[2]
        s = fmt(e)
        if nm in ("first", "get") and re.search(r"remainder\(|values\(|split_at\(|coeff|reminder", s):
            best = 1 if best is None else min(best, 1)
        elif nm == "next" and args:
            it = args[0]
            for _ in range(8):
                it = _strip(it)
                if it[0] == "local":
                    ds = [d for d in sym.defs.get(it[1], []) if d[3]]
                    if len(ds) != 1:
                        break
                    it = sym.rvalue(ds[0][2], ds[0][0])
                elif it[0] in ("callat", "call") and (it[2] if it[0] == "callat" else it[1]) in (
                        "into_iter", "by_ref", "iter"):
                    it = (it[3] if it[0] == "callat" else it[2])[0]
                else:
                    break
            it = _strip(it)
            if it[0] in ("callat", "call") and (it[2] if it[0] == "callat" else it[1]) == "chunks_exact":
                a = it[3] if it[0] == "callat" else it[2]
                k = _strip(a[1])
                if k[0] == "const" and re.search(r"remainder\(|values\(|coeff|reminder", fmt(it)):
                    best = k[1] if best is None else min(best, k[1])
    return best


def dst_chunk_left(sym, facts):
    """`if let Some(dst_chunk) = dst.chunks_exact_mut(N).next()`: N destination components"""
    for cond, val in facts:
        if val != 1 or cond[0] != "discr":
            continue
        e = _strip(cond[1])
        if e[0] == "callat" and e[2] == "next" and e[3]:
            it = e[3][0]
            for _ in range(8):
                it = _strip(it)
                if it[0] == "local":
                    ds = [d for d in sym.defs.get(it[1], []) if d[3]]
                    if len(ds) != 1:
                        break
                    it = sym.rvalue(ds[0][2], ds[0][0])
                elif it[0] in ("callat", "call") and (it[2] if it[0] == "callat" else it[1]) in (
                        "into_iter", "by_ref", "iter"):
                    it = (it[3] if it[0] == "callat" else it[2])[0]
                else:
                    break
            it = _strip(it)
            if it[0] in ("callat", "call") and (it[2] if it[0] == "callat" else it[1]) == "chunks_exact_mut":
                k = _strip((it[3] if it[0] == "callat" else it[2])[1])
                if k[0] == "const":
                    return k[1]
    return None


def starts_at_window(sym, idx):
    """idx is a cursor local initialised from the `start` of a coefficient window"""
    base = _strip(idx)
    if base[0] != "local":
        return False
    for (bb, j, rv, whole) in sym.defs.get(base[1], []):
        e = sym.rvalue(rv, bb)
        if whole and re.search(r"\.start\b|start\(", fmt(e)):
            return True
    return False


def _resolve_iter(sym, it, field=None):
    """chunk size N if `it` is (a zip component `field` of) a chunks_exact(N) iterator"""
    for _ in range(12):
        it = _strip(it)
        if it[0] == "local":
            ds = [d for d in sym.defs.get(it[1], []) if d[3]]
            if len(ds) != 1:
                return None
            it = sym.rvalue(ds[0][2], ds[0][0])
            continue
        if it[0] not in ("callat", "call"):
            return None
        nm = it[2] if it[0] == "callat" else it[1]
        args = it[3] if it[0] == "callat" else it[2]
        if nm in ("into_iter", "by_ref", "iter", "deref_mut", "deref") and args:
            it = args[0]
        elif nm == "zip" and len(args) == 2 and field in (0, 1):
            it, field = args[field], None
        elif nm in ("chunks_exact", "chunks_exact_mut") and field is None:
            k = _strip(args[1])
            return k[1] if k[0] == "const" else None
        else:
            return None
    return None


def closure_chunk(prog, f, sym, buf, idx):
    """f is a closure handed (as 2nd/3rd argument) to a helper that feeds it the items of a
    chunks_exact(N) iterator (foreach_with_pre_reading): N - idx elements remain in `buf`"""
    i = _strip(idx)
    if f.kind != "closure" or i[0] != "const" or not isinstance(i[1], int):
        return None
    b = _strip(buf)
    field = None
    if b[0] == "field" and isinstance(b[2], int):
        field, b = b[2], _strip(b[1])
    if not (b[0] == "param" and b[1] == 2):
        return None
    parent = prog.fns.get(f.d.get("parent"))
    if parent is None:
        return None
    psym = Sym(parent)
    for c in parent.calls():
        if len(c.args) < 2:
            continue
        ops = [psym.operand(a, (c.bb, "term")) for a in c.args]
        if not any(o[0] == "agg" and o[1] == "closure" and o[2] == f.id for o in ops[1:]):
            continue
        if ops[0][0] == "agg":
            continue
        n = _resolve_iter(psym, ops[0], field)
        if n is not None:
            return n - i[1]
    return None


def _max_offset(sym, e, depth=0):
    """largest value of an offset expression: constants, k * (loop variable of a 0..n range)"""
    e = _strip(e)
    if depth > 6:
        return None
    if e[0] == "ovf":
        return _max_offset(sym, e[1], depth + 1)
    if e[0] == "const" and isinstance(e[1], int):
        return e[1]
    if e[0] == "bin" and e[1] in ("Mul", "Add"):
        a, b = _max_offset(sym, e[2], depth + 1), _max_offset(sym, e[3], depth + 1)
        if a is None or b is None:
            return None
        return a * b if e[1] == "Mul" else a + b
    # (next(iter) as Some).0 with iter = into_iter(a..b), constants
    f = e
    for _ in range(3):
        if f[0] in ("field", "variant"):
            f = _strip(f[1])
    if f[0] == "callat" and f[2] == "next" and f[3] and "range" in (f[4] if len(f) > 4 else ""):
        it = f[3][0]
        for _ in range(6):
            it = _strip(it)
            if it[0] == "local":
                ds = [d for d in sym.defs.get(it[1], []) if d[3]]
                if len(ds) != 1:
                    return None
                it = sym.rvalue(ds[0][2], ds[0][0])
            elif it[0] in ("callat", "call") and (it[2] if it[0] == "callat" else it[1]) == "into_iter":
                it = (it[3] if it[0] == "callat" else it[2])[0]
            else:
                break
        it = _strip(it)
        if it[0] == "agg" and it[2].endswith("ops::range::Range") and len(it[4]) == 2:
            lo, hi = _strip(it[4][0]), _strip(it[4][1])
            if lo[0] == "const" and hi[0] == "const" and isinstance(hi[1], int) and hi[1] > 0:
                return hi[1] - 1
    return None


def cursor_alignment(fn, sym, loops, dom, call, idx):
    """innermost loop around `call` that iterates chunks_exact(N) and advances the cursor of
    idx by a constant: returns (N * scale, step * scale, kind, offset) in elements of the
    loaded slice, or None. idx may be cursor (+ offset) or a named `cursor * K` (+ offset)"""
    base = _strip(idx)
    off = 0
    if base[0] == "ovf":
        base = _strip(base[1])
    if base[0] == "bin" and base[1] == "Add":
        a, b = _strip(base[2]), _strip(base[3])
        mo = _max_offset(sym, b)
        if mo is not None:
            off, base = mo, a
        else:
            mo = _max_offset(sym, a)
            if mo is None:
                return None
            off, base = mo, b
    if base[0] != "local":
        return None
    scale = 1
    ds = [d for d in sym.defs.get(base[1], []) if d[3]]
    if len(ds) == 1:
        e = _strip(sym.rvalue(ds[0][2], ds[0][0]))
        if e[0] == "ovf":
            e = _strip(e[1])
        if e[0] == "bin" and e[1] == "Mul" and _strip(e[2])[0] == "local" and \
                _strip(e[3])[0] == "const" and isinstance(_strip(e[3])[1], int):
            base, scale = _strip(e[2]), _strip(e[3])[1]
    enclosing = sorted((body for h, body in loops.items() if call.bb in body), key=len)
    for body in enclosing:
        r = _cursor_in_loop(fn, sym, body, base)
        if r is not None:
            n, step, kind = r
            if isinstance(step, int):
                step *= scale
            return (n * scale, step, kind, off)
    return None


def _cursor_in_loop(fn, sym, body, base):
    n_chunk = None
    kind = "coeff"
    for c in fn.calls():
        if c.bb in body and c.method == "next" and c.args:
            e = sym.operand(c.args[0])
            for _ in range(8):
                e = _strip(e)
                if e[0] == "local":
                    ds = [d for d in sym.defs.get(e[1], []) if d[3]]
                    if len(ds) != 1:
                        break
                    e = sym.rvalue(ds[0][2], ds[0][0])
                elif e[0] in ("callat", "call") and (e[2] if e[0] == "callat" else e[1]) in (
                        "into_iter", "by_ref", "iter"):
                    e = (e[3] if e[0] == "callat" else e[2])[0]
                else:
                    break
            e = _strip(e)
            a0 = c.args[0]
            it_ty = fn.local_ty(a0[1][0]) if a0[0] in ("c", "m") and a0[1] else ""
            if re.search(r"slice::Iter<'[^,]*, i(16|32)>", it_ty or "") and \
                    "Chunks" not in it_ty and "Zip" not in it_ty:
                # `for &k in coeffs`: one coefficient per iteration
                n_chunk = 1 if n_chunk is None else min(n_chunk, 1)
                continue
            if e[0] in ("callat", "call") and (e[2] if e[0] == "callat" else e[1]) in (
                    "chunks_exact", "chunks_exact_mut"):
                args = e[3] if e[0] == "callat" else e[2]
                k = _strip(args[1])
                if k[0] == "const":
                    n_chunk = k[1] if n_chunk is None else min(n_chunk, k[1])
                    kind = "dst" if (e[2] if e[0] == "callat" else e[1]).endswith("_mut") else "coeff"
    if n_chunk is None:
        return None
    step = None
    for (bb, j, rv, whole) in sym.defs.get(base[1], []):
        if bb in body and whole:
            e = _strip(sym.rvalue(rv, bb))
            if e[0] == "ovf":
                e = e[1]
            if e[0] == "bin" and e[1] == "Add" and _strip(e[2]) == base and _strip(e[3])[0] == "const":
                step = _strip(e[3])[1] if step is None else "varies"
            else:
                step = "varies"
    if step is None:
        return None
    return (n_chunk, step, kind)


def guard_adequacy(rep, prog, rule, floor_sites=100):
    rep.rule(rule, "every vector load `helper(buf, idx)` of a SIMD kernel that is guarded by an "
             "available fact idx (+c) < len(buf) - K reads at most the (K+1-c) elements the guard "
             "leaves (bytes read by the helper are derived from the helper's own body, element "
             "size from the slice's type); an inadequate guard reads past the row")
    n = cov = 0
    for f in sorted(prog.fns.values(), key=lambda x: x.id):
        if not re.match(r"^(convolution|alpha)::\w+::(sse4|avx2|neon|wasm32)::", f.name):
            continue
        sites = load_sites(prog, f)
        if not sites:
            continue
        rep.touch(f)
        sym = Sym(f, rd=False)
        av = Avail(f, sym)
        dom = Dom(f)
        loops = loop_blocks(f, dom)
        for c, h in sites:
            n += 1
            buf = sym.operand(c.args[0])
            idx = sym.operand(c.args[1])
            facts = av.at_terminator(c.bb)
            et = (c.targs() or [None])[0]
            if et is None:
                m = re.match(r"^&\[(.+)\]$", h.local_ty(1))
                et = m.group(1) if m else None
            es = type_size(et) if et else None
            w = helper_width(prog, h)
            if w is None:
                w = es
            # resolve `len` locals (let src_width = src_row.len()) inside facts
            rem = remaining_from_guard(facts, idx, buf)
            if rem is None:
                rem = chunk_element(sym, buf, idx)
            if rem is None:
                rem = closure_chunk(prog, f, sym, buf, idx)
            key = "%s|%s(%s)" % (f.name, short(c.name), fmt(idx)[:30])
            if rem is None:
                a = cursor_alignment(f, sym, loops, dom, c, idx)
                mismatch = a is not None and isinstance(a[1], int) and a[1] != a[0]
                if (a is None or a[1] != a[0]) and not mismatch and starts_at_window(sym, idx):
                    left = coefficients_left(sym, facts)
                    if left is not None:
                        a = (left, left, "coeff", 0)
                if a is None and _strip(idx)[0] == "local":
                    left = dst_chunk_left(sym, facts)
                    if left is not None:
                        a = (left, left, "dst", 0)
                if a is None or es is None or w is None:
                    rep.unk(rule, key, c.at, "no explicit length guard and no cursor-aligned "
                            "coefficient loop recognised (relies on the kernel's documented "
                            "precondition)")
                    continue
                cov += 1
                n_chunk, step, kind, off = a
                slack = window_slack(sym, facts, buf, idx) if kind == "coeff" else 0
                what = "coefficients" if kind == "coeff" else "destination components"
                if isinstance(step, int) and step != n_chunk:
                    rep.bad(rule, key + "|cursor-step", c.at, "the loop takes %d %s per iteration "
                            "but advances the source index of %s by %d element(s): from the second "
                            "iteration on, %s and source elements are paired with the wrong "
                            "partner (the portable code pairs element start + i with item i)"
                            % (n_chunk, what, short(c.name), step, what))
                elif step != n_chunk:
                    rep.unk(rule, key, c.at, "index advances by %s per chunk of %s %s"
                            % (step, n_chunk, what))
                elif w + off * es <= (n_chunk + slack) * es:
                    rep.ok(rule, key, c.at, "%d bytes read at offset %d per %d %s x %d-byte "
                           "elements%s" % (w, off, n_chunk, what, es,
                                           " + %d element(s) of slack after the window"
                                           % slack if slack else ""))
                else:
                    w = w + off * es
                    rep.bad(rule, key + "|overread", c.at, "%s reads %d bytes where only %d %s "
                            "(= %d elements of %d bytes = %d bytes) are known to remain: when "
                            "the %s ends at the end of the row it reads %d byte(s) past the row"
                            % (short(c.name), w, n_chunk, what, n_chunk, es, n_chunk * es,
                               "coefficient window" if kind == "coeff" else "destination row",
                               w - (n_chunk + slack) * es))
                continue
            cov += 1
            if es is None or w is None:
                rep.unk(rule, key, c.at, "element size / load width unknown (%s, %s)" % (et, w))
                continue
            if rem * es >= w:
                rep.ok(rule, key, c.at, "%d elements x %d bytes >= %d bytes read" % (rem, es, w))
            else:
                rep.bad(rule, key + "|overread", c.at, "%s reads %d bytes from element %s of a "
                        "row of %s (%d bytes each) but the guard only leaves %d element(s) = %d "
                        "bytes: it reads %d byte(s) past the end of the row" % (
                            short(c.name), w, fmt(idx)[:40], et, es, rem, rem * es, w - rem * es))
    rep.floor(rule, "helper loads in SIMD kernels", n, floor_sites)
    rep.note("%s: %d of %d helper loads are covered by an explicit length guard" % (rule, cov, n))
    return n, cov


def chunk_store(rep, prog, rule):
    """C05: helpers generic over the number of accumulators store SUMS_COUNT * lanes components
    through a raw pointer, whatever the length of the chunk they were given."""
    import re
    from ..sym import Sym, fmt, short
    rep.rule(rule, "multiply_components_of_rows::<_, SUMS_COUNT> of the f32 vertical kernels writes "
             "SUMS_COUNT * K components through a raw pointer into dst_chunk (K = length of the f64 "
             "spill buffer = lanes of one accumulator); every call site passes a chunk of "
             "chunks_exact_mut(N) with N = SUMS_COUNT * K: N smaller lets the helper write past the "
             "chunk (into the next row, the surroundings of a cropped view or past the buffer), N "
             "larger leaves components of the chunk unassigned")
    n = 0
    for f in sorted(prog.fns.values(), key=lambda x: x.id):
        if not re.match(r"^convolution::vertical_f32::\w+::vert_convolution_into_one_row", f.name):
            continue
        sym = None
        for c in f.calls():
            tg = prog.call_targets(c)
            if len(tg) != 1 or "multiply_components_of_rows" not in tg[0].name:
                continue
            h = tg[0]
            sym = sym or Sym(f)
            n += 1
            rep.touch(f)
            cg = [x for x in c.cargs() if isinstance(x, int)]
            key = "%s|%s<%s>" % (f.name, short(h.name), cg[0] if cg else "?")
            # K: the spill buffer parameter `&mut [f64; K]`
            K = None
            for i in range(1, h.arg_count + 1):
                m = re.match(r"^&mut \[f64; (\d+)\]$", h.local_ty(i) or "")
                if m:
                    K = int(m.group(1))
            # helper shape: one raw store, pointer advanced by one element per stored value
            raw = sum(1 for blk in h.blocks if not blk["c"] for st in blk["s"]
                      if st[0] == "a" and len(st[1]) == 2 and st[1][1] == "*"
                      and (h.local_ty(st[1][0]) or "").startswith("*mut f32"))
            adds = [cc for cc in h.calls() if (cc.method or short(cc.name)) == "add"]
            chunk = None
            for a in c.args:
                s = fmt(sym.operand(a, (c.bb, "term")))
                m = re.search(r"chunks_exact_mut(?:@bb\d+)?\((.*), (\d+)\)", s)
                if m:
                    chunk = int(m.group(2))
            if chunk is None:
                # the chunk iterator variable is re-assigned between the loops: the chunks_exact_mut
                # call that dominates this call and is dominated by every other dominating one
                from ..cfg import Dom
                dom = Dom(f)
                best = None
                for cc in f.calls():
                    if (cc.method or short(cc.name)) != "chunks_exact_mut" or not dom.dominates(cc.bb, c.bb):
                        continue
                    if best is None or dom.dominates(best.bb, cc.bb):
                        best = cc
                if best is not None and len(best.args) == 2:
                    sz = sym.operand(best.args[1], (best.bb, "term"))
                    if sz[0] == "const":
                        chunk = sz[1]
            if not cg or K is None or raw != 1 or len(adds) != 1 or chunk is None:
                rep.unk(rule, key, c.at, "helper shape or chunk length not recognised (SUMS_COUNT=%s K=%s "
                        "raw stores=%d chunk=%s)" % (cg[:1], K, raw, chunk))
                continue
            written = cg[0] * K
            if written == chunk:
                rep.ok(rule, key, c.at, "%d accumulators x %d lanes = chunk of %d" % (cg[0], K, chunk))
            elif written > chunk:
                rep.bad(rule, key + "|overrun", c.at,
                        "%s: %s::<_, %d> stores %d x %d = %d components into a chunk of %d: %d components "
                        "(%d bytes) are written past the chunk" % (f.name, short(h.name), cg[0], cg[0], K,
                                                                    written, chunk, written - chunk,
                                                                    4 * (written - chunk)))
            else:
                rep.bad(rule, key + "|short", c.at,
                        "%s: %s::<_, %d> assigns only %d of the %d components of its chunk"
                        % (f.name, short(h.name), cg[0], written, chunk))
    rep.floor(rule, "calls of multiply_components_of_rows", n, 3)


def offset_flows(rep, prog, rule, floor=20):
    """C02/C13: the column offset of a vertical pass reaches every source access."""
    import re
    from ..sym import Sym, fmt, short
    rep.rule(rule, "in every vertical kernel (vert_convolution_into_one_row*) the index of every "
             "source access -- the index argument of a SIMD load helper applied to source rows, the "
             "`src_x` argument of a crate-local helper, a range get_unchecked(src_x..) on source "
             "components -- depends on the kernel's column cursor src_x (which starts at offset * "
             "components): an index computed from the destination position alone drops the offset, "
             "the kernel then convolves other columns whenever the pass runs with a non-zero offset")
    n = 0
    for f in sorted(prog.fns.values(), key=lambda x: x.id):
        if not re.match(r"^convolution::vertical_\w+::\w+::vert_convolution_into_one_row", f.name):
            continue
        if f.kind == "closure":
            continue
        cur = None
        for i in range(1, f.arg_count + 1):
            if f.local_name(i) in ("src_x", "start_src_x"):
                cur = i
        if cur is None:
            continue
        sym = Sym(f)

        def depends(e):
            s = fmt(e)
            return bool(re.search(r"\b(start_)?src_x\b", s))

        def is_src(buf):
            """rows handed out by the source view's iterators (not a local spill array)"""
            return bool(re.search(r"\bsrc|s_row|components(@bb\d+)?\(|next(@bb\d+)?\(", buf)) and \
                not re.match(r"^\(?\w*buf\w* as ", buf)
        for c in f.calls():
            tg = prog.call_targets(c)
            nm = c.method or short(c.name)
            idx = None
            what = None
            if len(tg) == 1 and tg[0].kind != "closure":
                h = tg[0]
                for i in range(1, h.arg_count + 1):
                    if h.local_name(i) in ("src_x", "x_src", "start_src_x") and i - 1 < len(c.args):
                        idx, what = c.args[i - 1], "%s(.., src_x = .., ..)" % short(h.name)
                if idx is None and c.name.startswith(HELPER_MODS) and len(c.args) == 2 and \
                        not short(c.name).startswith("store") and \
                        (h.local_ty(1) or "").startswith("&[") and h.local_ty(2) == "usize":
                    buf = fmt(sym.operand(c.args[0], (c.bb, "term")))
                    if is_src(buf):
                        idx, what = c.args[1], "%s(source row, ..)" % short(c.name)
            if idx is None and nm == "get_unchecked" and len(c.args) == 2:
                buf = fmt(sym.operand(c.args[0], (c.bb, "term")))
                if is_src(buf):
                    idx, what = c.args[1], "get_unchecked(source components, ..)"
            if idx is None:
                continue
            n += 1
            rep.touch(f)
            e = sym.operand(idx, (c.bb, "term"))
            key = "%s|%s|%s" % (f.name, what, re.sub(r"@bb\d+", "", fmt(e))[:50])
            if depends(e):
                rep.ok(rule, key, c.at, "index %s follows the cursor" % fmt(e)[:60])
            else:
                rep.bad(rule, key + "|offset-dropped", c.at,
                        "%s: the source index %s of %s does not depend on src_x: the column offset of "
                        "the pass is ignored for this access" % (f.name, fmt(e)[:80], what))
    rep.floor(rule, "source accesses in the vertical kernels", n, floor)


def cursor_advance(rep, prog, rule, floor=20):
    """the source cursor of a vertical kernel advances with the destination"""
    from ..cfg import Dom, reachable_from, find_path
    rep.rule(rule, "in the vertical kernels the source cursor advances in step with the destination: "
             "a tier takes its destination chunks from chunks_exact_mut(K) of the destination row; "
             "(a) a tier that is a loop adds K to the cursor on every way round the loop, (b) a tier "
             "that handles one chunk (`if let Some(chunk) = chunks.next()`) adds K before the cursor "
             "is used by anything else than the code that fills that chunk. A missing or different "
             "increment makes every later tier -- in particular the scalar tail -- read source "
             "columns that do not belong to the destination columns it writes")
    n = 0
    for f in sorted(prog.fns.values(), key=lambda x: x.id):
        if f.kind == "closure" or not re.match(r"^convolution::vertical_\w+::", f.name):
            continue
        curs = [i for i, l in enumerate(f.locals) if l[1] in ("src_x", "x_src") and i > 0]
        if not curs:
            continue
        sym = Sym(f)
        dom = Dom(f)
        l = curs[0]
        cur = ("local", l, f.local_name(l))
        cur_p = ("param", l, f.local_name(l))
        incs = {}
        for (bb, j, rv, w) in f.defs().get(l, []):
            e = sym.rvalue(rv, bb, (bb, j))
            while e[0] in ("ovf", "cast"):
                e = e[1] if e[0] == "ovf" else e[2]
            if e[0] == "bin" and e[1] == "Add" and e[2] in (cur, cur_p) and e[3][0] == "const":
                incs[bb] = e[3][1]
            elif e[0] == "bin" and e[1] == "Add" and e[3] in (cur, cur_p) and e[2][0] == "const":
                incs[bb] = e[2][1]
            else:
                incs[bb] = None
        if not incs:
            continue

        def uses_cursor(c):
            return any(sym.operand(a, (c.bb, "term")) in (cur, cur_p) for a in c.args)

        def chunk_size(nb):
            """K when the `next` call in block nb advances an iterator over chunks_exact_mut(.., K)"""
            nc = f.call_in(nb)
            it = sym.operand(nc.args[0], (nb, "term")) if nc and nc.args else None
            seen_l = set()
            for _ in range(6):
                if it is None:
                    return None
                # the iterator itself (through into_iter / by_ref / borrows), not something made
                # from its remainder or its elements
                x = it
                while isinstance(x, tuple) and x:
                    if x[0] in ("ref", "deref", "reborrow"):
                        x = x[1]
                    elif x[0] == "cast":
                        x = x[2]
                    elif x[0] in ("call", "callat") and (x[1] if x[0] == "call" else x[2]) in ("into_iter", "by_ref") \
                            and (x[2] if x[0] == "call" else x[3]):
                        x = (x[2] if x[0] == "call" else x[3])[0]
                    else:
                        break
                it = x
                if isinstance(it, tuple) and it and it[0] in ("call", "callat"):
                    nm_ = it[1] if it[0] == "call" else it[2]
                    ar_ = it[2] if it[0] == "call" else it[3]
                    if nm_ == "chunks_exact_mut" and len(ar_) == 2 and ar_[1][0] == "const":
                        return ar_[1][1]
                    return None
                if not (isinstance(it, tuple) and it and it[0] == "local"):
                    return None
                loc = [it] if it[1] not in seen_l else []
                if not loc:
                    return None
                L = loc[0]
                seen_l.add(L[1])
                best = None
                for (bb, j, rv, w) in f.defs().get(L[1], []):
                    if w and dom.dominates(bb, nb) and (best is None or dom.dominates(best[0], bb)):
                        best = (bb, j, rv)
                if best is None:
                    return None
                it = sym.rvalue(best[2], best[0], (best[0], best[1]))
            return None
        for c in f.calls():
            if (c.method or short(c.name)) != "next":
                continue
            K = chunk_size(c.bb)
            if K is None:
                continue
            # Some edge: the successor chain from which the chunk is used
            nb = c.bb
            start = None
            for (p_, s_, cond, val) in sym.edge_facts():
                if cond[0] == "discr" and val == 1 and re.search(r"next@bb%d\(" % nb, fmt(cond)):
                    start = s_
            if start is None:
                continue
            n += 1
            rep.touch(f)
            good = {b for b, k in incs.items() if k == K}
            key = "%s|tier@K=%d" % (f.name, K)
            region = reachable_from(f, start, blocked=good)
            verdict = None
            if nb in reachable_from(f, start):
                # loop tier: a way round without the increment?
                if nb in region:
                    bad_inc = [k for b, k in incs.items() if b in region and k != K]
                    verdict = ("a way round the loop over chunks of %d components does not add %d to the "
                               "cursor%s" % (K, K, (" (it adds %s)" % bad_inc[0]) if bad_inc else ""))
            else:
                # single-chunk tier: it ends where the Some and the None edge of `next` meet again
                none_start = None
                for (p_, s_, cond, val) in sym.edge_facts():
                    if cond[0] == "discr" and re.search(r"next@bb%d\(" % nb, fmt(cond)) and \
                            (val == 0 or (isinstance(val, tuple) and val and val[0] == "not" and 1 in val[1])):
                        none_start = s_
                after = reachable_from(f, none_start) if none_start is not None else set()
                leak = region & after           # reached from the tier without the increment
                for cb in f.calls():
                    if cb.bb in leak and uses_cursor(cb):
                        verdict = ("after the single chunk of %d components the cursor is used by %s "
                                   "without having advanced by %d" % (K, cb.method or short(cb.name), K))
                        break
            if verdict:
                rep.bad(rule, key + "|cursor", c.at, "%s: %s" % (f.name, verdict))
            else:
                rep.ok(rule, key, c.at, "cursor += %d with every chunk" % K)
    rep.floor(rule, "tiers of the vertical kernels", n, floor)


def _find_chunks(e, depth=0):
    """K of a chunks_exact_mut(.., K) call inside the expression"""
    if not isinstance(e, tuple) or not e or depth > 12:
        return None
    if e[0] in ("call", "callat"):
        nm = e[1] if e[0] == "call" else e[2]
        args = e[2] if e[0] == "call" else e[3]
        if nm == "chunks_exact_mut" and len(args) == 2 and args[1][0] == "const":
            return args[1][1]
    for x in e[1:]:
        if isinstance(x, tuple):
            r = _find_chunks(x, depth + 1) if (x and isinstance(x[0], str)) else None
            if r is None and x and isinstance(x[0], tuple):
                for y in x:
                    r = _find_chunks(y, depth + 1)
                    if r is not None:
                        break
            if r is not None:
                return r
    return None


def _locals(e, acc=None):
    acc = [] if acc is None else acc
    if isinstance(e, tuple) and e:
        if e[0] == "local":
            acc.append(e)
        for x in e:
            if isinstance(x, tuple):
                _locals(x, acc)
    return acc
