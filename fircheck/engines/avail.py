"""Available guard facts: a forward must-analysis (intersection at joins) of branch conditions,
with facts about a re-assigned local killed at its assignments. Unlike Sym.facts_at (edge
dominance only) this establishes loop invariants of the form `x < bound` that hold on entry
and are re-established before every back edge."""
from ..sym import unstable_locals


class Avail:
    def __init__(self, fn, sym):
        self.fn = fn
        self.sym = sym
        self.edge = {}
        for (p, s, cond, val) in sym.edge_facts():
            self.edge.setdefault((p, s), []).append(self._norm(p, cond, val))
        self.kills = self._kills()
        self.IN = self._solve()

    NEG = {"Lt": "Ge", "Ge": "Lt", "Gt": "Le", "Le": "Gt", "Eq": "Ne", "Ne": "Eq"}

    def _norm(self, p, cond, val):
        """integer comparisons that are false are replaced by the true negated comparison, so
        that `if x < m` (taken) and `if x >= m {break}` (not taken) are the same fact"""
        if cond[0] == "bin" and cond[1] in self.NEG and val is False and self._int_cmp(p):
            cond, val = ("bin", self.NEG[cond[1]], cond[2], cond[3]), True
        # one spelling per comparison: `m > x` is `x < m`, `m >= x` is `x <= m`
        if cond[0] == "bin" and cond[1] in ("Gt", "Ge"):
            cond = ("bin", {"Gt": "Lt", "Ge": "Le"}[cond[1]], cond[3], cond[2])
        return (cond, val)

    def _int_cmp(self, p):
        fn = self.fn
        t = fn.term(p)
        if t[0] != "sw" or t[1][0] not in ("c", "m"):
            return False
        l = t[1][1][0]
        for (bb, j, rv, w) in fn.defs().get(l, []):
            if rv[0] == "bin":
                for o in (rv[2], rv[3]):
                    if o[0] in ("c", "m") and len(o[1]) == 1:
                        ty = fn.local_ty(o[1][0])
                        return ty in ("usize", "u32", "u64", "u8", "u16", "i32", "i64", "isize")
                    if o[0] == "k":
                        return o[1] in ("usize", "u32", "u64", "u8", "u16", "i32", "i64", "isize")
        return False

    def _kills(self):
        fn = self.fn
        sym = self.sym
        if sym._mutborrowed is None:
            sym._scan_mut_borrows()
        out = []
        for b, blk in enumerate(fn.blocks):
            k = set()
            if not blk["c"]:
                for st in blk["s"]:
                    if st[0] == "a" and "*" not in st[1][1:]:
                        k.add(st[1][0])
                t = blk["t"]
                if t[0] == "call":
                    k.add(t[3][0])
                    k |= sym._mutborrowed      # a callee may write through a &mut borrow
            out.append(k)
        return out

    def _apply_kill(self, facts, killed):
        if not killed:
            return facts
        return {f for f in facts if not (unstable_locals(f[0]) & killed)}

    def _solve(self):
        fn = self.fn
        n = len(fn.blocks)
        IN = [None] * n
        IN[0] = set()
        changed = True
        it = 0
        while changed and it < 50:
            changed = False
            it += 1
            for b in range(n):
                if fn.blocks[b]["c"]:
                    continue
                if b != 0:
                    acc = None
                    for p in fn.pred[b]:
                        if IN[p] is None:
                            continue
                        o = self._apply_kill(IN[p], self.kills[p]) | set(self.edge.get((p, b), []))
                        acc = o if acc is None else (acc & o)
                    if acc is None:
                        continue
                    if IN[b] is None or acc != IN[b]:
                        IN[b] = acc
                        changed = True
        return [x if x is not None else set() for x in IN]

    def at_terminator(self, b):
        """facts available when the terminator of block b executes (after its statements)"""
        blk = self.fn.blocks[b]
        killed = set()
        for st in blk["s"]:
            if st[0] == "a" and "*" not in st[1][1:]:
                killed.add(st[1][0])
        return self._apply_kill(self.IN[b], killed)
