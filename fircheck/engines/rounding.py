"""Rounded division by 2^k - 1 in the alpha-multiplication primitives: recognition of the exact
idiom and of the classical wrong ones on the lane expression DAG (no evaluation).

A lane expression is normalised to a *linear form*: a sorted tuple of terms
    ('x',)            the product of two data values (component * alpha)
    ('c', v)          a splat constant
    ('shr', k, form)  logical right shift of a linear form by k
    ('d',)            unmodified data
    ('?', what)       anything else
Addition is flattened (associativity/commutativity), rounding shifts and add-high-narrow
instructions are expanded (vrshr_n<k>(e) = (e + 2^(k-1)) >> k; vaddhn(a, b) = (a + b) >> k),
multiply-accumulate is acc + x, pack/combine give one alternative per input vector.

round(x / (2^k - 1)) for 0 <= x <= (2^k - 1)^2 equals (t + (t >> k)) >> k with t = x + 2^(k-1)
(the classical 'divide by 255' identity).  The table BAD lists forms that differ from the exact
result for some operand pair (one pair is given per entry)."""
import re

from ..sym import Sym, fmt
from .deps import const_of_splat

X = ("x",)
D = ("d",)


def lin(*terms):
    return tuple(sorted(terms, key=repr))


def _name(e):
    return e[2] if e[0] == "callat" else e[1]


def _args(e):
    return e[3] if e[0] == "callat" else e[2]


def _cargs(e):
    last = e[-1]
    n = 6 if e[0] == "callat" else 5
    if len(e) > n and isinstance(last, tuple) and all(isinstance(x, int) for x in last):
        return last
    return ()


ADD = re.compile(r"^(_mm(256)?_add_epi(16|32)|vaddq?_u(16|32)|[iu](16x8|32x4)_add)$")
MUL = re.compile(r"^(_mm(256)?_mullo_epi(16|32)|vmulq?_u(16|32)|vmull_(high_)?u(8|16)|"
                 r"[iu](16x8|32x4)_mul|[iu](16x8|32x4)_extmul_(low|high)_u(8x16|16x8))$")
MLA = re.compile(r"^(vmlal_(high_)?u(8|16)|vmlaq?_u(16|32))$")
SHR = re.compile(r"^(_mm(256)?_srli_epi(16|32)|vshrq?_n_u(16|32)|u(16x8|32x4)_shr)$")
RSHR = re.compile(r"^vrshrq?_n_u(16|32)$")
SHRN = re.compile(r"^vshrn_n_u(16|32)$")
RSHRN = re.compile(r"^vrshrn_n_u(16|32)$")
ADDHN = re.compile(r"^vaddhn_u(16|32)$")
RADDHN = re.compile(r"^vraddhn_u(16|32)$")
PAIR = re.compile(r"^(_mm(256)?_packus_epi(16|32)|vcombine_u(8|16|32)|u8x16_narrow_i16x8|"
                  r"u16x8_narrow_i32x4|vqmovn_high_u(16|32)|vmovn_high_u(16|32))$")
PASS1 = re.compile(r"^(vqmovn_u(16|32)|vmovn_u(16|32)|vreinterpretq?_\w+|vget_(low|high)_\w+|"
                   r"[iu](16x8|32x4)_extend_(low|high)_u(8x16|16x8)|_mm(256)?_cvtepu(8|16)_epi(16|32)|"
                   r"_mm256_castsi256_si128|_mm256_extracti128_si256|_mm256_castsi128_si256)$")
ZIPZ = re.compile(r"^(_mm(256)?_unpack(lo|hi)_epi(8|16)|vzip[12]q?_u(8|16))$")
DATA = re.compile(r"^(_mm(256)?_(shuffle_epi8|or_si\d+|and_si\d+|andnot_si\d+|blendv_epi8|"
                  r"loadu_si\d+|loadl_epi64|set_epi\d+|setr_epi\d+|set_m128i|set1_epi64x|set1_epi\d+|permute\w+|"
                  r"blend_epi\d+)|"
                  r"v128_(or|and|andnot|bitselect|load\w*)|[iu]8x16_(swizzle|shuffle)|"
                  r"vld\w+|vqtbl\w+|vtbl\w+|vorrq?_\w+|vandq?_\w+|vbslq?_\w+|vdupq?_lane\w*|"
                  r"vuzp[12]q?_\w+|vtrn[12]q?_\w+|vextq?_\w+)$")


def _is_zero(e, ctx_zero=()):
    if not isinstance(e, tuple):
        return False
    if e[0] in ("callat", "call") and re.match(r"^(_mm(256)?_setzero_si\d+|[iu]\d+x\d+_splat|"
                                                r"vdupq?_n_\w+)$", _name(e)):
        a = _args(e)
        return not a or const_of_splat(a[0]) == 0
    if e[0] == "param" and e[2] == "zero":
        return True          # neon_utils helpers receive the zero vector from their caller
    return False


class Normaliser:
    def __init__(self, prog, fn):
        self.prog = prog
        self.fn = fn
        self.memo = {}

    def static_const(self, e, lane_bits):
        st = self.prog.statics.get(e[1]) if e[0] == "static" else None
        if not st or "bytes" not in st or not lane_bits:
            return None
        b = st["bytes"]
        n = lane_bits // 8
        vals = {int.from_bytes(bytes(x & 0xff for x in b[i:i + n]), "little")
                for i in range(0, len(b), n)}
        return vals.pop() if len(vals) == 1 else None

    def forms(self, e, lane_bits=None, depth=0):
        key = (e, lane_bits)
        try:
            if key in self.memo:
                return self.memo[key]
        except TypeError:
            key = None
        r = self._forms(e, lane_bits, depth)
        if len(r) > 8:
            r = r[:8]
        if key is not None:
            self.memo[key] = r
        return r

    def _shift_of(self, e):
        cg = _cargs(e)
        if cg:
            return cg[0]
        a = _args(e)
        if len(a) > 1:
            c = const_of_splat(a[1])
            if isinstance(c, int):
                return c
        return None

    def _sum(self, parts):
        """cartesian sum of alternative lists"""
        outs = [()]
        for alts in parts:
            outs = [o + a for o in outs for a in alts][:8]
        return [lin(*o) for o in outs]

    def _forms(self, e, lb, depth):
        if depth > 60 or not isinstance(e, tuple) or not e:
            return [lin(("?", "depth"))]
        k = e[0]
        if k == "const":
            return [lin(("c", e[1]))] if isinstance(e[1], int) else [lin(("?", "const"))]
        if k == "param":
            return [lin(D)]
        if k == "static":
            c = self.static_const(e, lb)
            return [lin(("c", c))] if c is not None else [lin(D)]
        if k == "cast":
            return self.forms(e[2], lb, depth + 1)
        if k == "bin":
            op, a, b = e[1], e[2], e[3]
            if op == "Add":
                return self._sum([self.forms(a, lb, depth + 1), self.forms(b, lb, depth + 1)])
            if op == "Mul":
                fa, fb = self.forms(a, lb, depth + 1), self.forms(b, lb, depth + 1)
                if fa == [lin(D)] and fb == [lin(D)]:
                    return [lin(X)]
                return [lin(("?", "Mul"))]
            if op == "Shr" and b[0] == "const":
                return [lin(("shr", b[1], f)) for f in self.forms(a, lb, depth + 1)]
            return [lin(("?", op))]
        if k in ("field", "index", "proj", "variant"):
            f = self.forms(e[1], lb, depth + 1)
            return f if f == [lin(D)] else [lin(("?", k))]
        if k not in ("callat", "call"):
            return [lin(("?", k))]
        n, a = _name(e), _args(e)
        m = re.search(r"(?:epi|_[iu]|^[iu])(8|16|32)(?:x\d+)?", n)
        bits = int(m.group(1)) if m else lb
        c = const_of_splat(e)
        if isinstance(c, int) and re.match(r"^(_mm(256)?_set1_|vdupq?_n_|[iu]\d+x\d+_splat)", n):
            return [lin(("c", c & ((1 << bits) - 1) if bits else c))]
        f = lambda x, b=bits: self.forms(x, b, depth + 1)
        if ADD.match(n) and len(a) == 2:
            return self._sum([f(a[0]), f(a[1])])
        if MUL.match(n) and len(a) == 2:
            fa, fb = f(a[0]), f(a[1])
            if all(x == lin(D) for x in fa + fb):
                return [lin(X)]
            return [lin(("?", n))]
        if MLA.match(n) and len(a) == 3:
            fa, fb = f(a[1]), f(a[2])
            if all(x == lin(D) for x in fa + fb):
                return self._sum([f(a[0]), [(X,)]])
            return [lin(("?", n))]
        half_of = lambda kk: ("c", 1 << (kk - 1))
        if SHR.match(n) or RSHR.match(n) or SHRN.match(n) or RSHRN.match(n):
            kk = self._shift_of(e)
            if kk is None:
                return [lin(("?", n + " count"))]
            inner = f(a[0])
            if RSHR.match(n) or RSHRN.match(n):
                inner = self._sum([inner, [(half_of(kk),)]])
            return [lin(("shr", kk, g)) for g in inner]
        if ADDHN.match(n) or RADDHN.match(n):
            kk = int(re.search(r"u(\d+)$", n).group(1)) // 2
            parts = [f(a[0]), f(a[1])]
            if RADDHN.match(n):
                parts.append([(half_of(kk),)])
            return [lin(("shr", kk, g)) for g in self._sum(parts)]
        if PAIR.match(n) and len(a) == 2:
            return f(a[0]) + [g for g in f(a[1]) if g not in f(a[0])]
        if PASS1.match(n) and a:
            return f(a[0])
        if ZIPZ.match(n) and len(a) == 2:
            if _is_zero(a[1]):
                return f(a[0])
            fa, fb = f(a[0]), f(a[1])
            if all(x == lin(D) for x in fa + fb):
                return [lin(D)]
            return [lin(("?", n))]
        if DATA.match(n):
            if all(x in (lin(D),) or (len(x) == 1 and x[0][0] == "c") for y in a for x in f(y)):
                return [lin(D)]
            return [lin(("?", n))]
        tgt = self.prog.fns.get(e[4] if k == "callat" else e[3]) if len(e) > 4 else None
        if tgt is not None:
            return [lin(D)]           # value computed by another crate function: judged there
        return [lin(("?", n))]


def has_x(form):
    for t in form:
        if t == X:
            return True
        if t[0] == "shr" and has_x(t[2]):
            return True
    return False


def has_unknown_arith(form, under_shift=False):
    for t in form:
        if t[0] == "?" and under_shift:
            return t[1]
        if t[0] == "shr":
            r = has_unknown_arith(t[2], True)
            if r:
                return r
    return None


def show(form):
    out = []
    for t in form:
        if t == X:
            out.append("x")
        elif t == D:
            out.append("data")
        elif t[0] == "c":
            out.append(hex(t[1]) if isinstance(t[1], int) else str(t[1]))
        elif t[0] == "shr":
            out.append("(%s >> %d)" % (show(t[2]), t[1]))
        else:
            out.append("<%s>" % t[1])
    return " + ".join(out)


def classify(form, comp_bits):
    """('good'|'bad'|'unk', text)"""
    if len(form) != 1 or form[0][0] != "shr":
        return "unk", "not a single final shift"
    _, k, g = form[0]
    if k not in (8, 16):
        return "unk", "shift by %d" % k
    if comp_bits and comp_bits != k:
        return "unk", "shift by %d for %d-bit components" % (k, comp_bits)
    h = ("c", 1 << (k - 1))
    t = lin(X, h)
    good = lin(X, h, ("shr", k, t))
    if g == good:
        return "good", "(t + (t >> %d)) >> %d with t = x + %#x" % (k, k, 1 << (k - 1))
    BAD = [
        (lin(X, h, ("shr", k, lin(X))),
         "the rounding constant is added after the inner shift: (x + (x >> k) + half) >> k",
         {8: "152*229 -> 136, exact 137", 16: "65279*65407 -> 65151, exact 65152"}),
        (lin(X, h), "division by 2^k instead of 2^k - 1: (x + half) >> k",
         {8: "3*213 -> 2, exact 3", 16: "44*32023 -> 21, exact 22"}),
        (lin(X, ("shr", k, lin(X))), "no rounding constant: (x + (x >> k)) >> k",
         {8: "1*128 -> 0, exact 1", 16: "1*65235 -> 0, exact 1"}),
        (lin(X), "truncating shift: x >> k", {8: "1*128 -> 0, exact 1", 16: "1*65235 -> 0, exact 1"}),
        (lin(X, ("shr", k, t)), "the rounding constant is missing in the outer sum: "
         "(x + ((x + half) >> k)) >> k", {8: "1*128 -> 0, exact 1", 16: "1*65235 -> 0, exact 1"}),
    ]
    for pat, what, ex in BAD:
        if g == pat:
            return "bad", "%s (e.g. %s)" % (what, ex[k])
    return "unk", "unrecognised form (%s) >> %d" % (show(g), k)


BACKENDS = ("native", "sse4", "avx2", "neon", "wasm32")
UTIL_MODS = ("alpha::", "neon_utils::", "wasm32_utils::", "simd_utils::")


def round_div(rep, prog, rule):
    rep.rule(rule, "every function reachable from a multiply_alpha routine of an integer pixel "
             "type that returns a value computed from a product of two data values computes "
             "round(x / (2^k - 1)) by the exact idiom (t + (t >> k)) >> k, t = x + 2^(k-1) "
             "(normal form of the lane expression DAG: flattened sums, expanded rounding shifts / "
             "add-high-narrow / multiply-accumulate, one alternative per packed input). The "
             "classical wrong variants (late rounding constant, division by 2^k, missing "
             "constant, truncation) are violations; any other form is undecided")
    entries = {}
    for f in prog.fns.values():
        m = re.match(r"^alpha::(u8x2|u8x4|u16x2|u16x4)::(\w+)::(multiply_alpha(_inplace)?)$", f.name)
        if m and m.group(2) in BACKENDS and f.kind != "closure":
            entries.setdefault((m.group(1), m.group(2)), []).append(f)
    rep.floor(rule, "integer multiply_alpha back-end modules", len(entries), 8)
    total = 0
    for (ty, be), fs in sorted(entries.items()):
        bits = 8 if ty.startswith("u8") else 16
        seen, work, found = set(), list(fs), 0
        while work:
            g = work.pop()
            if g.id in seen:
                continue
            seen.add(g.id)
            work.extend(g.closures())
            for c in g.calls():
                work.extend(t for t in prog.call_targets(c) if t.name.startswith(UTIL_MODS))
            out = g.d.get("output", "")
            if out in ("()", "") or g.name.endswith(("multiply_alpha", "multiply_alpha_inplace")):
                continue
            rep.touch(g)
            sym = Sym(g)
            nz = Normaliser(prog, g)
            forms = []
            for (bb, j, rv, whole) in g.defs().get(0, []):
                forms.extend(nz.forms(sym.rvalue(rv, bb, (bb, j))))
            forms = [fm for fm in dict.fromkeys(forms) if has_x(fm) or any(t[0] == "?" for t in fm)]
            xforms = [fm for fm in forms if has_x(fm)]
            key = "%s::%s|%s" % (ty, be, g.name)
            if not xforms:
                u = [has_unknown_arith(fm) for fm in forms if has_unknown_arith(fm)]
                if u:
                    rep.unk(rule, key, g.loc, "shifted value with an operation that is not "
                            "modelled (%s)" % u[0])
                continue
            verdicts = [classify(fm, bits) for fm in xforms]
            found += 1
            total += 1
            if any(v == "bad" for v, _ in verdicts):
                txt = [t for v, t in verdicts if v == "bad"][0]
                rep.bad(rule, key + "|inexact", g.loc, "%s: %s" % (g.name, txt))
            elif all(v == "good" for v, _ in verdicts):
                rep.ok(rule, key, g.loc, "%d lane form(s): %s" % (len(verdicts), verdicts[0][1]))
            else:
                txt = [t for v, t in verdicts if v == "unk"][0]
                rep.unk(rule, key, g.loc, txt)
        if not found:
            rep.unk(rule, "%s::%s" % (ty, be), fs[0].loc, "no value-returning primitive with a "
                    "product found under %s (arithmetic written inline in a storing routine?)"
                    % fs[0].name)
    rep.floor(rule, "rounded-division primitives", total, 12)
