"""E4 — data-dependence rules over symbolic expression trees (DESIGN §3/E4):
derived-through (every path from an arithmetic result to a stored lane passes a saturating
narrowing of the component width) and never-through (pixel data is never sign-extended)."""
import re

from ..sym import Sym, fmt, short
from .validators import subst

STORE_FNS = re.compile(r"^(_mm(256)?_storeu_si(128|256)|_mm_storel_epi64|_mm(256)?_storeu_p[sd]|"
                       r"vst[1-4]q?_[usf]\d+(_x[234])?|v128_store|write_unaligned)$")

LOADS = re.compile(r"^(_mm(256)?_loadu?_(si128|si256|ps|pd)|_mm_loadl_epi64|vld[1-4]q?_[usf]\d+"
                   r"(_x[234])?|v128_load\w*|read_unaligned|load\w*|loadu\w*|loadl\w*|"
                   r"get_unchecked(_mut)?|get|index|first|last)$")

ARITH = re.compile(r"(_mul|_div_|_madd|_add_|_sub_|^vmul|^vdiv|^vmla|^vmls|^vadd|^vsub|"
                   r"^[iuf]\d+x\d+_(mul|div|add|sub|extmul|dot))")


def const_of_splat(e):
    """value of set1/splat/dup constants"""
    if not isinstance(e, tuple) or not e:
        return None
    if e[0] == "const":
        return e[1]
    if e[0] in ("callat", "call"):
        nm = e[2] if e[0] == "callat" else e[1]
        args = e[3] if e[0] == "callat" else e[2]
        if re.match(r"^(_mm(256)?_set1_|_mm_set_ps1|vdupq?_n_|[iuf]\d+x\d+_splat)", nm) and args:
            return const_of_splat(args[0])
    if e[0] == "cast":
        return const_of_splat(e[2])
    if e[0] == "bin" and e[1] in ("Mul", "Add", "Sub", "Shl"):
        a, b = const_of_splat(e[2]), const_of_splat(e[3])
        if a is not None and b is not None:
            try:
                return {"Mul": a * b, "Add": a + b, "Sub": a - b,
                        "Shl": (a << b) if isinstance(a, int) and isinstance(b, int) else None}[e[1]]
            except (TypeError, ValueError):
                return None
    return None


def is_sat(name, args, width):
    """does intrinsic `name` saturate its result to an unsigned `width`-bit component?"""
    maxv = (1 << width) - 1
    if width == 8:
        if name in ("_mm_packus_epi16", "_mm256_packus_epi16", "vqmovn_u16", "vqmovun_s16",
                    "u8x16_narrow_i16x8", "vqmovn_high_u16", "vqmovun_high_s16"):
            return True
    if width == 16:
        if name in ("_mm_packus_epi32", "_mm256_packus_epi32", "vqmovn_u32", "vqmovun_s32",
                    "u16x8_narrow_i32x4", "vqmovn_high_u32", "vqmovun_high_s32", "vqmovns_u32"):
            return True
    if re.match(r"^(_mm(256)?_min_(epu16|epi16|epu32|epi32|ps)|vminq?_[usf]\d+|"
                r"[iuf]\d+x\d+_(min|pmin))$", name) and len(args) == 2:
        for a in args:
            c = const_of_splat(a)
            if c is not None and 0 <= c <= maxv:
                return True
    if name in ("min", "clamp"):       # scalar code
        for a in args[1:]:
            c = const_of_splat(a)
            if c is not None and 0 <= c <= maxv:
                return True
    return False


# iterator / slice adaptors: the value flows from the first argument, the others are counts
ADAPTORS_FIRST = {"take", "skip", "step_by", "enumerate", "chunks_exact", "chunks_exact_mut",
                  "chunks", "chunks_mut", "iter", "iter_mut", "into_iter", "next", "rev", "by_ref",
                  "into_remainder", "remainder", "from_raw_parts", "from_raw_parts_mut",
                  "components", "components_mut", "as_mut_ptr", "as_ptr", "add", "offset",
                  "get_unchecked_mut", "split_at_mut", "split_at", "as_mut_slice", "as_slice",
                  "deref", "deref_mut", "unwrap", "unwrap_unchecked", "first_mut", "copied",
                  "cloned", "nth", "last", "array_chunks", "as_chunks", "as_chunks_mut"}


class Tracer:
    def __init__(self, prog, width, inline_depth=3):
        self.prog = prog
        self.width = width
        self.depth = inline_depth
        self.syms = {}

    def sym(self, fn):
        s = self.syms.get(fn.id)
        if s is None:
            s = self.syms[fn.id] = Sym(fn)
        return s

    def children(self, fn, e, depth, ctx):
        """(label, child expr, fn context) of a node; inlines local callees"""
        k = e[0]
        if k in ("callat", "call"):
            name = e[2] if k == "callat" else e[1]
            args = e[3] if k == "callat" else e[2]
            res = e[4] if k == "callat" else e[3]
            tgt = self.prog.fns.get(res) if isinstance(res, str) else None
            if tgt is not None and depth < self.depth:
                ts = self.sym(tgt)
                outs = []
                for (bb, j, rv, whole) in tgt.defs().get(0, []):
                    r = ts.rvalue(rv, bb)
                    mapping = {("param", i + 1, tgt.local_name(i + 1)): a
                               for i, a in enumerate(args)}
                    outs.append(("inline:" + name, subst(r, mapping), tgt))
                if outs:
                    return [(l, c, t, depth + 1) for (l, c, t) in outs]
            if name in ADAPTORS_FIRST and args:
                return [(name, args[0], ctx, depth)]
            if name == "zip":
                return [(name, a, ctx, depth) for a in args[:2]]
            if name == "map" and len(args) == 2 and args[1][0] == "agg" and args[1][1] == "closure":
                from .validators import closure_return
                r = closure_return(self.prog, args[1][2], [args[0]], list(args[1][4]))
                cl = self.prog.fns.get(args[1][2])
                if r is not None and cl is not None:
                    return [("map-closure", r, cl, depth + 1)]
            return [(name, a, ctx, depth) for a in args]
        if k == "local":
            s = self.sym(ctx)
            outs = []
            for (bb, j, rv, whole) in s.defs.get(e[1], []):
                outs.append(("def", s.rvalue(rv, bb), ctx, depth))
            return outs
        if k in ("bin",):
            return [(e[1], e[2], ctx, depth), (e[1], e[3], ctx, depth)]
        if k in ("un", "cast"):
            return [(e[1], e[2], ctx, depth)]
        if k == "agg":
            return [("agg", a, ctx, depth) for a in e[4]]
        if k in ("field", "variant", "index", "proj", "ovf", "discr"):
            return [(k, e[1], ctx, depth)]
        return []

    def unsaturated(self, fn, root):
        """a path root -> arithmetic op that passes no saturating narrowing, or None"""
        seen = set()
        stack = [(root, fn, 0, [])]
        steps = 0
        while stack:
            e, ctx, depth, path = stack.pop()
            steps += 1
            if steps > 20000:
                return ["<analysis budget exceeded>"]
            if not isinstance(e, tuple) or not e:
                continue
            key = (id(ctx), e)
            try:
                if key in seen:
                    continue
                seen.add(key)
            except TypeError:
                pass
            k = e[0]
            if k in ("callat", "call"):
                name = e[2] if k == "callat" else e[1]
                args = e[3] if k == "callat" else e[2]
                if is_sat(name, args, self.width):
                    continue
                if LOADS.match(name):
                    continue       # a value loaded from memory is pixel data, not a computation
                if ARITH.search(name):
                    return path + [name]
            if k == "bin" and e[1] in ("Mul", "Add", "Sub", "Div", "Shl"):
                # scalar arithmetic (native code / remainders)
                return path + ["scalar %s" % e[1]]
            for (label, child, c2, d2) in self.children(ctx, e, depth, ctx):
                nm = None
                if k in ("callat", "call"):
                    nm = e[2] if k == "callat" else e[1]
                stack.append((child, c2, d2, path + ([nm] if nm else [])))
        return None


def store_sinks(fn):
    out = []
    for c in fn.calls():
        nm = short(c.name)
        if STORE_FNS.match(nm) and len(c.args) >= 2:
            out.append((c, 1))
    return out


def component_width(name):
    m = re.search(r"::(u8|u16|i32|f32)x?\d?::", name)
    if not m:
        m = re.search(r"vertical_(u8|u16|f32)", name)
    if not m:
        return None
    return {"u8": 8, "u16": 16}.get(m.group(1))
