"""Polynomial normal form of scalar (floating-point) geometry expressions.

A symbolic expression built from +, -, *, / by constants or by other expressions, and
value-preserving casts is rewritten as a polynomial  {monomial: coefficient}  over *atoms*
(parameters, unresolved locals, opaque calls such as floor/ceil/min/max with their arguments
normalised recursively, inverses `inv(p)` of non-constant divisors). Two expressions denote the
same real function iff their normal forms are equal (up to the opaque atoms), so a formula the
property states (the centre of a destination pixel, the nearest-neighbour index, the crop
margin) can be compared with the code *as a function*, independently of how the author
parenthesised or ordered it. A normal form that is a polynomial over the expected atoms but a
different one is a different function: a definite violation. Anything that does not normalise
is undecided. Nothing is evaluated on runtime values."""
from fractions import Fraction

from ..sym import fmt

ONE = ()


def _c(v):
    if isinstance(v, bool):
        return None
    if isinstance(v, int):
        return Fraction(v)
    if isinstance(v, float):
        if v != v or v in (float("inf"), float("-inf")):
            return None
        return Fraction(v)
    return None


def p_const(v):
    return {ONE: v} if v != 0 else {}


def p_atom(a):
    return {(a,): Fraction(1)}


def p_add(a, b, sign=1):
    out = dict(a)
    for m, c in b.items():
        out[m] = out.get(m, 0) + sign * c
        if out[m] == 0:
            del out[m]
    return out


def p_mul(a, b):
    out = {}
    for m1, c1 in a.items():
        for m2, c2 in b.items():
            m = tuple(sorted(m1 + m2, key=repr))
            m = _cancel(m)
            out[m] = out.get(m, 0) + c1 * c2
            if out[m] == 0:
                del out[m]
    return out


def _cancel(m):
    """x * inv({x: 1}) = 1 for single-atom inverses"""
    ms = list(m)
    changed = True
    while changed:
        changed = False
        for a in ms:
            if isinstance(a, tuple) and a and a[0] == "inv":
                p = dict(a[1])
                if len(p) == 1:
                    (mm, cc), = p.items()
                    if cc == 1 and len(mm) == 1 and mm[0] in ms:
                        ms.remove(a)
                        ms.remove(mm[0])
                        changed = True
                        break
    return tuple(ms)


def freeze(p):
    return tuple(sorted(p.items(), key=repr))


OPAQUE_CALLS = {"floor", "ceil", "round", "max", "min", "clamp", "abs", "sqrt", "trunc", "fract"}
TRANSPARENT_CALLS = {"into", "from", "clone", "deref", "to_owned"}
GETTERS = {"width", "height", "get", "len", "crop_box", "image_view", "left", "top"}


class Poly:
    def __init__(self, sym):
        self.sym = sym
        self.memo = {}
        self.failed = None

    def norm(self, e, depth=0):
        """polynomial dict, or None (self.failed says why)"""
        try:
            if e in self.memo:
                return self.memo[e]
        except TypeError:
            self.failed = "unhashable"
            return None
        r = self._norm(e, depth)
        self.memo[e] = r
        return r

    def _norm(self, e, depth):
        if depth > 80 or not isinstance(e, tuple) or not e:
            self.failed = "depth"
            return None
        k = e[0]
        if k == "const":
            c = _c(e[1])
            if c is None:
                self.failed = "constant %r" % (e[1],)
                return None
            return p_const(c)
        if k in ("param",):
            return p_atom(("v", e[2] or "_%d" % e[1]))
        if k == "local":
            return p_atom(("l", e[2] or "_%d" % e[1], e[1]))
        if k == "ovf":
            return self.norm(e[1], depth + 1)
        if k == "cast":
            if e[1] in ("IntToFloat", "FloatToFloat"):
                return self.norm(e[2], depth + 1)
            if e[1] == "IntToInt":
                return self.norm(e[2], depth + 1)      # widening in the geometry code
            if e[1] == "FloatToInt":
                inner = self.norm(e[2], depth + 1)
                if inner is None:
                    return None
                return p_atom(("trunc", freeze(inner)))
            self.failed = "cast %s" % e[1]
            return None
        if k == "un" and e[1] == "Neg":
            a = self.norm(e[2], depth + 1)
            return None if a is None else p_mul(p_const(Fraction(-1)), a)
        if k == "bin":
            op = e[1]
            a, b = self.norm(e[2], depth + 1), self.norm(e[3], depth + 1)
            if a is None or b is None:
                return None
            if op == "Add":
                return p_add(a, b)
            if op == "Sub":
                return p_add(a, b, -1)
            if op == "Mul":
                return p_mul(a, b)
            if op == "Div":
                if list(b.keys()) == [ONE]:
                    return p_mul(a, p_const(1 / b[ONE]))
                if not b:
                    self.failed = "division by zero constant"
                    return None
                return p_mul(a, p_atom(("inv", freeze(b))))
            self.failed = "operator %s" % op
            return None
        if k == "field":
            base = e[1]
            # loop variable: (next(iter) as Some).0
            if base[0] == "variant" and base[1][0] == "callat" and base[1][2] == "next":
                return p_atom(("iter", base[1][1], e[2]))
            inner = e[1]
            return p_atom(("f", fmt(inner)[:120], e[2]))
        if k in ("call", "callat"):
            name = e[1] if k == "call" else e[2]
            args = e[2] if k == "call" else e[3]
            if name in TRANSPARENT_CALLS and len(args) == 1:
                return self.norm(args[0], depth + 1)
            if name in OPAQUE_CALLS:
                ps = []
                for a in args:
                    p = self.norm(a, depth + 1)
                    if p is None:
                        return None
                    ps.append(freeze(p))
                if name in ("max", "min"):
                    ps = sorted(ps, key=repr)
                return p_atom((name,) + tuple(ps))
            return p_atom(("g", name, tuple(fmt(a)[:80] for a in args)))
        if k == "static":
            return p_atom(("s", e[1]))
        self.failed = "node %s" % k
        return None


def show(p):
    if p is None:
        return "?"
    if not p:
        return "0"
    out = []
    for m, c in sorted(p.items(), key=repr):
        ms = "*".join(_show_atom(a) for a in m)
        cs = str(c) if c.denominator != 1 else str(c.numerator)
        if not m:
            out.append(cs)
        elif c == 1:
            out.append(ms)
        else:
            out.append("%s*%s" % (cs, ms))
    return " + ".join(out)


def _show_atom(a):
    if a[0] in ("v", "l"):
        return a[1]
    if a[0] == "inv":
        return "1/(%s)" % show(dict(a[1]))
    if a[0] == "iter":
        return "i"
    if a[0] == "g":
        return "%s(%s)" % (a[1], ",".join(a[2]))
    if a[0] == "f":
        return "%s.%s" % (a[1], a[2])
    if a[0] in OPAQUE_CALLS or a[0] == "trunc":
        return "%s(%s)" % (a[0], ", ".join(show(dict(x)) for x in a[1:]))
    return str(a)


def atoms_of(p):
    out = set()
    for m in p:
        for a in m:
            out.add(a)
            if a[0] == "inv":
                out |= atoms_of(dict(a[1]))
    return out


def subst(p, mapping):
    """replace atoms by polynomials"""
    out = {}
    for m, c in p.items():
        term = p_const(c)
        for a in m:
            if a in mapping:
                term = p_mul(term, mapping[a])
            elif a[0] == "inv":
                inner = subst(dict(a[1]), mapping)
                if list(inner.keys()) == [ONE]:
                    term = p_mul(term, p_const(1 / inner[ONE]))
                else:
                    term = p_mul(term, p_atom(("inv", freeze(inner))))
            else:
                term = p_mul(term, p_atom(a))
        out = p_add(out, term)
    return out


def equal(a, b):
    return a is not None and b is not None and freeze(a) == freeze(b)


def map_atoms(p, fn):
    """rebuild polynomial p with every atom a replaced by fn(a) (a polynomial or None = keep);
    atoms nested inside opaque atoms / inverses are mapped too"""
    def map_atom(a):
        r = fn(a)
        if r is not None:
            return r
        if a[0] == "inv":
            inner = map_atoms(dict(a[1]), fn)
            if list(inner.keys()) == [ONE]:
                return p_const(1 / inner[ONE])
            return p_atom(("inv", freeze(inner)))
        if a[0] in OPAQUE_CALLS or a[0] == "trunc":
            args = []
            for x in a[1:]:
                args.append(freeze(map_atoms(dict(x), fn)))
            if a[0] in ("max", "min"):
                args = sorted(args, key=repr)
            return p_atom((a[0],) + tuple(args))
        return p_atom(a)
    out = {}
    for m, c in p.items():
        term = p_const(c)
        for a in m:
            term = p_mul(term, map_atom(a))
        out = p_add(out, term)
    return out


def leaf_atoms(p):
    """atoms at the leaves (through opaque atoms and inverses)"""
    out = set()
    for m in p:
        for a in m:
            if a[0] == "inv":
                out |= leaf_atoms(dict(a[1]))
            elif a[0] in OPAQUE_CALLS or a[0] == "trunc":
                for x in a[1:]:
                    out |= leaf_atoms(dict(x))
            else:
                out.add(a)
    return out


def opaque_names(p):
    """multiset (sorted list) of opaque function names used anywhere in p"""
    out = []
    for m in p:
        for a in m:
            if a[0] == "inv":
                out += opaque_names(dict(a[1]))
            elif a[0] in OPAQUE_CALLS or a[0] == "trunc":
                out.append(a[0])
                for x in a[1:]:
                    out += opaque_names(dict(x))
    return sorted(out)
