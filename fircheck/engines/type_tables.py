"""T-types: in PixelType-indexed dispatch tables the arm for variant V instantiates the pixel
type whose InnerPixel::pixel_type() returns V (read from the impl bodies, not from names)."""
from ..facts import CheckError
from ..sym import Sym, fmt
from .alpha_rules import pixel_type_of_impls
from .tables import enum_variants

TABLE_FNS = [
    "resizer::Resizer::resize",
    "mul_div::MulDiv::multiply_alpha", "mul_div::MulDiv::multiply_alpha_inplace",
    "mul_div::MulDiv::divide_alpha", "mul_div::MulDiv::divide_alpha_inplace",
    "change_components_type::change_type_of_pixel_components",
    "color::PixelComponentMapper::map", "color::PixelComponentMapper::map_inplace",
]


def t_types(rep, prog, rule):
    rep.rule(rule, "in every PixelType-indexed table (resize, the four MulDiv entry points, "
             "change_type_of_pixel_components, PixelComponentMapper::map{,_inplace}) a call made "
             "under `pixel_type == V` instantiates the pixel type T with T::pixel_type() == V "
             "(source variant for the first type argument, destination variant for the second)")
    variants = enum_variants(prog, "pixels::PixelType")
    pt = pixel_type_of_impls(prog)
    if not variants or len(pt) < 13:
        raise CheckError("PixelType variants / InnerPixel impls not found")
    n = 0
    for name in TABLE_FNS:
        f = prog.fn_by_name(name)
        rep.touch(f)
        sym = Sym(f)
        for c in f.calls():
            targs = [t for t in c.targs() if t in pt]
            if not targs:
                continue
            facts = [(cond, val) for cond, val in sym.facts_at(c.bb)
                     if cond[0] == "discr" and isinstance(val, int) and not isinstance(val, bool)]
            # discriminants of PixelType values only
            roles = {}
            for cond, val in facts:
                s = fmt(cond)
                if "pixel_type" not in s:
                    continue
                role = "dst" if "dst" in s else ("src" if "src" in s else "single")
                roles[role] = variants.get(val)
            if not roles:
                continue
            n += 1
            key = "%s|%s" % (name, ",".join(t.replace("pixels::Pixel", "P") for t in targs))
            want = []
            if "single" in roles:
                want = [roles["single"]] * len(targs)
            else:
                want = [roles.get("src"), roles.get("dst")][:len(targs)]
                if len(targs) == 1:
                    want = [roles.get("src") or roles.get("dst")]
            got = [pt[t] for t in targs]
            if all(w is None or w == g for w, g in zip(want, got)):
                rep.ok(rule, key, c.at, "%s under %s" % (got, roles))
            else:
                rep.bad(rule, key, c.at, "%s: the arm for pixel type %s instantiates %s (whose "
                        "pixel_type() is %s)" % (name, want, targs, got))
    rep.floor(rule, "typed instantiations in PixelType tables", n, 60)
