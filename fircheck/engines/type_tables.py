"""T-types: in PixelType-indexed dispatch tables the arm for variant V instantiates the pixel
type whose InnerPixel::pixel_type() returns V (read from the impl bodies, not from names)."""
from ..facts import CheckError
from ..sym import Sym, fmt
from .alpha_rules import pixel_type_of_impls
from .tables import enum_variants

TABLE_FNS = [
    "resizer::Resizer::resize",
    "mul_div::MulDiv::multiply_alpha", "mul_div::MulDiv::multiply_alpha_inplace",
    "mul_div::MulDiv::divide_alpha", "mul_div::MulDiv::divide_alpha_inplace",
    "change_components_type::change_type_of_pixel_components",
    "color::PixelComponentMapper::map", "color::PixelComponentMapper::map_inplace",
]


def _pixel_type_subject(prog, f, x):
    """is x a value of type PixelType (a local / parameter of that type, a field of that type,
    the result of a `pixel_type()` getter or of a crate-local function returning it)?"""
    from .dispatch_rules import _expr_ty
    while isinstance(x, tuple) and x and x[0] in ("ref", "deref"):
        x = x[1]
    if not isinstance(x, tuple) or not x:
        return False
    if x[0] in ("call", "callat"):
        nm = x[1] if x[0] == "call" else x[2]
        if nm in ("pixel_type", "try_pixel_type"):
            return nm == "pixel_type"
    t = _expr_ty(prog, f, x)
    if t is None:
        return False
    import re as _re
    return _re.sub(r"^(&(?:'\\w+ )?(?:mut )?)+", "", t.strip()).endswith("PixelType")


def t_types(rep, prog, rule):
    rep.rule(rule, "in every PixelType-indexed table (resize, the four MulDiv entry points, "
             "change_type_of_pixel_components, PixelComponentMapper::map{,_inplace}) a call made "
             "under `pixel_type == V` instantiates the pixel type T with T::pixel_type() == V "
             "(source variant for the first type argument, destination variant for the second)")
    variants = enum_variants(prog, "pixels::PixelType")
    pt = pixel_type_of_impls(prog)
    if not variants or len(pt) < 13:
        raise CheckError("PixelType variants / InnerPixel impls not found")
    n = 0
    majority = {}          # table function -> callee id most of its arms call
    deviants = []
    for name in TABLE_FNS:
        f = prog.fn_by_name(name)
        rep.touch(f)
        sym = Sym(f)
        arms = []
        for c in f.calls():
            targs = [t for t in c.targs() if t in pt]
            if not targs:
                continue
            facts = [(cond, val) for cond, val in sym.facts_at(c.bb)
                     if cond[0] == "discr" and isinstance(val, int) and not isinstance(val, bool)]
            # discriminants of PixelType values only
            roles = {}
            for cond, val in facts:
                s = fmt(cond)
                if "pixel_type" not in s:
                    continue
                if not _pixel_type_subject(prog, f, cond[1]):
                    continue        # e.g. the Ok / Err discriminant of a validator's result
                if "dst" in s and "src" in s:
                    continue        # which of the two images the value belongs to is not told
                role = "dst" if "dst" in s else ("src" if "src" in s else "single")
                roles[role] = variants.get(val)
            if not roles:
                continue
            n += 1
            arms.append((tuple(sorted(roles.items())), c))
            key = "%s|%s" % (name, ",".join(t.replace("pixels::Pixel", "P") for t in targs))
            want = []
            if "single" in roles:
                want = [roles["single"]] * len(targs)
            else:
                want = [roles.get("src"), roles.get("dst")][:len(targs)]
                if len(targs) == 1:
                    want = [roles.get("src") or roles.get("dst")]
            got = [pt[t] for t in targs]
            if all(w is None or w == g for w, g in zip(want, got)):
                rep.ok(rule, key, c.at, "%s under %s" % (got, roles))
            else:
                rep.bad(rule, key, c.at, "%s: the arm for pixel type %s instantiates %s (whose "
                        "pixel_type() is %s)" % (name, want, targs, got))
        # all arms of one table do the same thing: each arm makes the same set of generic calls and
        # the arms differ in the type arguments only (an arm of divide_alpha_inplace that calls the
        # multiply helper type-checks -- the helpers have one signature)
        per_arm = {}
        for armkey, c in arms:
            per_arm.setdefault(armkey, []).append(c)
        sets = {}
        for armkey, cs in per_arm.items():
            sets.setdefault(frozenset(c.id for c in cs), []).append(armkey)
        if sets:
            top_set = max(sets, key=lambda k: len(sets[k]))
            top_calls = [c for c in per_arm[sets[top_set][0]]]
            # the callee that carries the operation: the crate-local one (not a view getter)
            main = [c for c in top_calls if prog.call_targets(c) and not (c.method or "").startswith("image_view")]
            majority[name] = {c.id for c in (main or top_calls)}
            for cset, armkeys in sets.items():
                if cset == top_set:
                    continue
                for armkey in armkeys:
                    for c in per_arm[armkey]:
                        if c.id not in top_set:
                            deviants.append((name, c, len(armkeys), [x for x in top_calls if x.id not in cset] or top_calls,
                                             len(sets[top_set])))
            if len(sets) == 1:
                rep.ok(rule, "%s|callee" % name, f.loc, "all %d arms make the same %d generic call(s)" % (
                    len(per_arm), len(top_set)))
    for (name, c, k, top, ntop) in deviants:
        k2 = "%s|%s|callee" % (name, ",".join(t.replace("pixels::Pixel", "P") for t in c.targs() if t in pt))
        other = [t for t, ids in majority.items() if c.id in ids and t != name]
        if other and k * 2 < ntop:
            rep.bad(rule, k2, c.at, "%s: this arm calls %s -- the function the arms of %s call -- while the "
                    "other %d arms call %s: the dynamic entry point does another operation for this "
                    "pixel type than the typed one" % (name, c.name, other[0], ntop, top[0].name))
        else:
            rep.unk(rule, k2, c.at, "this arm calls %s, most arms call %s (a specialised routine for one "
                    "pixel type?)" % (c.name, top[0].name))
    rep.floor(rule, "typed instantiations in PixelType tables", n, 60)


def clip_table(rep, prog, rule):
    """contents of the compile-time lookup table of Normalizer16::clip"""
    from ..sym import Sym, fmt
    rep.rule(rule, "the lookup table behind Normalizer16::clip (a compile-time constant, read from "
             "the compiled program, not computed here) holds clamp(i - OFFSET, 0, 255) for every "
             "index i, and OFFSET is the constant that Normalizer16::clip adds to the shifted "
             "accumulator before the lookup; the index is clamped to the table")
    st = None
    for k, v in prog.statics.items():
        if k.endswith("CLIP8_LOOKUPS"):
            st = v
    f = prog.fn_by_name("convolution::optimisations::Normalizer16::clip")
    rep.touch(f)
    if st is None or "values" not in st:
        rep.unk(rule, "table", f.loc, "table values not exported")
        return
    vals = st["values"]
    sym = Sym(f)
    off = None
    hi = None
    for c in f.calls():
        if (c.method or "").startswith("saturating_add") or c.name.endswith("saturating_add"):
            e = sym.operand(c.args[1], (c.bb, "term"))
            if e[0] == "const":
                off = e[1]
        if (c.method or "") == "clamp" or c.name.endswith("::clamp"):
            e = sym.operand(c.args[2], (c.bb, "term"))
            if e[0] == "const":
                hi = e[1]
    if off is None:
        rep.unk(rule, "offset", f.loc, "offset added before the lookup not found")
        return
    wrong = [i for i, v in enumerate(vals) if v != min(max(i - off, 0), 255)]
    if wrong:
        i = wrong[0]
        rep.bad(rule, "table|content", f.loc, "CLIP8_LOOKUPS[%d] = %d but clip adds %d before the "
                "lookup, so the entry must be clamp(%d - %d, 0, 255) = %d (%d entries differ)" % (
                    i, vals[i], off, i, off, min(max(i - off, 0), 255), len(wrong)))
    else:
        rep.ok(rule, "table|content", f.loc, "%d entries equal clamp(i - %d, 0, 255)" % (len(vals), off))
    if hi is None:
        rep.unk(rule, "table|index", f.loc, "upper clamp of the index not found")
    elif hi <= len(vals) - 1:
        rep.ok(rule, "table|index", f.loc, "index clamped to [0, %d], table has %d entries" % (hi, len(vals)))
    else:
        rep.bad(rule, "table|index", f.loc, "index clamped to %d but the table has %d entries" % (hi, len(vals)))


def recip_table(rep, prog, rule):
    rep.rule(rule, "the reciprocal table of the portable 8-bit alpha division (a compile-time "
             "constant read from the compiled program) holds 0 for a = 0 (alpha 0 gives colour 0) and, for "
             "a = 1..255, a value within 1/2 of 255 * 2^PRECISION / a (PRECISION = the shift that "
             "div_and_clip applies): with that error budget c * entry >> PRECISION, rounded, is one "
             "of the two neighbours of c * 255 / a for every colour c")
    st = prec = None
    for k, v in prog.statics.items():
        if k.endswith("::RECIP_ALPHA"):
            st = v
        if k.endswith("::PRECISION") and "alpha" in k:
            prec = v.get("value")
    f = prog.fn_by_name("alpha::common::div_and_clip")
    rep.touch(f)
    if st is None or "values" not in st or not isinstance(prec, int):
        rep.unk(rule, "table", f.loc, "table values / precision not exported")
        return
    vals = st["values"]
    from fractions import Fraction
    if vals[0] != 0:
        rep.bad(rule, "table|zero", f.loc, "RECIP_ALPHA[0] = %d: with alpha 0 the colour becomes "
                "(c * %d + round) >> %d, not 0" % (vals[0], vals[0], prec))
    else:
        rep.ok(rule, "table|zero", f.loc, "entry 0 is 0: alpha 0 gives colour 0")
    worst = (Fraction(0), 0)
    for a, v in enumerate(vals):
        if a == 0:
            continue
        d = abs(Fraction(v) - Fraction(255 * (1 << prec), a))
        if d > worst[0]:
            worst = (d, a)
    if worst[0] <= Fraction(1, 2):
        rep.ok(rule, "table|content", f.loc, "every entry is within 1/2 of 255 * 2^%d / a: the "
               "quotient c * entry >> %d stays within the two neighbours of c * 255 / a" % (prec, prec))
    else:
        rep.unk(rule, "table|content", f.loc, "RECIP_ALPHA[%d] deviates by %s from 255 * 2^%d / a: "
                "outside the error budget (1/2) that guarantees a neighbouring integer for every "
                "colour" % (worst[1], float(worst[0]), prec))


def recip_table16(rep, prog, rule):
    import re
    rep.rule(rule, "the reciprocal table of the portable 16-bit alpha division (compile-time contents) holds "
             "0 for a = 0 and its entries are precise enough: the quotient error a * |entry - 65535 * 2^P / a| "
             "/ 2^P (P = PRECISION16, the shift of div_and_clip16; colours c <= a matter, larger ones "
             "saturate) stays below 1/2 for every a, so the rounded result is one of the two integers next to "
             "c * 65535 / a; otherwise pairs (c, a) are searched, on the table contents and the "
             "round-shift-clip form of div_and_clip16, whose result is neither neighbour: such a pair is "
             "the violation (a table with too few fractional bits: entries correctly rounded, precision "
             "too small for 16-bit colours)")
    st = prec = rc = None
    for k, v in prog.statics.items():
        if k.endswith("::RECIP_ALPHA16"):
            st = v
        if k.endswith("::PRECISION16"):
            prec = v.get("value")
        if k.endswith("::ROUND_CORRECTION16"):
            rc = v.get("value")
    fs = [f for f in prog.fns.values() if f.name == "alpha::common::div_and_clip16"] or \
        prog._by_tail("div_and_clip16")
    if len(fs) != 1:
        rep.unk(rule, "table16|anchor", "", "div_and_clip16 not found")
        return
    f = fs[0]
    rep.touch(f)
    if st is None or "values" not in st or not isinstance(prec, int) or not isinstance(rc, int):
        rep.unk(rule, "table16", f.loc, "table values / precision / rounding constant not exported")
        return
    vals = st["values"]
    if vals[0] != 0:
        rep.bad(rule, "table16|zero", f.loc, "RECIP_ALPHA16[0] = %d: alpha 0 does not give colour 0" % vals[0])
    else:
        rep.ok(rule, "table16|zero", f.loc, "entry 0 is 0: alpha 0 gives colour 0")
    # shape of div_and_clip16: (v * recip + ROUND) >> PRECISION16, clipped at 0xffff
    sym = Sym(f)
    ds = [d for d in sym.defs.get(0, []) if d[3]]
    shape = " ".join(fmt(sym.rvalue(d[2], d[0], (d[0], d[1]))) for d in ds)
    shape_ok = ("Shr" in shape) and ("65535" in shape) and ("min" in shape) and \
        re.search(r"(Mul|saturating_mul)", shape) is not None and rc == (1 << (prec - 1))
    scale = 1 << prec
    worst = []
    for a in range(1, len(vals)):
        worst.append((abs(vals[a] * a - 65535 * scale), a))
    worst.sort(reverse=True)
    top = worst[0]
    # error in the quotient for c = a:  num / 2^P
    if 2 * top[0] < scale:
        rep.ok(rule, "table16|content", f.loc, "largest quotient error %.3g (a = %d) < 1/2 with %d fractional bits"
               % (top[0] / scale, top[1], prec))
        return
    if not shape_ok:
        rep.unk(rule, "table16|content", f.loc, "quotient error up to %.3g (a = %d), and the form of "
                "div_and_clip16 is not the recognised round-shift-clip" % (top[0] / scale, top[1]))
        return
    for num, a in worst[:60]:
        for c in range(max(1, a - 400), a + 1):
            r = min((c * vals[a] + rc) >> prec, 65535)
            qf = (c * 65535) // a
            qc = -((-c * 65535) // a)
            if r != min(qf, 65535) and r != min(qc, 65535):
                rep.bad(rule, "table16|precision", f.loc,
                        "RECIP_ALPHA16 has %d fractional bits: colour %d / alpha %d gives (%d * %d + %d) >> %d = "
                        "%d, but %d * 65535 / %d = %.4f allows only %d or %d (quotient error up to %.3g)"
                        % (prec, c, a, c, vals[a], rc, prec, r, c, a, c * 65535 / a, qf, qc, top[0] / scale))
                return
    rep.unk(rule, "table16|content", f.loc, "quotient error up to %.3g (a = %d) exceeds 1/2 but no colour "
            "with a wrong result was found near the worst alphas" % (top[0] / scale, top[1]))


def align_table(rep, prog, rule):
    """C04: the alignment a byte buffer must have for each pixel type."""
    import re
    from .tables import Switch, enum_variants
    from .loadwidth import type_size, PRIM_SIZE
    rep.rule(rule, "PixelType::is_aligned demands for every pixel type exactly the alignment of that "
             "type's component (U8* 1, U16* 2, I32 / F32* 4): per arm of its switch on the pixel type the "
             "demanded alignment is read from the type argument of align_to / align_of (or `true` = 1); a "
             "smaller one lets a misaligned buffer through validation (the typed accessors then fail "
             "or panic), a larger one rejects valid buffers")
    fs = [f for f in prog.fns.values() if f.name == "pixels::PixelType::is_aligned"]
    if len(fs) != 1:
        rep.unk(rule, "is_aligned|anchor", "", "%d functions named PixelType::is_aligned" % len(fs))
        return
    f = fs[0]
    rep.touch(f)
    variants = enum_variants(prog, "pixels::PixelType")
    sw_bb = None
    for b, blk in enumerate(f.blocks):
        t = blk["t"]
        if not blk["c"] and t and t[0] == "sw" and t[4] != "bool":
            sw_bb = b
            break
    if sw_bb is None or not variants:
        rep.unk(rule, "is_aligned|switch", f.loc, "no switch on the pixel type")
        return
    sw = Switch(f, sw_bb)

    def comp_align(ty):
        ty = ty.strip()
        if ty in PRIM_SIZE:
            return PRIM_SIZE[ty]
        m = re.match(r"^pixels::Pixel<(.+), (\w+), (\d+)>$", ty)
        if m:
            return PRIM_SIZE.get(m.group(2))
        return None
    arm_of = {v: b for v, b in sw.arms}
    n = 0
    for discr, vname in sorted(variants.items()):
        n += 1
        want = {"U8": 1, "U16": 2, "I32": 4, "F32": 4}.get(re.match(r"^(U8|U16|I32|F32)", vname).group(1)
                                                            if re.match(r"^(U8|U16|I32|F32)", vname) else "")
        target = arm_of.get(discr, sw.otherwise)
        blocks = sw.arm_blocks(target) if list(arm_of.values()).count(target) + (target == sw.otherwise) == 1 \
            else {target}
        got = None
        for c in f.calls():
            if c.bb not in blocks and c.bb != target:
                continue
            nm = c.method or c.name.rsplit("::", 1)[-1]
            if nm in ("align_to", "align_to_mut", "align_of"):
                ts = [a[1] for a in c.callee.get("args", []) if a and a[0] == "t"]
                t_ = ts[-1] if ts else None
                got = comp_align(t_) if t_ else None
                break
        if got is None:
            # `true` for this arm
            for b in ({target} | blocks):
                for st in f.blocks[b]["s"]:
                    if st[0] == "a" and st[1] == [0] and st[2][0] == "use" and st[2][1][0] == "k" \
                            and st[2][1][-1] in (True, 1, ["b", True], "true"):
                        got = 1
        key = "is_aligned|%s" % vname
        if want is None:
            rep.unk(rule, key, f.loc, "component of %s not known" % vname)
        elif got is None:
            rep.unk(rule, key, f.loc, "alignment demanded for %s not recognised" % vname)
        elif got == want:
            rep.ok(rule, key, f.loc, "%s: alignment %d" % (vname, got))
        elif got < want:
            rep.bad(rule, key + "|too-weak", f.loc,
                    "PixelType::is_aligned demands alignment %d for %s, whose components need %d: a "
                    "misaligned buffer passes ImageRef::new / Image::from_slice_u8 / from_vec_u8 and the "
                    "typed accessors fail later" % (got, vname, want))
        else:
            rep.bad(rule, key + "|too-strict", f.loc,
                    "PixelType::is_aligned demands alignment %d for %s, whose components need %d: valid "
                    "buffers are rejected" % (got, vname, want))
    rep.floor(rule, "pixel types", n, 13)
