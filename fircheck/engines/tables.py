"""E1 — dispatch tables and sibling agreement (DESIGN §3/E1)."""
import re

from ..cfg import reachable_from
from ..sym import Sym, fmt

BACKEND_OF_VARIANT = {"Avx2": "avx2", "Sse4_1": "sse4", "Neon": "neon", "Simd128": "wasm32",
                      "None": "native"}
BACKENDS = set(BACKEND_OF_VARIANT.values())
FEATURES_OF_VARIANT = {
    "Avx2": {"avx2", "sse4.1", "avx", "sse4.2", "ssse3", "sse3", "sse2", "sse", "fma"} - {"fma"},
    "Sse4_1": {"sse4.1", "ssse3", "sse3", "sse2", "sse"},
    "Neon": {"neon"},
    "Simd128": {"simd128"},
    "None": set(),
}


def enum_variants(prog, suffix):
    v = [a for k, a in prog.adts.items() if k.endswith(suffix)]
    if len(v) != 1:
        return None
    return {x["discr"]: x["name"] for x in v[0]["variants"]}


def _split_top(s):
    out, depth, cur = [], 0, ""
    for ch in s:
        if ch in "<([":
            depth += 1
        elif ch in ">)]":
            depth -= 1
        if ch == "," and depth == 0:
            out.append(cur.strip())
            cur = ""
        else:
            cur += ch
    if cur.strip():
        out.append(cur.strip())
    return out


def place_ty(prog, fn, place):
    """type string of a place (tuple and struct fields, derefs); None when not resolvable"""
    ty = fn.local_ty(place[0])
    for p in place[1:]:
        if ty is None:
            return None
        ty = ty.strip()
        if p == "*":
            m = re.match(r"^&(?:'\w+ )?(?:mut )?(.*)$", ty)
            if not m:
                return None
            ty = m.group(1)
        elif isinstance(p, list) and p[0] == "f":
            if ty.startswith("(") and ty.endswith(")"):
                parts = _split_top(ty[1:-1])
                ty = parts[p[1]] if p[1] < len(parts) else None
            else:
                base = re.sub(r"<.*$", "", ty)
                cands = [a for k, a in prog.adts.items()
                         if a["name"] == base or k.endswith("::" + base)]
                if len(cands) != 1 or len(cands[0]["variants"]) != 1:
                    return None
                fields = cands[0]["variants"][0]["fields"]
                ty = fields[p[1]][1] if p[1] < len(fields) else None
        else:
            return None
    return ty


class Switch:
    """a SwitchInt with, per arm, the blocks only that arm reaches"""

    def __init__(self, fn, bb):
        self.fn = fn
        self.bb = bb
        t = fn.term(bb)
        self.term = t
        self.arms = [(v, b) for v, b in t[2]]
        self.otherwise = t[3]
        targets = [b for _, b in self.arms] + [self.otherwise]
        # the switch block itself is a barrier, so that a switch inside a loop still has
        # per-arm regions (everything after the join is common to all arms)
        reach = {b: reachable_from(fn, b, blocked={bb}) for b in set(targets)}
        self.reach = reach
        common = None
        for b in set(targets):
            # blocks that end in unreachable/panic have no common join; ignore empty tails
            common = reach[b] if common is None else (common & reach[b])
        self.common = common or set()

    def arm_blocks(self, target):
        others = set()
        for b in self.reach:
            if b != target:
                others |= self.reach[b]
        return self.reach[target] - others

    def arm_calls(self, target):
        blocks = self.arm_blocks(target)
        return [c for c in self.fn.calls() if c.bb in blocks]


def cpu_dispatchers(prog):
    """functions that switch on the discriminant of a CpuExtensions value"""
    out = []
    for f in sorted(prog.fns.values(), key=lambda f: f.id):
        if f.name.startswith("cpu_extensions::") or "as std::fmt::Debug" in f.name:
            continue
        sym = None
        for b, blk in enumerate(f.blocks):
            t = blk["t"]
            if blk["c"] or t[0] != "sw":
                continue
            sym = sym or Sym(f)
            e = sym.operand(t[1])
            if e[0] == "discr":
                base = t[1]
                # type of the scrutinee
                for (bb, j, rv, w) in f.defs().get(t[1][1][0], []):
                    if rv[0] != "discr":
                        continue
                    pty = place_ty(prog, f, rv[1])
                    if pty is None:
                        pty = f.local_ty(rv[1][0])
                    if re.sub(r"^&(?:mut )?", "", pty.strip()).endswith("CpuExtensions"):
                        out.append(Switch(f, b))
    return out


def module_backend(fn_name):
    """the back-end module segment of a def path, e.g. convolution::u8x4::sse4::x -> sse4"""
    segs = re.sub(r"<[^>]*>", "", fn_name).split("::")
    for s in reversed(segs[:-1]):
        if s in BACKENDS:
            return s
    return None


def module_dir(fn_name):
    segs = re.sub(r"<[^>]*>", "", fn_name).split("::")
    for i, s in enumerate(segs):
        if s in BACKENDS:
            return "::".join(segs[:i])
    return "::".join(segs[:-1])


def transitive_features(prog, start_fns, stop_ids):
    """target features of all local functions reachable from start_fns without entering a
    function in stop_ids (other dispatchers); returns dict feature -> witness path"""
    seen = {}
    work = [(f, [f.name]) for f in start_fns]
    feats = {}
    while work:
        f, path = work.pop()
        if f.id in seen:
            continue
        seen[f.id] = True
        for feat in f.tf:
            feats.setdefault(feat, path)
        for c in f.calls():
            ext_tf = c.callee.get("tf")
            if ext_tf:
                for feat in ext_tf:
                    feats.setdefault(feat, path + [c.name])
            for t in prog.call_targets(c):
                if t.id in stop_ids or t.id in seen:
                    continue
                work.append((t, path + [t.name]))
        for cl in f.closures():
            if cl.id not in seen:
                work.append((cl, path + [cl.name]))
    return feats
