"""Integer intervals over Sym expressions (part of E3). No widening magic: loop-carried
locals evaluate to the union of their definitions when every definition is evaluable without
referring to the local itself, otherwise to the range of their type."""
import math

INT_RANGES = {
    "u8": (0, 2**8 - 1), "u16": (0, 2**16 - 1), "u32": (0, 2**32 - 1), "u64": (0, 2**64 - 1),
    "u128": (0, 2**128 - 1), "i8": (-2**7, 2**7 - 1), "i16": (-2**15, 2**15 - 1),
    "i32": (-2**31, 2**31 - 1), "i64": (-2**63, 2**63 - 1), "i128": (-2**127, 2**127 - 1),
    "bool": (0, 1),
}


def type_range(ty, ptr_bits=64):
    if ty == "usize":
        return (0, 2**ptr_bits - 1)
    if ty == "isize":
        return (-2**(ptr_bits - 1), 2**(ptr_bits - 1) - 1)
    return INT_RANGES.get(ty)


class Intervals:
    def __init__(self, sym, ptr_bits=64, prog=None):
        self.sym = sym
        self.fn = sym.fn
        self.ptr_bits = ptr_bits
        self.prog = prog
        self._busy = set()

    def tr(self, ty):
        return type_range(ty, self.ptr_bits)

    def local_interval(self, l):
        """union over all definitions of an unstable local"""
        ty = self.fn.local_ty(l)
        full = self.tr(ty)
        if l in self._busy:
            return None          # self-reference: caller decides
        self._busy.add(l)
        try:
            defs = self.sym.defs.get(l, [])
            if not defs or (1 <= l <= self.fn.arg_count):
                return full
            lo = hi = None
            for (bb, j, rv, whole) in defs:
                if not whole:
                    return full
                e = self.sym.rvalue(rv, bb)
                iv = self.eval(e)
                if iv is None:
                    return full
                lo = iv[0] if lo is None else min(lo, iv[0])
                hi = iv[1] if hi is None else max(hi, iv[1])
            return (lo, hi)
        finally:
            self._busy.discard(l)

    def iter_elem(self, e):
        """interval of the items of an iterator expression (for x in a..b)"""
        seen = 0
        while seen < 12:
            seen += 1
            k = e[0]
            if k == "local":
                defs = self.sym.defs.get(e[1], [])
                whole = [d for d in defs if d[3]]
                if len(whole) != 1:
                    return None
                e = self.sym.rvalue(whole[0][2], whole[0][0])
                continue
            if k in ("callat", "call") and e[2 if k == "callat" else 1] in (
                    "into_iter", "iter", "rev", "by_ref", "copied", "cloned"):
                args = e[3] if k == "callat" else e[2]
                e = args[0]
                continue
            if k == "agg" and e[1] == "adt" and e[2].endswith("ops::range::Range") and len(e[4]) == 2:
                a, b = self.eval(e[4][0]), self.eval(e[4][1])
                if a is None or b is None:
                    return None
                return (a[0], b[1] - 1)
            if k == "agg" and e[1] == "adt" and e[2].endswith("RangeInclusive"):
                return None
            return None
        return None

    def eval(self, e):
        if not isinstance(e, tuple) or not e:
            return None
        k = e[0]
        if k == "const":
            v = e[1]
            if isinstance(v, bool):
                return (int(v), int(v))
            if isinstance(v, int):
                return (v, v)
            return None
        if k == "param":
            return self.tr(self.fn.local_ty(e[1]))
        if k == "static" and self.prog is not None:
            st = self.prog.statics.get(e[1])
            v = st.get("value") if st else None
            if isinstance(v, int) and not isinstance(v, bool):
                return (v, v)
            return None
        if k == "local":
            return self.local_interval(e[1])
        if k == "ovf":
            return self.eval(e[1])
        if k == "cast":
            inner = self.eval(e[2])
            tr = self.tr(e[3])
            if e[1] == "IntToInt":
                if inner is not None and tr is not None and tr[0] <= inner[0] and inner[1] <= tr[1]:
                    return inner
                return tr
            if e[1] == "FloatToInt":
                return tr
            return tr
        if k == "field":
            # element of a `for` loop: (next(iter) as Some).0
            b = e[1]
            if b[0] == "variant" and b[2] == "Some" and b[1][0] in ("callat",) and b[1][2] == "next":
                it = b[1][3][0] if b[1][3] else None
                if it is not None:
                    r = self.iter_elem(it)
                    if r is not None:
                        return r
            return None
        if k == "call":
            name, args = e[1], e[2]
            ivs = [self.eval(a) for a in args]
            if name in ("min",) and len(ivs) == 2:
                a, b = ivs
                if a and b:
                    return (min(a[0], b[0]), min(a[1], b[1]))
                if a:
                    return (None, a[1]) if False else None
                return None
            if name in ("max",) and len(ivs) == 2:
                a, b = ivs
                if a and b:
                    return (max(a[0], b[0]), max(a[1], b[1]))
                return None
            if name == "clamp" and len(ivs) == 3 and ivs[1] and ivs[2]:
                return (ivs[1][0], ivs[2][1])
            if name == "get" and len(args) == 1:     # NonZeroU32::get
                return (1, 2**32 - 1)
            return None
        if k == "bin":
            op = e[1]
            a, b = self.eval(e[2]), self.eval(e[3])
            if a is None or b is None:
                if op == "BitAnd":
                    for x in (a, b):
                        if x is not None and x[0] >= 0:
                            return (0, x[1])
                if op == "Rem" and b is not None and b[0] > 0:
                    return (0, b[1] - 1)
                return None
            if op == "Add":
                return (a[0] + b[0], a[1] + b[1])
            if op == "Sub":
                return (a[0] - b[1], a[1] - b[0])
            if op == "Mul":
                c = [a[0] * b[0], a[0] * b[1], a[1] * b[0], a[1] * b[1]]
                return (min(c), max(c))
            if op == "Div":
                if b[0] > 0 and a[0] >= 0:
                    return (a[0] // b[1], a[1] // b[0])
                return None
            if op == "Rem":
                if b[0] > 0 and a[0] >= 0:
                    return (0, min(a[1], b[1] - 1))
                return None
            if op == "BitAnd":
                if a[0] >= 0 and b[0] >= 0:
                    return (0, min(a[1], b[1]))
                if b[0] >= 0:
                    return (0, b[1])
                if a[0] >= 0:
                    return (0, a[1])
                return None
            if op == "Shl":
                if a[0] >= 0 and 0 <= b[0] and b[1] < 128:
                    return (a[0] << b[0], a[1] << b[1])
                return None
            if op == "Shr":
                if a[0] >= 0 and 0 <= b[0] and b[1] < 128:
                    return (a[0] >> b[1], a[1] >> b[0])
                return None
            if op in ("Eq", "Ne", "Lt", "Le", "Gt", "Ge"):
                return (0, 1)
            return None
        return None
