"""Rules T-dispatch, T-feature, T-precision over the E1 tables."""
import re

from ..facts import CheckError
from ..sym import Sym, fmt
from .intervals import Intervals
from .tables import (BACKEND_OF_VARIANT, Switch, cpu_dispatchers, enum_variants, module_backend,
                     module_dir, transitive_features)

IMPLIED = {
    "avx2": ["avx"], "avx": ["sse4.2"], "sse4.2": ["sse4.1"], "sse4.1": ["ssse3"],
    "ssse3": ["sse3"], "sse3": ["sse2"], "sse2": ["sse"], "fma": ["avx"],
}
FEATURE_OF_VARIANT = {"Avx2": ["avx2"], "Sse4_1": ["sse4.1"], "Neon": ["neon"],
                      "Simd128": ["simd128"], "None": []}

DISPATCHER_FLOOR = {"x86": 39, "x86-rayon": 39, "arm": 26, "arm-rayon": 26, "wasm": 26}


def closure_of(feats):
    out = set()
    work = list(feats)
    while work:
        f = work.pop()
        if f in out:
            continue
        out.add(f)
        work.extend(IMPLIED.get(f, []))
    return out


def _last(name):
    return name.rsplit("::", 1)[-1]


def _dispatch_table(prog):
    variants = enum_variants(prog, "cpu_extensions::CpuExtensions")
    if not variants:
        raise CheckError("enum CpuExtensions not found")
    table = []
    for sw in cpu_dispatchers(prog):
        arms = []
        for v, tgt in sw.arms:
            arms.append((variants.get(v, "?%s" % v), tgt))
        arms.append(("None", sw.otherwise))
        table.append((sw, arms))
    return variants, table


def t_dispatch(rep, prog, rule):
    rep.rule(rule, "in every function that switches on CpuExtensions each arm calls the kernel "
             "in the back-end module of the matched variant (Avx2->avx2, Sse4_1->sse4, "
             "Neon->neon, Simd128->wasm32, otherwise native) with the arguments the native arm "
             "passes; a SIMD kernel is never shared by dispatchers whose native kernels differ, "
             "nor named like another operation's native kernel")
    variants, table = _dispatch_table(prog)
    rep.floor(rule, "CpuExtensions dispatchers", len(table), DISPATCHER_FLOOR.get(rep.cfg, 39))
    # (simd target id) -> set of (native target id, dispatcher)
    shared = {}
    natives_by_dir = {}
    rows = []
    for sw, arms in table:
        f = sw.fn
        rep.touch(f)
        sym = Sym(f)
        ddir = module_dir(f.name)
        per_arm = {}
        for vname, tgt in arms:
            calls = [c for c in sw.arm_calls(tgt) if prog.call_targets(c)]
            per_arm[vname] = calls
        native_calls = per_arm.get("None", [])
        native_t = [prog.call_targets(c)[0] for c in native_calls]
        native_args = [tuple(sym.operand(a) for a in c.args) for c in native_calls]
        if len(native_calls) != 1:
            rep.unk(rule, "%s|native-arm" % f.name, f.loc,
                    "native arm has %d local calls; shape not recognised" % len(native_calls))
            continue
        natives_by_dir.setdefault(ddir, {})[_last(native_t[0].name)] = f.name
        for vname, tgt in arms:
            exp = BACKEND_OF_VARIANT.get(vname)
            calls = per_arm[vname]
            key = "%s|%s" % (f.name, vname)
            if not calls:
                rep.unk(rule, key, f.loc, "arm %s calls no local function" % vname)
                continue
            for c in calls:
                t = prog.call_targets(c)[0]
                b = module_backend(t.name)
                where = "%s (%s)" % (c.at, f.name)
                if b is None:
                    rep.unk(rule, key, where, "arm %s calls %s, not in a back-end module"
                            % (vname, t.name))
                    continue
                if b != exp:
                    rep.bad(rule, "%s->%s" % (key, b), where,
                            "arm %s of %s calls %s (back-end module `%s`, expected `%s`)"
                            % (vname, f.name, t.name, b, exp))
                    continue
                if module_dir(t.name) != ddir and module_dir(t.name) != ddir.rsplit("::", 1)[0]:
                    rep.unk(rule, key, where, "arm %s calls %s outside the dispatcher's "
                            "directory %s" % (vname, t.name, ddir))
                    continue
                args = tuple(sym.operand(a) for a in c.args)
                if vname != "None":
                    if len(args) == len(native_args[0]) and args != native_args[0]:
                        diff = [i for i, (x, y) in enumerate(zip(args, native_args[0])) if x != y]
                        rep.bad(rule, "%s|args" % key, where,
                                "arm %s passes %s where the native arm passes %s (argument %s)"
                                % (vname, [fmt(args[i]) for i in diff],
                                   [fmt(native_args[0][i]) for i in diff], diff))
                        continue
                    if len(args) != len(native_args[0]):
                        rep.unk(rule, key, where, "arity differs from the native arm")
                        continue
                    shared.setdefault(t.id, set()).add((native_t[0].id, f.name, t.name))
                    rows.append((f, ddir, vname, t, native_t[0], where))
                rep.ok(rule, key, where, "%s -> %s" % (vname, t.name))
    for tid, users in sorted(shared.items()):
        nats = {u[0] for u in users}
        if len(nats) > 1:
            rep.bad(rule, "shared|%s" % sorted(users)[0][2], "",
                    "SIMD kernel %s is the target of dispatchers with different native kernels: %s"
                    % (sorted(users)[0][2], sorted(u[1] for u in users)))
    for (f, ddir, vname, t, nat, where) in rows:
        seg, nseg = _last(t.name), _last(nat.name)
        if seg != nseg:
            other = natives_by_dir.get(ddir, {}).get(seg)
            if other and other != f.name:
                rep.bad(rule, "%s|%s|named-like-other" % (f.name, vname), where,
                        "arm %s of %s (native kernel `%s`) calls `%s`, the name of the native "
                        "kernel of dispatcher %s" % (vname, f.name, nseg, t.name, other))
            else:
                rep.unk(rule, "%s|%s|name" % (f.name, vname), where,
                        "kernel name `%s` differs from native `%s` (no corroboration)" % (seg, nseg))


def _fn_consts(x, out):
    """fn-item constants mentioned in a statement / terminator (a function handed on as a
    value: reified to a pointer, passed to `map`, stored in a table)"""
    if isinstance(x, list):
        if len(x) == 3 and x[0] == "k" and isinstance(x[2], list) and x[2] and x[2][0] == "fn" \
                and isinstance(x[2][1], dict):
            out.append(x[2][1])
            return
        for y in x:
            _fn_consts(y, out)


def _expr_ty(prog, f, e):
    """type string of a symbolic expression, as far as it can be told"""
    if not isinstance(e, tuple) or not e:
        return None
    if e[0] in ("param", "local"):
        return f.local_ty(e[1])
    if e[0] in ("ref", "deref"):
        t = _expr_ty(prog, f, e[1])
        return t
    if e[0] == "cast":
        return _expr_ty(prog, f, e[2]) if e[1] in ("Transmute", "PtrToPtr") else (e[3] if len(e) > 3 else None)
    if e[0] == "variant":
        # payload of Ok / Some / Continue: the first type argument of Result / Option
        inner = e[1]
        if isinstance(inner, tuple) and inner and inner[0] in ("call", "callat") and \
                (inner[1] if inner[0] == "call" else inner[2]) == "branch":
            a_ = inner[2] if inner[0] == "call" else inner[3]
            inner = a_[0] if a_ else None
        t = _expr_ty(prog, f, inner) if inner is not None else None
        if t and e[2] in ("Ok", "Some", "Continue"):
            t = re.sub(r"^(&(?:'\w+ )?(?:mut )?)+", "", t.strip())
            m = re.match(r"^(?:[\w:]*::)?(Result|Option)<(.*)>$", t)
            if m:
                from .tables import _split_top
                parts = _split_top(m.group(2))
                if parts:
                    return "(%s,)" % parts[0]       # the payload as a 1-tuple: field 0 selects it
        return None
    if e[0] == "field" and isinstance(e[2], str) and e[2].isdigit():
        bt = _expr_ty(prog, f, e[1])
        if bt and bt.strip().startswith("(") and bt.strip().endswith(")"):
            from .tables import _split_top
            parts = _split_top(bt.strip()[1:-1])
            k = int(e[2])
            return parts[k] if k < len(parts) else None
        if bt is None:
            return None
    if e[0] == "field" and isinstance(e[2], str):
        bt = _expr_ty(prog, f, e[1])
        if bt:
            base = re.sub(r"<.*$", "", re.sub(r"^(&(?:'\w+ )?(?:mut )?)+", "", bt.strip()))
            for k, a in prog.adts.items():
                if (a["name"] == base or k.endswith("::" + base)) and len(a["variants"]) == 1:
                    for fl in a["variants"][0]["fields"]:
                        if fl[0] == e[2]:
                            return fl[1]
        return None
    if e[0] in ("call", "callat"):
        res = e[4] if e[0] == "callat" else e[3]
        g = prog.fns.get(res) if isinstance(res, str) else None
        return (g.d.get("output") if g is not None else None)
    return None


def _is_cpuext_ty(t):
    return bool(t) and re.sub(r"^(&(?:'\w+ )?(?:mut )?)+", "", t.strip()).endswith("CpuExtensions")


def _variant_constraint(prog, f, cond, val, allv, variants):
    """(subject, set of variants) stated by one branch fact about a CpuExtensions value"""
    from ..sym import unstable_locals
    if cond[0] == "bin" and cond[1] in ("Eq", "Ne") and isinstance(val, bool):
        # `extensions == CpuExtensions::Avx2` (derived PartialEq, constant resolved)
        for a, k in ((cond[2], cond[3]), (cond[3], cond[2])):
            if isinstance(k, tuple) and k and k[0] == "agg" and k[1] == "adt" and \
                    str(k[2]).endswith("cpu_extensions::CpuExtensions") and k[3] in allv:
                x = a
                while isinstance(x, tuple) and x and x[0] in ("ref", "deref"):
                    x = x[1]
                if _is_cpuext_ty(_expr_ty(prog, f, x)) and not unstable_locals(x):
                    same = (cond[1] == "Eq") == val
                    return (x, frozenset({k[3]}) if same else (allv - {k[3]}))
        return None
    if cond[0] != "discr" or isinstance(val, bool):
        return None
    x = cond[1]
    while isinstance(x, tuple) and x and x[0] in ("ref", "deref"):
        x = x[1]
    if not _is_cpuext_ty(_expr_ty(prog, f, x)) or unstable_locals(x):
        return None
    if isinstance(val, int):
        return (x, frozenset({variants.get(val, "?%s" % val)}))
    if isinstance(val, tuple) and val and val[0] == "not":
        return (x, allv - {variants.get(v) for v in val[1]})
    return None


def variant_flow(prog, f, sym, variants):
    """bb -> set of CpuExtensions variants that can be the selected one when bb runs, or None
    where no branch on the way says anything. Forward dataflow over the CFG on sets of
    variants, per tested value: an edge of a branch on the value (directly, through `==`, or
    through the enum a crate-local selector derived from it: the branch fact is expanded)
    intersects, a join unites -- so `a == X || a == Y` followed by a second test of `a == X`
    is understood."""
    allv = frozenset(variants.values())
    cons = {}
    for (p, s_, cond, val) in sym.edge_facts():
        known = [(cond, val)]
        work = list(known)
        for _ in range(3):
            new = [x for x in sym._expand_facts(work, known) if x not in known]
            if not new:
                break
            known += new
            work = new
        for (c, v) in known:
            r = _variant_constraint(prog, f, c, v, allv, variants)
            if r:
                cons.setdefault((p, s_), []).append(r)
    subjects = []
    for lst in cons.values():
        for subj, _ in lst:
            if subj not in subjects:
                subjects.append(subj)
    result = {}
    for subj in subjects:
        IN = {0: allv}
        work = [0]
        while work:
            b = work.pop()
            if f.blocks[b]["c"]:
                continue
            for nx in f.succ[b]:
                out = IN[b]
                for (sj, vs) in cons.get((b, nx), []):
                    if sj == subj:
                        out = out & vs
                old = IN.get(nx)
                new = out if old is None else (old | out)
                if new != old:
                    IN[nx] = new
                    work.append(nx)
        for b, vs in IN.items():
            if vs != allv:
                cur = result.get(b)
                result[b] = vs if cur is None else (cur & vs)
    return result


def guard_variants(prog, f, sym, bb, variants, _cache={}):
    key = (id(prog), f.id)
    if key not in _cache:
        _cache[key] = variant_flow(prog, f, sym, variants)
    return _cache[key].get(bb)


# (on aarch64 `neon` and on the wasm configuration `simd128` are baseline features: no demand)
FEATURE_SITE_FLOOR = {"x86": 60, "x86-rayon": 60}


def t_feature(rep, prog, rule):
    rep.rule(rule, "code compiled for a #[target_feature] set is entered only where a branch on a "
             "CpuExtensions value has selected a variant that implies that set: every call, "
             "closure or function value whose (transitive, unguarded) feature demand exceeds "
             "what its own function is compiled for either sits behind such a branch -- then the "
             "variants possible there must imply the demand -- or hands the demand on to its "
             "callers; no function reachable from the safe public API is left with a demand. "
             "The branch may be a match on the value itself or on the enum a crate-local selector "
             "derived from it (facts are expanded through the selector)")
    variants = enum_variants(prog, "cpu_extensions::CpuExtensions")
    if not variants:
        raise CheckError("enum CpuExtensions not found")
    base = closure_of(prog.config.get("target_features", []))
    need_memo = {}
    busy = set()
    syms = {}
    n_sites = [0]
    n_tf = sum(1 for f in prog.fns.values() if f.tf)

    def sym_of(f):
        if f.id not in syms:
            syms[f.id] = Sym(f)
        return syms[f.id]

    def closure_block(f, cid):
        for b, blk in enumerate(f.blocks):
            if blk["c"]:
                continue
            for st in blk["s"]:
                if st[0] == "a" and st[2][0] == "agg" and st[2][1] == "closure" and st[2][2] == cid:
                    return b
        return None

    def need(f):
        """feature -> witness path: what f needs from whoever calls it"""
        if f.id in need_memo:
            return need_memo[f.id]
        if f.id in busy:
            return {}
        busy.add(f.id)
        own = closure_of(f.tf) | base
        out = {}
        sites = []          # (bb, label, {feat: path})
        for b, blk in enumerate(f.blocks):
            if blk["c"]:
                continue
            dem = {}
            t = blk["t"]
            if t[0] == "call":
                c = f.call_in(b)
                for feat in (c.callee.get("tf") or []):
                    for x in closure_of([feat]):
                        if x not in own:
                            dem.setdefault(x, [c.name])
                for g in prog.call_targets(c):
                    for feat in closure_of(g.tf):
                        if feat not in own:
                            dem.setdefault(feat, [g.name])
                    for feat, path in need(g).items():
                        if feat not in own:
                            dem.setdefault(feat, [g.name] + path)
            consts = []
            _fn_consts(blk["s"], consts)
            if t[0] == "call":
                _fn_consts(t[2], consts)
            for cd in consts:
                g = prog.fns.get(cd.get("res") or cd.get("id"))
                if g is None:
                    continue
                for feat in closure_of(g.tf):
                    if feat not in own:
                        dem.setdefault(feat, ["fn value " + g.name])
                for feat, path in need(g).items():
                    if feat not in own:
                        dem.setdefault(feat, ["fn value " + g.name] + path)
            if dem:
                sites.append((b, dem))
        for cl in f.closures():
            b = closure_block(f, cl.id)
            dem = {}
            for feat in closure_of(cl.tf):
                if feat not in own:
                    dem.setdefault(feat, [cl.name])
            for feat, path in need(cl).items():
                if feat not in own:
                    dem.setdefault(feat, [cl.name] + path)
            if dem:
                if b is None:
                    for feat, path in dem.items():
                        out.setdefault(feat, path)
                else:
                    sites.append((b, dem))
        for b, dem in sites:
            n_sites[0] += 1
            g = guard_variants(prog, f, sym_of(f), b, variants)
            if g is None:
                for feat, path in dem.items():
                    out.setdefault(feat, path)
                continue
            rep.touch(f)
            label = "+".join(sorted(g)) or "unreachable"
            if not g:
                continue
            allowed = None
            for v in g:
                a = closure_of(FEATURE_OF_VARIANT.get(v, [])) | base
                allowed = a if allowed is None else (allowed & a)
            badf = sorted(x for x in dem if x not in allowed)
            key = "%s|%s" % (f.name, label)
            if badf:
                for x in badf:
                    rep.bad(rule, "%s|%s" % (key, x), f.loc,
                            "arm %s of %s reaches code compiled for `%s` via %s"
                            % (label, f.name, x, " -> ".join(dem[x])))
            else:
                rep.ok(rule, key, f.loc, "features %s behind the branch on %s"
                       % (sorted(dem), label), nontrivial=True)
        busy.discard(f.id)
        need_memo[f.id] = out
        return out

    for f in sorted(prog.fns.values(), key=lambda x: x.id):
        need(f)
    # no safe, externally reachable function is left with a demand
    n = 0
    for g in sorted(prog.fns.values(), key=lambda x: x.id):
        if g.kind == "closure" or not g.reachable or g.is_unsafe:
            continue
        n += 1
        for x, path in sorted(need(g).items()):
            rep.bad(rule, "public|%s|%s" % (g.name, x), g.loc,
                    "safe public fn %s reaches `%s` code with no branch on a CpuExtensions "
                    "value on the way: %s" % (g.name, x, " -> ".join(path)))
    rep.ok(rule, "public-entry-points", "", "%d safe public functions need no non-baseline "
           "feature; %d #[target_feature] functions in this cfg" % (n, n_tf), nontrivial=n_tf > 0)
    if n_tf and FEATURE_SITE_FLOOR.get(rep.cfg):
        rep.floor(rule, "call sites / function values with a feature demand", n_sites[0],
                  FEATURE_SITE_FLOOR.get(rep.cfg, 0))


# ---------------------------------------------------------------------------------------------

def _strip_casts(e):
    while e and e[0] == "cast":
        e = e[2]
    return e


def precision_interval(prog, which):
    """interval of the `precision` field at the aggregate in NormalizerNN::new"""
    f = prog.fn_by_name("convolution::optimisations::%s::new" % which)
    adt = prog.adt_ids(which)
    if len(adt) != 1:
        raise CheckError("anchor struct %s" % which)
    fields = [x[0] for x in prog.adts[adt[0]]["variants"][0]["fields"]]
    pi = fields.index("precision")
    sym = Sym(f)
    iv = Intervals(sym, prog.config["ptr_bits"], prog)
    res = None
    for blk in f.blocks:
        if blk["c"]:
            continue
        for st in blk["s"]:
            if st[0] == "a" and st[2][0] == "agg" and st[2][1] == "adt" and st[2][2] == adt[0]:
                e = sym.operand(st[2][4][pi])
                r = iv.eval(e)
                if r is None:
                    return None, f
                res = r if res is None else (min(res[0], r[0]), max(res[1], r[1]))
    return res, f


def precision_switches(prog):
    out = []
    for f in sorted(prog.fns.values(), key=lambda x: x.id):
        sym = None
        for b, blk in enumerate(f.blocks):
            t = blk["t"]
            if blk["c"] or t[0] != "sw" or t[4] == "bool":
                continue
            sym = sym or Sym(f)
            e = sym.operand(t[1])
            mask = None
            x = _strip_casts(e)
            if x[0] == "bin" and x[1] == "BitAnd":
                a, bb_ = _strip_casts(x[2]), _strip_casts(x[3])
                if bb_[0] == "const":
                    mask, x = bb_[1], a
                elif a[0] == "const":
                    mask, x = a[1], bb_
            x = _strip_casts(x)
            if x[0] == "call" and x[1] == "precision" and len(x) > 4:
                which = "Normalizer16" if "Normalizer16" in x[4] else (
                    "Normalizer32" if "Normalizer32" in x[4] else None)
                if which:
                    out.append((f, b, which, mask))
    return out


def _is_panic_block(fn, b):
    """block (chain) that ends in a diverging panic call or `unreachable`"""
    seen = set()
    while b not in seen:
        seen.add(b)
        t = fn.term(b)
        if t[0] == "unreach":
            return True
        if t[0] == "call":
            c = fn.call_in(b)
            if c.target is None and ("panic" in c.name or "unreachable" in c.name):
                return True
            return False
        if t[0] == "goto":
            b = t[1]
            continue
        return False
    return False


PRECISION_FLOOR = {"x86": 6, "x86-rayon": 6, "arm": 9, "arm-rayon": 9, "wasm": 0}


def t_precision(rep, prog, rule, report_empty=True):
    rep.rule(rule, "every switch on Normalizer16/32::precision() has an arm for each value the "
             "normaliser's constructor can produce that lies between two explicit arms (table "
             "hole), arm k instantiates the kernel with const PRECISION = k, and no arm for a "
             "producible value is empty")
    sws = precision_switches(prog)
    rep.floor(rule, "precision switches", len(sws), PRECISION_FLOOR.get(rep.cfg, 0))
    ivs = {}
    for which in ("Normalizer16", "Normalizer32"):
        try:
            ivs[which] = precision_interval(prog, which)[0]
        except CheckError:
            ivs[which] = None
    for (f, b, which, mask) in sws:
        rep.touch(f)
        sw = Switch(f, b)
        iv = ivs.get(which)
        where = "%s (%s)" % (f.term(b)[5], f.name)
        mac = f.term(b)[6]
        # a table generated by a macro is one table: key it by the macro, not by each expansion
        key0 = "%s|%s" % (mac[-1] if mac else f.name, which)
        if iv is None or iv[1] - iv[0] > 4096:
            rep.unk(rule, key0, where, "interval of %s::precision not computable" % which)
            continue
        vals = sorted({(v & mask) if mask is not None else v for v in range(iv[0], iv[1] + 1)})
        arm_vals = sorted(v for v, _ in sw.arms)
        # per-arm instantiation
        for v, tgt in sw.arms:
            calls = [c for c in sw.arm_calls(tgt) if prog.call_targets(c)]
            key = "%s|arm%d" % (key0, v)
            if not calls:
                if v in vals and not report_empty:
                    rep.ok(rule, key, where, "empty arm (no panic; the missing computation is "
                           "reported under C02/C05)")
                elif v in vals:
                    rep.bad(rule, "%s|empty" % key, where,
                            "arm %d of the precision table in %s is empty although "
                            "%s::new can produce precision %d (interval %s): nothing is computed"
                            % (v, f.name, which, v, list(iv)))
                else:
                    rep.ok(rule, key, where, "empty arm for a value outside the interval")
                continue
            okk = True
            for c in calls:
                cs = c.cargs()
                ints = [x for x in cs if isinstance(x, int) and not isinstance(x, bool)]
                if not ints:
                    continue
                if v not in ints:
                    okk = False
                    rep.bad(rule, "%s|const" % key, where,
                            "arm %d calls %s with const generic %s" % (v, c.name, ints))
            if okk:
                rep.ok(rule, key, where, "arm %d -> PRECISION=%d" % (v, v))
        missing = [v for v in vals if v not in arm_vals]
        if not missing:
            rep.ok(rule, "%s|cover" % key0, where, "arms cover %s" % list(iv))
            continue
        if not _is_panic_block(f, sw.otherwise):
            rep.ok(rule, "%s|cover" % key0, where,
                   "values %s handled by a non-panicking fallback" % missing)
            continue
        for v in missing:
            if arm_vals and arm_vals[0] < v < arm_vals[-1]:
                rep.bad(rule, "%s|hole%d" % (key0, v), where,
                        "precision %d lies in the interval %s of %s::new and between explicit "
                        "arms %d and %d but falls to unreachable!() in %s"
                        % (v, list(iv), which, max(a for a in arm_vals if a < v),
                           min(a for a in arm_vals if a > v), f.name))
            else:
                rep.unk(rule, "%s|outside%d" % (key0, v), where,
                        "precision %d of interval %s is outside the arms' hull" % (v, list(iv)))


def headroom(rep, prog, rule):
    rep.rule(rule, "the largest precision NormalizerNN::new can choose (its loop bound; the only "
             "other limit is the size of the largest weight, which a strong reduction makes "
             "arbitrarily small) leaves room in the accumulator: the kernels add data_bits-wide "
             "samples times weights that sum to 2^precision into acc_bits-wide signed lanes, so "
             "precision + data_bits must stay below acc_bits - 1 (data 8 / acc 32 for "
             "Normalizer16, 16 / 64 for Normalizer32); precision >= acc_bits - data_bits overflows "
             "already for a flat white image and a non-negative filter, the two values below that "
             "depend on the negative lobes of the filter")
    for which, data_bits, acc_bits in (("Normalizer16", 8, 32), ("Normalizer32", 16, 64)):
        try:
            iv, f = precision_interval(prog, which)
        except Exception:
            iv, f = None, None
        key = "%s|precision-headroom" % which
        if iv is None:
            rep.unk(rule, key, "-", "interval of %s::precision not computable" % which)
            continue
        rep.touch(f)
        hi = iv[1]
        if hi + data_bits <= acc_bits - 3:
            rep.ok(rule, key, f.loc, "precision <= %d: %d + %d data bits + 2 guard bits fit the %d-bit "
                   "accumulator" % (hi, hi, data_bits, acc_bits))
        elif hi + data_bits >= acc_bits:
            rep.bad(rule, key, f.loc, "%s::new can choose a precision of up to %d (for a strong "
                    "reduction the weights are small enough), but %d-bit samples times weights that "
                    "sum to 2^%d do not fit the %d-bit accumulator lanes of the kernels: a white "
                    "area wraps to a negative sum and is stored as 0 (or panics in debug builds)"
                    % (which, hi, data_bits, hi, acc_bits))
        else:
            rep.unk(rule, key, f.loc, "precision up to %d leaves %d guard bit(s): overflow depends "
                    "on the negative lobes of the filter" % (hi, acc_bits - 1 - data_bits - hi))


def precision_reach(rep, prog, rule):
    rep.rule(rule, "NormalizerNN::new may raise the precision up to the head-room of the accumulator "
             "(acc_bits - data_bits - 3: 21 for Normalizer16, 45 for Normalizer32); the weights of a "
             "window of n taps are about 1/n, so with the precision capped at P every coefficient "
             "keeps only P - log2(n) significant bits and the windows sum to 1 only within n / 2^(P+1): "
             "a cap at or below the width of the coefficient type (15 / 31 bits) removes the "
             "adaptation to small weights altogether (error of whole units from a few hundred taps "
             "on) and is a violation; a cap between that and the head-room is undecided")
    for which, data_bits, acc_bits, coef_bits in (("Normalizer16", 8, 32, 15), ("Normalizer32", 16, 64, 31)):
        try:
            iv, f = precision_interval(prog, which)
        except Exception:
            iv, f = None, None
        key = "%s|precision-reach" % which
        if iv is None:
            rep.unk(rule, key, "-", "interval of %s::precision not computable" % which)
            continue
        rep.touch(f)
        hi, room = iv[1], acc_bits - data_bits - 3
        if hi >= room:
            rep.ok(rule, key, f.loc, "precision can reach %d = the head-room of the %d-bit accumulator"
                   % (hi, acc_bits))
        elif hi <= coef_bits:
            rep.bad(rule, key + "|capped", f.loc,
                    "%s::new never chooses a precision above %d although the accumulator leaves room for "
                    "%d: for a reduction by a factor n the weights are about 1/n and are rounded to "
                    "multiples of 2^-%d, so a flat area changes by up to 255 * n / 2^%d units (whole "
                    "units from n of a few hundred on)" % (which, hi, room, hi, hi + 1))
        else:
            rep.unk(rule, key, f.loc, "precision capped at %d, below the head-room %d" % (hi, room))
