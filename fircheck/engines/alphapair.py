"""Pixel provenance of the x86 alpha primitives (vector in, vector out): every byte of the result
is tagged with the pixel and the component(s) of the argument it was computed from, by
propagating tags through the intrinsic expression (moves are exact, lane-wise arithmetic unions
the tags of a lane; nothing is executed). The properties need
    * each product / quotient to combine a colour component with the alpha of the SAME pixel,
    * byte i of the result to be computed from pixel i // ps, component (i % ps) // cs (and that
      pixel's alpha), and the alpha bytes to be the argument's alpha bytes.

Tags   ('Z',)  zero      ('C', v)  constant byte      ('U', why)  unknown
       ('P', p, c, k)    pristine byte k of component c of pixel p
       ('D', p, cs)      computed from components cs (a frozenset) of pixel p only"""
import re

from ..sym import Sym, fmt, short
from .lanes import mask_bytes
from .deps import const_of_splat

Z = ("Z",)


def U(why):
    return ("U", why)


def _name(e):
    return e[2] if e[0] == "callat" else e[1]


def _args(e):
    return e[3] if e[0] == "callat" else e[2]


def _cargs(e):
    n = 6 if e[0] == "callat" else 5
    if len(e) > n and isinstance(e[-1], tuple) and all(isinstance(x, int) for x in e[-1]):
        return e[-1]
    return ()


def lane_join(bs):
    """tag of a value computed from the bytes bs of one lane"""
    px, cs = set(), set()
    for b in bs:
        if b[0] in ("Z", "C"):
            continue
        if b[0] == "U":
            return b
        if b[0] == "P":
            px.add(b[1])
            cs.add(b[2])
        elif b[0] == "D":
            px.add(b[1])
            cs |= set(b[2])
    if not px:
        return ("C", None)
    if len(px) > 1:
        return ("M", frozenset(px))           # mixes several pixels
    return ("D", px.pop(), frozenset(cs))


class Prov:
    def __init__(self, fn, ps, cs):
        self.fn = fn
        self.sym = Sym(fn)
        self.ps, self.cs = ps, cs
        self.memo = {}
        self.sites = []       # (name, lane index, tagA, tagB) of multiplications / divisions

    def const_bytes(self, e, w):
        n = _name(e)
        m = re.match(r"^_mm(256)?_set1_epi(8|16|32|64x)$", n)
        if m:
            v = const_of_splat(e)
            nb = {"8": 1, "16": 2, "32": 4, "64x": 8}[m.group(2)]
            if isinstance(v, int):
                v &= (1 << (8 * nb)) - 1
                one = [Z if ((v >> (8 * i)) & 0xff) == 0 else ("C", (v >> (8 * i)) & 0xff) for i in range(nb)]
                return one * (w // nb)
        mb = mask_bytes(e)
        if mb is not None:
            return [Z if (b & 0xff) == 0 else ("C", b & 0xff) for b in mb]
        return None

    def vec(self, e, depth=0):
        try:
            if e in self.memo:
                return self.memo[e]
        except TypeError:
            return None
        r = self._vec(e, depth)
        self.memo[e] = r
        return r

    def lanewise(self, name, vs, bits, record=False):
        w = len(vs[0])
        nb = bits // 8
        out = []
        for L in range(0, w, nb):
            tags = [lane_join(v[L:L + nb]) for v in vs]
            if record:
                self.sites.append((name, L // nb, tags))
            j = lane_join([t for t in tags if t[0] != "C"] or [Z])
            out += [j if j[0] != "C" else ("C", None)] * nb
        return out

    def _vec(self, e, depth):
        if depth > 80 or not isinstance(e, tuple) or not e:
            return None
        k = e[0]
        if k == "cast":
            return self.vec(e[2], depth + 1)
        if k == "param":
            ty = self.fn.local_ty(e[1]) or ""
            w = 32 if "256" in ty else 16
            return [("P", i // self.ps, (i % self.ps) // self.cs, (i % self.ps) % self.cs) for i in range(w)]
        if k == "local":
            ds = self.sym.defs.get(e[1], [])
            if len(ds) == 1 and ds[0][3]:
                return self.vec(self.sym.rvalue(ds[0][2], ds[0][0], (ds[0][0], ds[0][1])), depth + 1)
            return None
        if k not in ("callat", "call"):
            return None
        n, a, cg = _name(e), _args(e), _cargs(e)
        V = lambda x: self.vec(x, depth + 1)
        w = 32 if "256" in n else 16
        c = self.const_bytes(e, w)
        if c is not None:
            return c
        if re.match(r"^_mm(256)?_setzero_(si128|si256|ps)$", n):
            return [Z] * w
        if re.match(r"^_mm(256)?_set1_ps$", n):
            return [("C", None)] * w
        if re.match(r"^_mm(256)?_shuffle_epi8$", n) and len(a) == 2:
            src, mb = V(a[0]), mask_bytes(a[1])
            if src is None or mb is None or len(mb) != len(src):
                return None
            return [Z if m & 0x80 else src[(i // 16) * 16 + (m & 15)] for i, m in enumerate(mb)]
        m = re.match(r"^_mm(256)?_unpack(lo|hi)_epi(8|16|32|64)$", n)
        if m and len(a) == 2:
            A, B = V(a[0]), V(a[1])
            if A is None or B is None or len(A) != len(B):
                return None
            g = int(m.group(3)) // 8
            out = []
            for h in range(0, len(A), 16):
                base = h + (0 if m.group(2) == "lo" else 8)
                for i in range(0, 8, g):
                    out += A[base + i: base + i + g] + B[base + i: base + i + g]
            return out
        m = re.match(r"^_mm(256)?_(and|or|andnot)_(si128|si256|ps)$", n)
        if m and len(a) == 2:
            A, B = V(a[0]), V(a[1])
            if A is None or B is None or len(A) != len(B):
                return None
            out = []
            for x, y in zip(A, B):
                if m.group(2) == "and":
                    if x == Z or y == Z:
                        out.append(Z)
                    elif x == ("C", 0xff):
                        out.append(y)
                    elif y == ("C", 0xff):
                        out.append(x)
                    elif x[0] == "C" and y[0] == "C":
                        out.append(("C", None))
                    else:
                        out.append(lane_join([x, y]))        # masked by a computed value
                elif m.group(2) == "or":
                    if x == Z:
                        out.append(y)
                    elif y == Z:
                        out.append(x)
                    elif x == ("C", 0xff) or y == ("C", 0xff):
                        out.append(("C", 0xff))
                    else:
                        out.append(lane_join([x, y]))
                else:
                    out.append(lane_join([x, y]))
            return out
        m = re.match(r"^_mm(256)?_s(r|l)li_epi(16|32|64)$", n)
        if m and a:
            A = V(a[0])
            if A is None:
                return None
            bits = int(m.group(3))
            sh = cg[0] if cg else None
            nb = bits // 8
            if sh is not None and sh % 8 == 0:
                s8 = sh // 8
                out = []
                for L in range(0, len(A), nb):
                    lane = A[L:L + nb]
                    out += (lane[s8:] + [Z] * s8) if m.group(2) == "r" else ([Z] * s8 + lane[:nb - s8])
                return out
            return self.lanewise(n, [A], bits)
        m = re.match(r"^_mm(256)?_b?s(r|l)li_si(128|256)$", n)
        if m and a:
            # byte shift of each 128-bit lane by the const-generic count
            A = V(a[0])
            sh = cg[0] if cg else None
            if A is None or sh is None:
                return None
            sh = min(int(sh), 16)
            out = []
            for h in range(0, len(A), 16):
                lane = A[h:h + 16]
                out += (lane[sh:] + [Z] * sh) if m.group(2) == "r" else ([Z] * sh + lane[:16 - sh])
            return out
        m = re.match(r"^_mm(256)?_blendv_epi8$", n)
        if m and len(a) == 3:
            A, B, M = V(a[0]), V(a[1]), V(a[2])
            if A is None or B is None or M is None:
                return None
            out = []
            for x, y, mm in zip(A, B, M):
                if mm == Z:
                    out.append(x)
                elif mm[0] == "C" and mm[1] is not None and mm[1] & 0x80:
                    out.append(y)
                elif mm[0] == "C" and mm[1] is not None:
                    out.append(x)
                else:
                    out.append(U("blend by a non-constant mask"))
            return out
        m = re.match(r"^_mm(256)?_pack(us|s)_epi(16|32)$", n)
        if m and len(a) == 2:
            A, B = V(a[0]), V(a[1])
            if A is None or B is None:
                return None
            fb = int(m.group(3)) // 8
            tb = fb // 2
            out = []
            for h in range(0, len(A), 16):
                for src in (A, B):
                    for L in range(h, h + 16, fb):
                        lane = src[L:L + fb]
                        if all(b[0] in ("Z", "C") for b in lane[tb:]):
                            # high half empty: the low bytes survive as they are
                            out += lane[:tb]
                        else:
                            out += [lane_join(lane)] * tb
            return out
        # lane-wise arithmetic
        m = re.match(r"^_mm(256)?_(mullo|mulhi|mulhrs|add|sub|adds|subs|min|max|madd)_ep[iu](8|16|32)$", n)
        if m and len(a) == 2:
            A, B = V(a[0]), V(a[1])
            if A is None or B is None or len(A) != len(B):
                return None
            return self.lanewise(n, [A, B], int(m.group(3)), record=m.group(2).startswith("mul"))
        m = re.match(r"^_mm(256)?_(div|mul|min|max|and|cmp\w*|add|sub)_ps$", n)
        if m and len(a) >= 2:
            A, B = V(a[0]), V(a[1])
            if A is None or B is None or len(A) != len(B):
                return None
            return self.lanewise(n, [A, B], 32, record=m.group(2) in ("div", "mul"))
        m = re.match(r"^_mm(256)?_(cvtepi32_ps|cvtps_epi32|cvttps_epi32|castsi\d+_ps|castps_si\d+)$", n)
        if m and a:
            A = V(a[0])
            if A is None:
                return None
            if "cast" in m.group(2):
                return A
            return self.lanewise(n, [A], 32)
        # halves of a 256-bit register
        if n == "_mm256_castsi256_si128" and a:
            A = V(a[0])
            return A[:16] if A and len(A) == 32 else None
        if n == "_mm256_extracti128_si256" and a:
            A = V(a[0])
            if A is None or len(A) != 32 or not cg:
                return None
            return A[16:] if cg[0] & 1 else A[:16]
        if n in ("_mm256_castsi128_si256", "_mm256_zextsi128_si256") and a:
            A = V(a[0])
            return (A + [Z] * 16) if A and len(A) == 16 else None
        # zero / sign extension of the low elements, in linear order ACROSS the 128-bit lanes of
        # the result (unlike unpack, which works inside each lane)
        m = re.match(r"^_mm(256)?_cvtep([iu])(8|16|32)_epi(16|32|64)$", n)
        if m and a:
            A = V(a[0])
            if A is None:
                return None
            fb, tb = int(m.group(3)) // 8, int(m.group(4)) // 8
            outw = 32 if m.group(1) else 16
            cnt = outw // tb
            if cnt * fb > len(A):
                return None
            out = []
            for i in range(cnt):
                el = A[i * fb:(i + 1) * fb]
                if m.group(2) == "u":
                    out += el + [Z] * (tb - fb)
                else:
                    out += el + [lane_join(el)] * (tb - fb)     # sign bits depend on the element
            return out
        if n == "_mm256_set_m128i" and len(a) == 2:
            hi, lo = V(a[0]), V(a[1])
            return (lo + hi) if hi and lo else None
        if n in ("transmute", "clone"):
            return V(a[0]) if a else None
        return None


def provenance(rep, prog, rule):
    rep.rule(rule, "in every x86 alpha primitive that maps a vector of pixels to a vector of pixels, "
             "each multiplication / division combines values of one pixel only (a colour component "
             "with that pixel's own alpha, or constants), byte i of the result is computed from "
             "pixel i // pixel_size, component (i % pixel_size) // component_size (and that pixel's "
             "alpha), and the alpha bytes of the result are the alpha bytes of the argument "
             "(provenance tags propagated through shuffles, unpacks, masks, shifts, packs, blends "
             "and lane-wise arithmetic)")
    n = 0
    for f in sorted(prog.fns.values(), key=lambda x: x.id):
        m = re.match(r"^alpha::(u8|u16)x(\d)::(sse4|avx2)::(multipl\w*|divide\w*)_pixels?$", f.name)
        if not m or f.kind == "closure":
            continue
        out = f.d.get("output", "")
        if "__m" not in out or f.arg_count != 1:
            continue
        n += 1
        rep.touch(f)
        cs = 1 if m.group(1) == "u8" else 2
        ncomp = int(m.group(2))
        ps = cs * ncomp
        alpha = ncomp - 1
        pv = Prov(f, ps, cs)
        res = None
        for (bb, j, rv, whole) in f.defs().get(0, []):
            res = pv.vec(pv.sym.rvalue(rv, bb, (bb, j)))
        key = f.name
        if res is None:
            rep.unk(rule, key, f.loc, "the result expression is not followed")
            continue
        # products
        bad = None
        for (name, lane, tags) in pv.sites:
            px = set()
            for t in tags:
                if t[0] == "M":
                    bad = "%s lane %d already mixes pixels %s" % (name, lane, sorted(t[1]))
                elif t[0] == "D":
                    px.add(t[1])
                elif t[0] == "U":
                    bad = bad or None
            if len(px) > 1:
                bad = "%s lane %d combines values of pixels %s" % (name, lane, sorted(px))
        if bad:
            rep.bad(rule, key + "|cross-pixel", f.loc, "%s: %s: a colour component must be scaled "
                    "by the alpha of its own pixel" % (f.name, bad))
            continue
        wrong = unk = None
        for i, b in enumerate(res):
            p, c = i // ps, (i % ps) // cs
            if b[0] == "U":
                unk = b[1]
            elif b[0] == "M":
                wrong = "byte %d of the result is computed from pixels %s" % (i, sorted(b[1]))
            elif b[0] == "P":
                if (b[1], b[2], b[3]) != (p, c, (i % ps) % cs):
                    wrong = "byte %d of the result is byte %d of component %d of pixel %d of the " \
                            "argument" % (i, b[3], b[2], b[1])
                elif c != alpha:
                    wrong = "colour byte %d of the result is the unmodified argument" % i
            elif b[0] == "D":
                if b[1] != p:
                    wrong = "byte %d (pixel %d) of the result is computed from pixel %d" % (i, p, b[1])
                elif c == alpha and set(b[2]) - {alpha}:
                    wrong = "the alpha byte %d of the result depends on colour components %s" % (
                        i, sorted(set(b[2]) - {alpha}))
                elif c != alpha and (c not in b[2] or set(b[2]) - {c, alpha}):
                    wrong = "byte %d (component %d) of the result is computed from components %s" % (
                        i, c, sorted(b[2]))
            elif b[0] in ("Z", "C"):
                wrong = "byte %d of the result is a constant" % i
        if wrong:
            rep.bad(rule, key + "|provenance", f.loc, "%s: %s" % (f.name, wrong))
        elif unk:
            rep.unk(rule, key, f.loc, "result byte not followed: %s" % unk)
        else:
            rep.ok(rule, key, f.loc, "%d result bytes come from their own pixel and component; %d "
                   "lane-wise products / quotients stay within one pixel" % (len(res), len(pv.sites)))
    rep.floor(rule, "x86 alpha primitives", n, 12)
