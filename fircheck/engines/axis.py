"""E5 — X/Y kind inference over symbolic expressions (DESIGN §3/E5).
Lattice: None (bottom: constants) < 'X', 'Y' < 'T' (top: mixed)."""
import re

from ..sym import Sym, fmt
from .validators import closure_return, subst

X_WORDS = ("width", "left", "col", "x_first", "x_last", "x_in", "x_scale")
Y_WORDS = ("height", "top", "row", "y_first", "y_last", "y_in", "y_scale")


def join(a, b):
    if a is None:
        return b
    if b is None:
        return a
    if a == b:
        return a
    return "T"


def name_kind(name):
    if not name:
        return None
    n = name.lower()
    x = any(w in n for w in X_WORDS)
    y = any(w in n for w in Y_WORDS)
    if x and not y:
        return "X"
    if y and not x:
        return "Y"
    return None


class Kinds:
    def __init__(self, prog, fn, sym=None):
        self.prog = prog
        self.fn = fn
        self.sym = sym or Sym(fn)
        self._busy = set()
        self._memo = {}

    def kind(self, e, depth=0):
        if not isinstance(e, tuple) or not e or depth > 60:
            return None
        try:
            if e in self._memo:
                return self._memo[e]
        except TypeError:
            pass
        r = self._kind(e, depth)
        try:
            self._memo[e] = r
        except TypeError:
            pass
        return r

    def _kind(self, e, depth):
        k = e[0]
        if k in ("const", "fnconst", "constx", "static", "unknown"):
            return None
        if k == "param":
            return name_kind(e[2])
        if k == "local":
            if e in self._busy:
                return None
            self._busy.add(e)
            try:
                r = name_kind(e[2])
                if r is not None:
                    return r
                for (bb, j, rv, whole) in self.sym.defs.get(e[1], []):
                    r = join(r, self.kind(self.sym.rvalue(rv, bb, (bb, j)), depth + 1))
                return r
            finally:
                self._busy.discard(e)
        if k == "field":
            nm = e[2]
            if isinstance(nm, str):
                nk = name_kind(nm)
                if nk is not None:
                    return nk
                if nm in ("start", "size", "bounds", "values", "window_size"):
                    return self.kind(e[1], depth + 1)
            if isinstance(nm, int):
                # tuple field of `centering`
                base = e[1]
                if base[0] in ("local", "param") and base[2] and "centering" in base[2]:
                    return "X" if nm == 0 else "Y"
                if base[0] == "variant" and "centering" in fmt(base):
                    return "X" if nm == 0 else "Y"
            return self.kind(e[1], depth + 1)
        if k in ("variant", "index", "proj", "ovf", "discr"):
            return self.kind(e[1], depth + 1)
        if k == "cast" or k == "un":
            return self.kind(e[2], depth + 1)
        if k == "bin":
            return join(self.kind(e[2], depth + 1), self.kind(e[3], depth + 1))
        if k == "agg":
            r = None
            for a in e[4]:
                r = join(r, self.kind(a, depth + 1))
            return r
        if k in ("call", "callat"):
            name = e[1] if k == "call" else e[2]
            args = e[2] if k == "call" else e[3]
            if name == "width":
                return "X"
            if name == "height":
                return "Y"
            if name == "then" and len(args) == 2 and args[1][0] == "agg" and args[1][1] == "closure":
                r = closure_return(self.prog, args[1][2], [], list(args[1][4]))
                if r is not None:
                    return self.kind(r, depth + 1)
                return None
            if name == "precompute_coefficients":
                r = None
                for a in args[:4]:
                    r = join(r, self.kind(a, depth + 1))
                return r
            if name in ("crop_box", "image_view", "new", "default", "get_filter_func"):
                return None
            r = None
            for a in args:
                r = join(r, self.kind(a, depth + 1))
            return r
        return None
