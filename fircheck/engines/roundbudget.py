"""Rounding budget of the fixed-point convolution kernels (lane-level abstract interpretation of
the accumulator expressions; nothing is executed).

Every integer kernel adds a rounding constant to its accumulator(s) before the final arithmetic
shift by `precision`.  Where the kernel sums several accumulator lanes (or several accumulators)
into one output component, the constants add up as well, so each lane is initialised with
1 << (precision - j) such that the contributions total 1 << (precision - 1) = one half of an
output unit.  The abstract value of a lane is its *rounding content* r: the lane holds
r * 2^precision + (weighted data).  Data (loads, products, shuffles of data) has r = 0.

Abstract values
    ('V', bits, (r0, r1, ...))   vector of lanes, r_i a Fraction or None (unknown)
    ('S', r)                     scalar
    ('P', r_lo, r_hi)            64-bit scalar holding two 32-bit lanes
    ('A', frozenset(values))     array (indices collapsed)
    ('U', reason)                unknown
A sink is the operand of the final shift (vector shift by the precision, or Normalizer::clip);
its lanes must all have r = 1/2."""
import re
from fractions import Fraction

from ..sym import Sym, fmt, short

HALF = Fraction(1, 2)
ZERO = Fraction(0)


def _name(e):
    return e[2] if e[0] == "callat" else e[1]


def _args(e):
    return e[3] if e[0] == "callat" else e[2]


def _cargs(e):
    n = 6 if e[0] == "callat" else 5
    if len(e) > n and isinstance(e[-1], tuple) and all(isinstance(x, int) for x in e[-1]):
        return e[-1]
    return ()


def strip(e):
    while isinstance(e, tuple) and e and e[0] == "cast":
        e = e[2]
    return e


def is_precision(e):
    e = strip(e)
    if not isinstance(e, tuple) or not e:
        return False
    if e[0] == "constx":
        return "PRECISION" in e[1] or "IMM" in e[1]
    if e[0] in ("param", "local"):
        return bool(e[2]) and "precision" in e[2].lower()
    if e[0] in ("call", "callat"):
        if _name(e) == "precision":
            return True
        # by shape: the u8 getter of a normaliser (whatever it is called)
        full = e[5] if e[0] == "callat" and len(e) > 5 else (e[4] if e[0] == "call" and len(e) > 4 else "")
        res = e[4] if e[0] == "callat" else (e[3] if len(e) > 3 else None)
        if isinstance(full, str) and "Normalizer" in full and _PROG is not None and isinstance(res, str):
            g = _PROG.fns.get(res)
            if g is not None and (g.d.get("output") or "") == "u8" and g.arg_count == 1:
                return True
        return False
    if e[0] == "field":
        return isinstance(e[2], str) and "precision" in e[2]
    return False


_PROG = None
_UNKNOWN_ROUND = []


def _atoms(e, acc=None):
    acc = set() if acc is None else acc
    if isinstance(e, tuple) and e:
        if e[0] in ("local", "param"):
            acc.add(e)
        for x in e:
            if isinstance(x, tuple):
                _atoms(x, acc)
    return acc


def _mentions_capture(e, k):
    if not isinstance(e, tuple) or not e:
        return False
    if e[0] == "field" and e[2] in (k,) and isinstance(e[1], tuple) and e[1][0] == "param" and e[1][1] == 1:
        return True
    if e[0] == "field" and isinstance(e[1], tuple) and e[1][0] == "param" and e[1][1] == 1:
        return e[2] == k
    return any(_mentions_capture(x, k) for x in e if isinstance(x, tuple))


def is_rec(v):
    return isinstance(v, tuple) and v and v[0] == "RECUR"


def U(why):
    return ("U", why)


def V(bits, lanes):
    return ("V", bits, tuple(lanes))


def B(bits, lanes):
    """an array of scalars (a buffer), indexable"""
    return ("B", bits, tuple(lanes))


def mkA(vals):
    """array value with nested arrays flattened"""
    out = set()
    for v in vals:
        if is_rec(v):
            continue
        if v[0] == "A":
            out |= set(v[1])
        else:
            out.add(v)
    return ("A", frozenset(out))


def zero_like(v):
    if v[0] == "V":
        return V(v[1], [ZERO] * len(v[2]))
    return ("S", ZERO)


N = "n"      # a plain number (index arithmetic, literal constants): no rounding content
Q = "q"      # an integer parameter of the function: plain number or rounding term, decided
             # at the call sites


def _d(r):
    return r == ZERO or r == N or r == Q


def is_zero(v):
    """data: carries no rounding term"""
    if v[0] == "DONE":
        return True
    if v[0] in ("V", "B"):
        return all(_d(r) for r in v[2])
    if v[0] == "S":
        return _d(v[1])
    if v[0] == "P":
        return _d(v[1]) and _d(v[2])
    if v[0] == "A":
        return all(is_zero(x) for x in v[1])
    if v[0] == "T":
        return all(is_zero(x) for s in v[1] for x in s)
    if v[0] == "C":
        return all(is_zero(x) for s in v[2] for x in s)
    return False


def has_q(v):
    if v[0] in ("V", "B"):
        return any(r == Q for r in v[2])
    if v[0] == "S":
        return v[1] == Q
    if v[0] == "P":
        return Q in (v[1], v[2])
    if v[0] == "A":
        return any(has_q(x) for x in v[1])
    if v[0] == "T":
        return any(has_q(x) for s in v[1] for x in s)
    return False


def has_param_u(v):
    """does the value contain the marker of a parameter that is evaluated at the call sites?"""
    if v[0] == "U":
        return isinstance(v[1], str) and v[1].startswith("parameter")
    if v[0] == "A":
        return any(has_param_u(x) for x in v[1])
    if v[0] == "T":
        return any(has_param_u(x) for s in v[1] for x in s)
    return False


def radd(a, b):
    if a is None or b is None:
        return None
    if a in (N, Q) or b in (N, Q):
        if not (_d(a) and _d(b)):
            return None
        return Q if Q in (a, b) else N
    return a + b


def vadd(a, b):
    if a[0] == "U":
        return a
    if b[0] == "U":
        return b
    if a[0] == "V" and b[0] == "V":
        if a[1] != b[1] or len(a[2]) != len(b[2]):
            # data of another lane width added to an accumulator: fine when it carries no rounding
            if is_zero(b):
                return a
            if is_zero(a):
                return b
            return U("lane width mismatch in add")
        return V(a[1], [radd(x, y) for x, y in zip(a[2], b[2])])
    if a == ("S", ZERO) and b[0] in ("V", "P"):
        return b
    if b == ("S", ZERO) and a[0] in ("V", "P"):
        return a
    if a[0] == "S" and b[0] == "S":
        return ("S", radd(a[1], b[1]))
    if a[0] == "P" and b[0] == "P":
        return ("P", radd(a[1], b[1]), radd(a[2], b[2]))
    if a[0] == "S" and b[0] == "P" and is_zero(a):
        return b
    if a[0] == "P" and b[0] == "S" and is_zero(b):
        return a
    return U("add of %s and %s" % (a[0], b[0]))


VEC_BITS = [(r"^_mm256_", 256), (r"^_mm_", 128), (r"^v\w+q_", 128), (r"^v", 64),
            (r"^[iuf]\d+x\d+_|^v128_", 128)]


def vec_bits(name):
    for rx, b in VEC_BITS:
        if re.match(rx, name):
            return b
    return 128


class Eval:
    """position-aware evaluation directly on MIR operands (reaching definitions from Sym)"""

    def __init__(self, prog, fn, depth=0, params=None):
        self.prog = prog
        self.fn = fn
        self.sym = Sym(fn)
        self.busy = set()
        self.memo = {}
        self.depth = depth
        self.params = params or {}
        self.unknown_ops = set()
        self.tainted = set()
        self.force = {}
        self.choices = {}

    INT_TYS = ("i8", "i16", "i32", "i64", "u8", "u16", "u32", "u64", "usize", "isize", "i128", "u128")

    def _const_round(self, e):
        """Fraction r if e == 1 << (P - j) (or the literal 0), None otherwise"""
        e = strip(e)
        if e[0] == "ovf":
            e = strip(e[1])
        if e[0] == "const":
            if e[1] == 0:
                return ZERO
            return None
        if e[0] == "bin" and e[1] == "Shl" and strip(e[2])[0] == "const" and strip(e[2])[1] == 1:
            sh = strip(e[3])
            if sh[0] == "ovf":
                sh = strip(sh[1])
            if is_precision(sh):
                return Fraction(1)
            if sh[0] == "bin" and sh[1] == "Sub" and is_precision(sh[2]):
                j = strip(sh[3])
                if j[0] == "const" and isinstance(j[1], int) and 0 <= j[1] < 16:
                    return Fraction(1, 2 ** j[1])
            if sh[0] == "bin" and sh[1] == "Sub" and strip(sh[3])[0] == "const" and strip(sh[2])[0] != "const":
                # 1 << (x - j) with an x that is not recognised as the precision: a rounding
                # constant of unknown size (the sink must not be judged as if there were none)
                _UNKNOWN_ROUND.append(fmt(sh[2])[:60])
        return None

    # -- operands / places / locals
    def ev_op(self, op, at):
        k = op[0]
        if k in ("c", "m"):
            return self.ev_place(op[1], at)
        e = self.sym.operand(op, at)
        r = self._const_round(e)
        if r is not None:
            return {("S", r)}
        if e[0] == "const" and isinstance(e[1], (int, float)) and e[1] != 0:
            return {("S", N)}
        if e[0] == "const":
            return {("S", ZERO)}
        if e[0] == "static":
            st = self.prog.statics.get(e[1])
            if st and "bytes" in st and not any(st["bytes"]):
                return {("S", ZERO)}
        return {("S", N)}          # other constant expressions: plain numbers

    def _capture_overlay(self, k, vals):
        """stores of this closure into its k-th capture, overlaid on the captured value"""
        stored = set()
        for c in self.fn.calls():
            nm = c.method or short(c.name)
            if not self.STORES.match(nm) or len(c.args) < 2:
                continue
            dst = self.sym.operand(c.args[0], (c.bb, "term"))
            if not _mentions_capture(dst, k):
                continue
            stored |= {v for v in self.ev_op(c.args[1], (c.bb, "term")) if not is_rec(v)}
        if not stored:
            return vals
        out = set()
        for b in vals:
            for s in stored:
                if b[0] == "B" and s[0] == "S" and _d(s[1]):
                    s = V(32, [ZERO] * 4)
                if b[0] == "B" and s[0] == "V" and (b[1] in (0, s[1])):
                    out.add(B(s[1], list(s[2])[:len(b[2])] + list(b[2])[len(s[2]):]))
                elif s[0] == "U":
                    out.add(s)
                else:
                    out.add(U("store into a captured buffer that is not an array of lanes"))
        return out

    def ev_place(self, pl, at):
        base = self.ev_local(pl[0], at)
        payload = False
        if self.fn.kind == "closure" and pl[0] == 1:
            fs = [p for p in pl[1:] if isinstance(p, list) and p[0] == "f"]
            if fs:
                k = fs[0][1]
                vals = set()
                for v in base:
                    if not is_rec(v) and v[0] == "T" and k < len(v[1]):
                        vals |= set(v[1][k])
                    else:
                        vals.add(v)
                vals = self._capture_overlay(k, vals)
                rest = list(pl[1:])
                rest.remove(fs[0])
                base = vals
                pl = [pl[0]] + rest
        for p in pl[1:]:
            if p == "*":
                continue
            if isinstance(p, list) and p[0] == "dc":
                payload = True          # the next field is the variant's payload
                continue
            if payload and isinstance(p, list) and p[0] == "f":
                payload = False
                continue
            payload = False
            out = set()
            for v in base:
                if is_rec(v):
                    out.add(v)
                elif v[0] == "T" and isinstance(p, list) and p[0] == "f" and p[1] < len(v[1]):
                    out |= set(v[1][p[1]]) or {("S", ZERO)}
                elif v[0] == "T":
                    for s in v[1]:
                        out |= set(s)
                elif v[0] == "A":
                    out |= set(v[1]) or {("S", ZERO)}
                elif v[0] == "B" and isinstance(p, list) and p[0] == "ci" and not p[3] \
                        and p[1] < len(v[2]):
                    out.add(("S", v[2][p[1]]))      # element of a buffer written by a vector store
                elif v[0] == "B":
                    out |= {("S", r) for r in v[2]}
                else:
                    out.add(v)      # field 0 of a checked-arithmetic pair, struct of vectors, ...
            base = out
        return base

    def ev_local(self, l, at):
        key = (l, at)
        if key in self.memo:
            return self.memo[key]
        fn, sym = self.fn, self.sym
        if fn.local_ty(l) in self.INT_TYS:
            e = sym.local_at(l, at)
            r = self._const_round(e)
            if r is not None:
                return {("S", r)}
            if is_precision(e):
                return {("S", N)}
        defs = sym.defs.get(l, [])
        is_param = 1 <= l <= fn.arg_count
        if sym._mutborrowed is None:
            sym._scan_mut_borrows()
        if l in sym._mutborrowed and re.match(r"^\[[iu](32|64); \d+\]$", fn.local_ty(l) or ""):
            stored = self._stored_into(l)
            if stored is not None:
                self.memo[key] = stored
                return stored
        filled = self._filled(l)
        if filled is not None:
            self.memo[key] = filled
            return filled
        if sym._rd_eligible(l) and at is not None:
            ks = sorted(sym.reaching(l, at))
        else:
            ks = list(range(len(defs))) + ([-1] if is_param else [])
        if not ks:
            return {("S", ZERO)}
        out = set()
        complete = True
        for k in ks:
            if k == -1:
                out |= self.params.get(l) or self._param_default(l)
                continue
            if (l, k) in self.busy:
                out.add(("RECUR", l))
                complete = False
                continue
            (bb, j, rv, whole) = defs[k]
            self.busy.add((l, k))
            try:
                vals = self.ev_rvalue(rv, (bb, j))
            finally:
                self.busy.discard((l, k))
            if any(is_rec(v) and v[1] != l for v in vals):
                complete = False
            if whole:
                out |= vals
            else:
                out.add(mkA(vals))
        if any(isinstance(v, tuple) and v[0] == "A" for v in out) and len(out) > 1:
            elems = set()
            for v in out:
                if is_rec(v):
                    continue
                if v[0] == "A":
                    elems |= set(v[1])
                else:
                    elems.add(v)
            rec = [v for v in out if is_rec(v)]
            out = {mkA(elems)} | set(rec)
        # the markers of this local are resolved here: l = {non-recursive values} is the least
        # fixed point of  l = init | (l + data)
        out = {v for v in out if not (is_rec(v) and v[1] == l)} or {("S", ZERO)}
        if l in sym._mutborrowed and not is_param and self._borrowers_can_round(l):
            self.tainted.add(fn.local_name(l) or "_%d" % l)
        plain = sorted((v for v in out if not is_rec(v)), key=repr)
        if len(plain) > 1 and len(ks) > 1:
            ck = (l, tuple(ks))
            if ck in self.force and self.force[ck] in plain:
                out = {self.force[ck]} | {v for v in out if is_rec(v)}
            else:
                self.choices[ck] = plain
        if not any(is_rec(v) for v in out):
            self.memo[key] = out
        return out

    STORES = re.compile(r"^(_mm(256)?_storeu?_si(128|256)|vst1q?_[su](32|64)|v128_store)$")

    def _has_round_const(self, g, seen=None):
        """does function g (or a closure of it) contain a rounding constant 1 << (P - j)?"""
        seen = seen if seen is not None else set()
        if g.id in seen:
            return False
        seen.add(g.id)
        gs = Sym(g)
        for b, blk in enumerate(g.blocks):
            if blk["c"]:
                continue
            for j, st in enumerate(blk["s"]):
                if st[0] == "a" and st[2][0] == "bin" and st[2][1].startswith("Shl"):
                    r = self._const_round(gs.rvalue(st[2], b, (b, j)))
                    if r is not None and r != ZERO:
                        return True
        return any(self._has_round_const(c, seen) for c in g.closures())

    def _borrowers_can_round(self, l):
        """can a closure / callee that gets a mutable borrow of l add a rounding term to it?
        (only code that contains a rounding constant, or captures a value carrying one, can)"""
        key = ("borrowers", l)
        if key in self.memo:
            return self.memo[key]
        self.memo[key] = False
        me = ("local", l, self.fn.local_name(l))
        res = False
        for cl in self.fn.closures():
            if self._has_round_const(cl):
                res = True
        for c in self.fn.calls():
            tg = self.prog.call_targets(c)
            if not tg:
                continue
            if any(me in _atoms(self.sym.operand(a, (c.bb, "term"))) for a in c.args):
                if any(self._has_round_const(g) for g in tg):
                    res = True
        self.memo[key] = res
        return res

    def _filled(self, l):
        """content of a slice / Vec local that the function fills with `fill(v)`"""
        ty = self.fn.local_ty(l) or ""
        if not re.search(r"\[i(32|64)\]|Vec<i(32|64)>", ty):
            return None
        me = ("local", l, self.fn.local_name(l))
        out = set()
        for c in self.fn.calls():
            if (c.method or short(c.name)) != "fill" or len(c.args) != 2:
                continue
            dst = self.sym.operand(c.args[0], (c.bb, "term"))
            mine = self.sym.local(l)
            if me in _atoms(dst) or (_atoms(mine) and _atoms(mine) <= _atoms(dst) and mine != me):
                out |= {mkA([v]) for v in self.ev_op(c.args[1], (c.bb, "term")) if not is_rec(v)}
        return out or None

    def _stored_into(self, l):
        """value of the buffer local l: its initial array with the lanes written by vector
        stores overlaid (one alternative per stored shape), or None"""
        base = None
        whole = [d for d in self.sym.defs.get(l, []) if d[3]]
        if len(whole) == 1:
            bb, j, rv, _ = whole[0]
            if rv[0] == "agg" and rv[1] == "array":
                base = []
                for o in rv[4]:
                    vs = {v for v in self.ev_op(o, (bb, j)) if not is_rec(v)}
                    base.append(list(vs)[0][1] if len(vs) == 1 and list(vs)[0][0] == "S" else None)
            elif rv[0] == "rep":
                vs = {v for v in self.ev_op(rv[1], (bb, j)) if not is_rec(v)}
                m = re.match(r"^\[[iu](32|64); (\d+)\]$", self.fn.local_ty(l) or "")
                if m and len(vs) == 1 and list(vs)[0][0] == "S":
                    base = [list(vs)[0][1]] * int(m.group(2))
        if base is None:
            return None
        m = re.match(r"^\[[iu](32|64); (\d+)\]$", self.fn.local_ty(l) or "")
        ebits = int(m.group(1))
        out = set()
        for c in self.fn.calls():
            nm = c.method or short(c.name)
            if not self.STORES.match(nm) or len(c.args) < 2:
                continue
            dst = self.sym.operand(c.args[0], (c.bb, "term"))
            if ("local", l, self.fn.local_name(l)) not in _atoms(dst):
                continue
            stored = set()
            for v in self.ev_op(c.args[1], (c.bb, "term")):
                if not is_rec(v) and v[0] == "A":
                    stored |= set(v[1])
                else:
                    stored.add(v)
            for v in stored:
                if is_rec(v) or v[0] == "DONE":
                    continue
                if v[0] == "S" and _d(v[1]):
                    v = V(ebits, [ZERO] * (vec_bits(nm) // ebits))
                if v[0] != "V":
                    out.add(v if v[0] == "U" else U("store of a non-vector"))
                    continue
                lanes = list(v[2])
                if v[1] != ebits:
                    if v[1] == 32 and ebits == 64 and len(lanes) % 2 == 0:
                        return None
                    if all(_d(r) for r in lanes):
                        lanes = [ZERO] * (len(lanes) * v[1] // ebits)
                    else:
                        out.add(U("store of %d-bit lanes into a %d-bit buffer" % (v[1], ebits)))
                        continue
                merged = lanes[:len(base)] + base[len(lanes):]
                out.add(B(ebits, merged))
        return out or {B(ebits, base)}

    def _param_default(self, l):
        ty = self.fn.local_ty(l)
        if ty in self.INT_TYS:
            return {("S", Q)}
        if re.match(r"^&(mut )?\[i(32|64)\]$", ty):
            return {mkA([("S", Q)])}       # accumulators kept in memory, or coefficients
        if re.search(r"__m\d+|v128|int\d+x\d+|\[i(32|64); \d+\]", ty):
            return {U("parameter `%s` of %s (evaluated at the call sites instead)" % (
                self.fn.local_name(l), self.fn.name.rsplit("::", 1)[-1]))}
        if self._struct_with_ints(ty):
            return {U("parameter `%s` of %s (a struct with integer fields; evaluated at the "
                      "call sites instead)" % (self.fn.local_name(l),
                                               self.fn.name.rsplit("::", 1)[-1]))}
        return {("S", ZERO)}

    def _struct_with_ints(self, ty):
        """is `ty` (by value or behind a reference) a crate-local plain struct that has an
        i32/i64 field or an array/slice of them (it may carry a rounding constant)?"""
        base = re.sub(r"^&(?:'\w+ )?(?:mut )?", "", ty or "").strip()
        base = re.sub(r"<.*$", "", base)
        if not base or base in self.INT_TYS:
            return False
        for k, a in self.prog.adts.items():
            if a.get("kind") == "Struct" and (a["name"] == base or k.endswith("::" + base)):
                for fld in a["variants"][0]["fields"]:
                    if re.search(r"(^|[\[& ])i(32|64)\b", fld[1]):
                        return True
        return False

    def ev_rvalue(self, rv, at):
        k = rv[0]
        if k == "use":
            return self.ev_op(rv[1], at)
        if k in ("ref", "raw"):
            return self.ev_place(rv[2], at)
        if k == "cast":
            out = set()
            for v in self.ev_op(rv[2], at):
                if not is_rec(v) and v[0] == "P" and rv[3] in ("i32", "u32"):
                    out.add(("S", v[1]))
                else:
                    out.add(v)
            return out
        if k == "bin":
            e = self.sym.rvalue(rv, at[0], at)
            r = self._const_round(e)
            if r is not None:
                return {("S", r)}
            return self._bin(rv[1].replace("WithOverflow", ""), rv[2], rv[3], at)
        if k == "un":
            return self.ev_op(rv[2], at)
        if k == "agg":
            if rv[1] == "closure":
                return {("C", rv[2], tuple(frozenset(v for v in self.ev_op(o, at) if not is_rec(v))
                                           for o in rv[4]))}
            if rv[1] == "array" and rv[4]:
                sets = [{v for v in self.ev_op(o, at) if not is_rec(v)} for o in rv[4]]
                if all(len(s) == 1 and list(s)[0][0] == "S" for s in sets) and \
                        any(list(s)[0][1] not in (ZERO, N) for s in sets):
                    return {B(0, [list(s)[0][1] for s in sets])}
            if rv[1] == "tuple" and rv[4]:
                return {("T", tuple(frozenset(v for v in self.ev_op(o, at) if not is_rec(v))
                                    for o in rv[4]))}
            if rv[1] in ("array", "tuple"):
                elems = set()
                for o in rv[4]:
                    elems |= {v for v in self.ev_op(o, at) if not is_rec(v)}
                return {mkA(elems)}
            if rv[1] == "adt":
                elems = set()
                for o in rv[4]:
                    elems |= {v for v in self.ev_op(o, at) if not is_rec(v)}
                if all(is_zero(v) for v in elems):
                    return {("S", ZERO)}
                adt = self.prog.adts.get(rv[2]) if isinstance(rv[2], str) else None
                if adt and adt.get("kind") == "Struct" and rv[4]:
                    # a plain struct keeps its fields apart (a rounding constant that travels
                    # in a field is read back by the field projection)
                    return {("T", tuple(frozenset(v for v in self.ev_op(o, at) if not is_rec(v))
                                        for o in rv[4]))}
                return {("A", frozenset(elems))}
            return {("S", ZERO)}
        if k == "rep":
            return {mkA(self.ev_op(rv[1], at))}
        if k == "callret":
            return self._call(rv[1])
        return {("S", ZERO)}

    def _bin(self, op, a, b, at):
        A, B = self.ev_op(a, at), self.ev_op(b, at)
        cb = strip(self.sym.operand(b, at))
        cval = cb[1] if cb[0] == "const" else None
        out = set()
        for x in A:
            for y in B:
                if is_rec(x) or is_rec(y):
                    o = y if is_rec(x) else x
                    if is_rec(x) and is_rec(y):
                        out.add(x)
                    elif op in ("Add", "Sub") and is_zero(o):
                        out.add(x if is_rec(x) else y)
                    else:
                        out.add(U("loop-carried value combined with a rounding term"))
                    continue
                if op == "Add":
                    out.add(vadd(x, y))
                elif op == "Shr" and x[0] == "P" and cval == 32:
                    out.add(("S", x[2]))
                elif op == "BitAnd" and x[0] == "P" and cval == 0xffffffff:
                    out.add(("S", x[1]))
                elif is_zero(x) and is_zero(y):
                    out.add(("S", N) if (x == ("S", N) or y == ("S", N)) else ("S", ZERO))
                elif op == "Sub" and is_zero(y):
                    out.add(x)
                elif x[0] == "U":
                    out.add(x)
                elif y[0] == "U":
                    out.add(y)
                elif x == ("S", None) or y == ("S", None):
                    out.add(("S", None))
                else:
                    out.add(U("scalar %s on a rounding term" % op))
        return out

    # -- intrinsics
    def _call(self, call):
        n = call.method or short(call.name)
        at = (call.bb, "term")
        cg = tuple(x for x in call.cargs() if isinstance(x, int))
        argv = [self.ev_op(x, at) for x in call.args]
        out = set()
        combos = [()]
        for s in argv:
            combos = [c + (v,) for c in combos for v in s][:64]
        for c in combos:
            out.add(self._apply(call, n, call.args, cg, list(c)))
        return out

    def _apply(self, call, n, a, cg, v):
        if any(is_rec(x) for x in v):
            rec = [x for x in v if is_rec(x)][0]
            others = [x for x in v if not is_rec(x)]
            if re.search(r"(^|_)(add|adds|mla|mlal|dot)(_|$)|^vmlal|^vmla|saturating_add|wrapping_add|^vpadal", n) \
                    and all(is_zero(x) for x in others):
                return rec
            if n in ("into_iter", "iter", "next", "by_ref", "unwrap", "deref", "clone", "map", "as_mut", "index",
                     "index_mut", "get_unchecked", "get_unchecked_mut"):
                return rec
            return U("loop-carried value through %s" % n)
        for x in v:
            if isinstance(x, tuple) and x[0] == "U":
                return x
        vb = vec_bits(n)
        if SHIFT_SINK.match(n) and not cg and v and v[0][0] in ("V", "DONE"):
            return ("DONE",)            # already normalised (a sink of its own)
        v = [("S", ZERO) if x[0] == "DONE" else x for x in v]
        # ---- constants
        m = re.match(r"^(_mm(256)?_set1_epi(32|64x?)|vdupq?_n_[su](32|64)|[iu](32x4|64x2)_splat)$", n)
        if m and len(v) == 1 and v[0][0] == "S":
            bits = 64 if "64" in n else 32
            return V(bits, [v[0][1]] * (vb // bits))
        if re.match(r"^(_mm(256)?_setzero_si\d+)$", n):
            return V(32, [ZERO] * (vb // 32))
        m = re.match(r"^_mm(256)?_set(r?)_epi(32|64x)$", n)
        if m and all(x[0] == "S" for x in v):
            lanes = [x[1] for x in v]
            if not m.group(2):
                lanes = lanes[::-1]
            return V(64 if "64" in n else 32, lanes)
        if re.match(r"^[iu]32x4$", n) and len(v) == 4 and all(x[0] == "S" for x in v):
            return V(32, [x[1] for x in v])
        if re.match(r"^[iu]64x2$", n) and len(v) == 2 and all(x[0] == "S" for x in v):
            return V(64, [x[1] for x in v])
        # ---- lane-wise addition
        if re.match(r"^(_mm(256)?_add_epi(32|64)|vaddq?_[su](32|64)|[iu](32x4|64x2)_add)$", n) and len(v) == 2:
            return vadd(v[0], v[1])
        if n in ("add", "offset", "sub") and "ptr" in call.name:
            return v[0]
        if n in ("saturating_add", "wrapping_add", "add") and len(v) == 2:
            return vadd(v[0], v[1])
        # ---- multiply-accumulate (accumulator first)
        if re.match(r"^(vmlal_(high_)?(lane_|laneq_)?[su]\d+|vmlaq?_[su]\d+|vpadalq?_[su]\d+)$", n) and v:
            if all(is_zero(x) for x in v[1:]):
                return v[0]
            return U(n + " with a rounding term as a factor")
        # ---- horizontal
        if re.match(r"^_mm(256)?_hadd_epi32$", n) and len(v) == 2 and v[0][0] == "V" and v[1][0] == "V":
            A, B = v[0][2], v[1][2]
            out = []
            for h in range(0, len(A), 4):
                out += [radd(A[h], A[h + 1]), radd(A[h + 2], A[h + 3]),
                        radd(B[h], B[h + 1]), radd(B[h + 2], B[h + 3])]
            return V(32, out)
        if re.match(r"^vpaddq_[su]32$", n) and len(v) == 2 and v[0][0] == "V" and v[1][0] == "V":
            A, B = v[0][2], v[1][2]
            return V(32, [radd(A[0], A[1]), radd(A[2], A[3]), radd(B[0], B[1]), radd(B[2], B[3])])
        if re.match(r"^vpadd_[su]32$", n) and len(v) == 2 and v[0][0] == "V" and v[1][0] == "V":
            A, B = v[0][2], v[1][2]
            return V(32, [radd(A[0], A[1]), radd(B[0], B[1])])
        if re.match(r"^vpaddlq_[su]32$", n) and v and v[0][0] == "V":
            A = v[0][2]
            return V(64, [radd(A[0], A[1]), radd(A[2], A[3])])
        if re.match(r"^vaddvq?_[su](32|64)$", n) and v and v[0][0] == "V":
            s = ZERO
            for r in v[0][2]:
                s = radd(s, r)
            return ("S", s)
        # ---- moves
        if re.match(r"^_mm(256)?_shuffle_epi32$", n) and v and v[0][0] == "V" and cg:
            A, imm = v[0][2], cg[0]
            if v[0][1] == 64:
                # 64-bit lanes moved as pairs of dwords
                sel = [(imm >> (2 * i)) & 3 for i in range(4)]
                if sel[0] % 2 == 0 and sel[1] == sel[0] + 1 and sel[2] % 2 == 0 and sel[3] == sel[2] + 1:
                    out = []
                    for h in range(0, len(A), 2):
                        out += [A[h + sel[0] // 2], A[h + sel[2] // 2]]
                    return V(64, out)
                return U("shuffle_epi32 splitting 64-bit lanes")
            out = []
            for h in range(0, len(A), 4):
                out += [A[h + ((imm >> (2 * i)) & 3)] for i in range(4)]
            return V(32, out)
        m = re.match(r"^_mm(256)?_unpack(lo|hi)_epi(32|64)$", n)
        if m and len(v) == 2 and v[0][0] == "V" and v[1][0] == "V" and v[0][1] == v[1][1] \
                and int(m.group(3)) % v[0][1] == 0:
            A, B = v[0][2], v[1][2]
            g = int(m.group(3)) // v[0][1]          # lanes moved together
            per = 128 // v[0][1]
            out = []
            for h in range(0, len(A), per):
                half = per // 2
                base = h + (0 if m.group(2) == "lo" else half)
                for i in range(0, half, g):
                    out += list(A[base + i: base + i + g]) + list(B[base + i: base + i + g])
            return V(v[0][1], out)
        if re.match(r"^_mm256_extract[if]128_(si256|ps)$", n) and v and v[0][0] == "V" and cg:
            A = v[0][2]
            h = len(A) // 2
            return V(v[0][1], A[h * cg[0]: h * cg[0] + h])
        if re.match(r"^_mm256_castsi256_si128$", n) and v and v[0][0] == "V":
            A = v[0][2]
            return V(v[0][1], A[:len(A) // 2])
        if re.match(r"^_mm256_castsi128_si256$", n) and v and v[0][0] == "V":
            A = v[0][2]
            return V(v[0][1], list(A) + [None] * len(A))
        if re.match(r"^_mm256_broadcastsi128_si256$", n) and v and v[0][0] == "V":
            return V(v[0][1], list(v[0][2]) * 2)
        if re.match(r"^_mm256_set_m128i$", n) and len(v) == 2 and v[0][0] == "V" and v[1][0] == "V":
            return V(v[0][1], list(v[1][2]) + list(v[0][2]))
        if re.match(r"^_mm256_insert[if]128_si256$", n) and len(v) == 2 and v[0][0] == "V" and v[1][0] == "V" and cg:
            A, B = list(v[0][2]), list(v[1][2])
            h = len(A) // 2
            A[h * cg[0]: h * cg[0] + h] = B
            return V(v[0][1], A)
        if re.match(r"^_mm_(b?srli_si128)$", n) and v and v[0][0] == "V" and cg:
            A, by = list(v[0][2]), cg[0]
            step = v[0][1] // 8
            if by % step == 0:
                sft = by // step
                return V(v[0][1], A[sft:] + [ZERO] * sft)
            return U("byte shift inside a lane")
        if re.match(r"^_mm_extract_epi32$", n) and v and v[0][0] == "V" and cg and v[0][1] == 32:
            return ("S", v[0][2][cg[0]])
        if re.match(r"^_mm_cvtsi128_si32$", n) and v and v[0][0] == "V" and v[0][1] == 32:
            return ("S", v[0][2][0])
        if re.match(r"^_mm_extract_epi64$", n) and v and v[0][0] == "V" and cg:
            A = v[0][2]
            if v[0][1] == 32:
                return ("P", A[2 * cg[0]], A[2 * cg[0] + 1])
            return ("S", A[cg[0]])
        if re.match(r"^_mm_cvtsi128_si64$", n) and v and v[0][0] == "V":
            A = v[0][2]
            return ("P", A[0], A[1]) if v[0][1] == 32 else ("S", A[0])
        if re.match(r"^vget_(low|high)_[su](32|64)$", n) and v and v[0][0] == "V":
            A = v[0][2]
            h = len(A) // 2
            return V(v[0][1], A[:h] if "low" in n else A[h:])
        if re.match(r"^vcombine_[su](32|64)$", n) and len(v) == 2 and v[0][0] == "V" and v[1][0] == "V":
            return V(v[0][1], list(v[0][2]) + list(v[1][2]))
        if re.match(r"^vgetq?_lane_[su](32|64)$", n) and v and v[0][0] == "V" and cg:
            return ("S", v[0][2][cg[0]])
        if re.match(r"^[iu](32x4|64x2)_extract_lane$", n) and v and v[0][0] == "V" and cg:
            return ("S", v[0][2][cg[0]])
        if re.match(r"^[iu]32x4_shuffle$", n) and len(v) == 2 and v[0][0] == "V" and v[1][0] == "V" and len(cg) == 4:
            cat = list(v[0][2]) + list(v[1][2])
            return V(32, [cat[i] for i in cg])
        if re.match(r"^[iu]64x2_shuffle$", n) and len(v) == 2 and v[0][0] == "V" and v[1][0] == "V" and len(cg) == 2:
            cat = list(v[0][2]) + list(v[1][2])
            return V(64, [cat[i] for i in cg])
        if re.match(r"^vreinterpretq?_[su](32|64)_[su](32|64)$", n) and v:
            a_, b_ = re.findall(r"(32|64)", n)
            if a_ == b_:
                return v[0]
        if n in ("transmute", "clone", "into", "from", "unwrap", "deref", "as_ref", "borrow", "copied", "cloned"):
            return v[0] if v else ("S", ZERO)
        if n in ("into_iter", "iter", "iter_mut", "next", "by_ref", "get_unchecked", "get_unchecked_mut", "index",
                 "index_mut", "as_mut", "as_slice"):
            return v[0] if v else ("S", ZERO)
        if n == "map" and len(v) == 2 and v[1][0] == "C" and self.depth < 3:
            cl = self.prog.fns.get(v[1][1])
            if cl is not None:
                elems = set()
                if v[0][0] == "A":
                    elems = set(v[0][1])
                elif v[0][0] == "B":
                    elems = {("S", r) for r in v[0][2]}
                else:
                    elems = {v[0]}
                sub = Eval(self.prog, cl, self.depth + 1, {1: {("T", v[1][2])}, 2: elems})
                outs = set()
                for (bb, j, rv, whole) in cl.defs().get(0, []):
                    outs |= sub.ev_rvalue(rv, (bb, j))
                outs = {x for x in outs if not is_rec(x)}
                self.tainted |= sub.tainted
                return mkA(outs)
        if n == "from_elem" and v:
            return mkA([v[0]])
        if n in ("as_ptr", "as_mut_ptr", "cast", "as_mut_slice", "as_slice", "deref_mut") and v:
            return v[0]
        m = re.match(r"^(vld1q?_[su](32|64)(_x[234])?|v128_load|read_unaligned)$", n)
        if m and v and v[0][0] == "A" and (not is_zero(v[0]) or has_q(v[0])):
            rs = set()
            for x in v[0][1]:
                rs |= set(lanes_of(x))
            bits = int(m.group(2)) if m.group(2) else 32
            if len(rs) == 1:
                return V(bits, [list(rs)[0]] * max(1, vb // bits))
            return U("load from a buffer whose elements carry different rounding terms")
        if n == "enumerate" and v:
            return ("T", (frozenset({("S", N)}), frozenset({v[0]})))
        if n == "zip" and len(v) == 2:
            return ("T", (frozenset({v[0]}), frozenset({v[1]})))
        if n in ("copied", "cloned", "rev", "skip", "take", "step_by", "peekable", "fuse", "iter_mut",
                 "as_mut_slice", "as_ref", "as_mut", "chunks_exact", "chunks_exact_mut", "remainder",
                 "into_remainder") and v:
            return v[0]
        if n == "sum" and v and v[0][0] in ("V", "B"):
            s = ZERO
            for r in v[0][2]:
                s = radd(s, r)
            return ("S", s)
        if n == "sum" and v and v[0][0] == "A":
            return U("sum over a buffer")
        # ---- crate helpers: evaluate the callee's return value with the arguments bound
        tgts = self.prog.call_targets(call)
        tgt = tgts[0] if len(tgts) == 1 else None
        if tgt is not None and self.depth < 3 and (
                not all(is_zero(x) and not has_q(x) for x in v) or self._has_round_const(tgt)):
            sub = Eval(self.prog, tgt, self.depth + 1, {i + 1: {x} for i, x in enumerate(v)})
            outs = set()
            for (bb, j, rv, whole) in tgt.defs().get(0, []):
                outs |= sub.ev_rvalue(rv, (bb, j))
            outs = {x for x in outs if not is_rec(x)}
            self.unknown_ops |= sub.unknown_ops
            if len(outs) == 1:
                return outs.pop()
            if outs and all(is_zero(x) for x in outs):
                return ("S", N)
            return U("helper %s returns %d different shapes" % (n, len(outs)))
        # ---- anything else: data in, data out
        if all(is_zero(x) for x in v) and any(has_q(x) for x in v) and not re.match(
                r"^(_mm|v[a-z]+\d*q?_|[iuf]\d+x\d+_|v128_|load|mm_|mm256_|ptr_|add$|offset$|"
                r"get_unchecked|as_ptr|as_mut_ptr|read_unaligned|len$)", n) \
                and self.prog.call_targets(call) == []:
            return U("integer parameter passed through %s" % n)
        if all(is_zero(x) for x in v):
            out_bits = 64 if re.search(r"epi64|[su]64|64x2", n) else 32
            if re.match(r"^(_mm|v[a-z]|[iuf]\d+x\d+_|v128_)", n) and not re.search(
                    r"extract|cvtsi128|get_lane|getq_lane|addv|movemask", n):
                return V(out_bits, [ZERO] * (vb // out_bits))
            return ("S", ZERO)
        self.unknown_ops.add(n)
        return U("operation %s on a value that carries a rounding term" % n)


def eval_sink(prog, f, params, op, at, depth=0):
    """values of a sink operand; alternatives that stem from one choice point (one local with
    several reaching values) are chosen consistently"""
    ev = Eval(prog, f, depth, params)
    vals = {v for v in ev.ev_op(op, at) if not is_rec(v)}
    tainted = set(ev.tainted)
    if len(vals) > 1 and ev.choices:
        keys = sorted(ev.choices, key=repr)
        n = 1
        for k in keys:
            n *= len(ev.choices[k])
        if n <= 64:
            import itertools
            out = set()
            for combo in itertools.product(*[ev.choices[k] for k in keys]):
                w = Eval(prog, f, depth, params)
                w.force = dict(zip(keys, combo))
                out |= {v for v in w.ev_op(op, at) if not is_rec(v)}
                tainted |= w.tainted
            vals = out
    return vals, tainted


SHIFT_SINK = re.compile(r"^(_mm(256)?_sra[i]?_epi32|_mm(256)?_srai_epi64|[iu](32x4|64x2)_shr|"
                        r"vshrq?_n_s(32|64)|vshlq?_s(32|64))$")


def budget(rep, prog, rule, floor=40):
    rep.rule(rule, "in every fixed-point convolution kernel the value handed to the final "
             "normalisation (vector arithmetic shift by the precision, or Normalizer::clip) "
             "carries a rounding term of exactly 1 << (precision - 1) in every lane: the lane "
             "constants 1 << (precision - j) of all accumulators and the horizontal additions / "
             "extractions that merge lanes are followed through the expression DAG (rounding "
             "content per lane as a fraction of 2^precision; data contributes 0). A total other "
             "than one half biases every output (a full unit turns round() into floor()+1 and "
             "lets a constant image leave its value)")
    global _PROG
    _PROG = prog
    n = 0
    for f in sorted(prog.fns.values(), key=lambda x: x.id):
        if not re.match(r"^convolution::(u8x\d|u16x\d|vertical_u8|vertical_u16|i32x1)::", f.name):
            continue
        sinks = []
        for c in f.calls():
            nm = c.method or short(c.name)
            if SHIFT_SINK.match(nm):
                gen = [x for x in c.cargs() if not isinstance(x, int)]
                sym_ = None
                if gen:
                    sinks.append((c, 0, "shift"))
                elif len(c.args) > 1:
                    sinks.append((c, 0, "shift?"))
            elif nm == "clip" and "Normalizer" in c.name and len(c.args) == 2:
                sinks.append((c, 1, "clip"))
        if not sinks:
            continue
        rep.touch(f)
        evl = Eval(prog, f)
        for c, ai, kind in sinks:
            at = (c.bb, "term")
            if kind == "shift?":
                amt = evl.sym.operand(c.args[1], at)
                if not is_precision(amt) and "precision" not in fmt(amt).lower():
                    continue
            n += 1
            key = "%s|%s@%s" % (f.name, c.method or short(c.name), _sink_id(f, c))
            del _UNKNOWN_ROUND[:]
            vals, tainted = eval_sink(prog, f, None, c.args[ai], at)
            if f.kind == "closure" or any(has_param_u(v) or has_q(v) for v in vals):
                r2 = via_callers(prog, f, c, ai)
                if r2 is not None:
                    vals, tainted = r2
            verdict, text = judge(vals)
            if verdict == "bad" and _UNKNOWN_ROUND:
                verdict, text = "unk", "%s (a constant 1 << (%s - j) feeds the accumulator, but `%s` is not " \
                    "recognised as the precision)" % (text, _UNKNOWN_ROUND[0], _UNKNOWN_ROUND[0])
            if verdict == "bad" and tainted:
                verdict, text = "unk", "%s (accumulator %s is also modified through a mutable " \
                    "borrow that is not followed)" % (text, sorted(tainted)[0])
            if verdict == "ok":
                rep.ok(rule, key, c.at, text)
            elif verdict == "bad":
                rep.bad(rule, key + "|budget", c.at, "%s: %s" % (f.name, text))
            else:
                rep.unk(rule, key, c.at, text)
    rep.floor(rule, "normalisation sinks", n, floor)
    return n


def cl_caps(pe, parent, cid):
    """abstract values of the captures of closure `cid` built in `parent`"""
    for b, blk in enumerate(parent.blocks):
        for j, st in enumerate(blk["s"]):
            if st[0] == "a" and st[2][0] == "agg" and st[2][1] == "closure" and st[2][2] == cid:
                return tuple(frozenset(v for v in pe.ev_op(o, (b, j)) if not is_rec(v))
                             for o in st[2][4])
    return ()


def contexts(prog, f, depth=3, _seen=()):
    """parameter bindings of f, one per chain of call sites (bounded); closures handed to
    `map` are bound to the elements of the mapped array"""
    if depth == 0 or f.id in _seen:
        return [{}]
    out = []
    if f.kind == "closure":
        parent = prog.fns.get(f.d.get("parent"))
        if parent is None:
            return [{}]
        for pctx in contexts(prog, parent, depth - 1, _seen + (f.id,)):
            pe = Eval(prog, parent, 0, pctx)
            for c in parent.calls():
                if (c.method or short(c.name)) != "map" or len(c.args) != 2:
                    continue
                cl = pe.sym.operand(c.args[1], (c.bb, "term"))
                if not (cl[0] == "agg" and cl[1] == "closure" and cl[2] == f.id):
                    continue
                recv = {v for v in pe.ev_op(c.args[0], (c.bb, "term")) if not is_rec(v)}
                elems = set()
                for v in recv:
                    if v[0] == "A":
                        elems |= set(v[1])
                    elif v[0] == "B":
                        elems |= {("S", r) for r in v[2]}
                    else:
                        elems.add(v)
                out.append({1: {("T", cl_caps(pe, parent, f.id))}, 2: elems})
        return out[:16] or [{}]
    sites = prog.callers().get(f.id, [])
    for cs in sites:
        g = cs.fn
        for gctx in contexts(prog, g, depth - 1, _seen + (f.id,)):
            ge = Eval(prog, g, 0, gctx)
            out.append({i + 1: {v for v in ge.ev_op(a, (cs.bb, "term")) if not is_rec(v)}
                        for i, a in enumerate(cs.args)})
            if len(out) >= 16:
                return out
    return out or [{}]


def via_callers(prog, f, c, ai):
    """evaluate the sink of helper f once per calling context, with the arguments bound"""
    ctxs = contexts(prog, f)
    if ctxs == [{}]:
        return None
    out, tainted = set(), set()
    for ctx in ctxs:
        vals, tt = eval_sink(prog, f, ctx, c.args[ai], (c.bb, "term"), 1)
        out |= vals
        tainted |= tt
    return out, tainted


def _sink_id(f, c):
    """stable ordinal of the call among the function's calls of the same name"""
    same = [x for x in f.calls() if x.name == c.name]
    return "#%d" % same.index(c) if c in same else "#?"


def lanes_of(v):
    if v[0] == "DONE":
        return []
    if v[0] == "T":
        out = []
        for s in v[1]:
            for x in s:
                out += lanes_of(x)
        return out
    if v[0] in ("V", "B"):
        return list(v[2])
    if v[0] == "S":
        return [v[1]]
    if v[0] == "P":
        return [v[1], v[2]]
    if v[0] == "A":
        out = []
        for x in v[1]:
            out += lanes_of(x)
        return out
    return [None]


def judge(vals):
    if not vals:
        return "unk", "operand not evaluated"
    unk = [v for v in vals if v[0] == "U"]
    lanes = []
    for v in vals:
        if v[0] != "U":
            lanes += lanes_of(v)
    if not unk and lanes and all(r == HALF for r in lanes):
        return "ok", "rounding term 1/2 unit in all %d lane value(s) over %d reaching shape(s)" % (
            len(lanes), len(vals))
    if any(r in (Q, N) for r in lanes):
        return "unk", "the value depends on an integer that is not resolved to a rounding term"
    known = [r for r in lanes if r is not None]
    if not unk and lanes and len(known) == len(lanes) and all(r != HALF for r in lanes):
        r = known[0]
        return "bad", ("the rounding terms that reach the final shift total %s of an output unit "
                       "instead of 1/2 (lanes: %s)" % (r, ", ".join(str(x) for x in sorted(set(known)))))
    # per shape: a reaching shape whose lanes are all known and all wrong is a definite path
    for v in vals:
        if v[0] == "U":
            continue
        ls = lanes_of(v)
        if ls and all(r is not None and r != HALF for r in ls):
            return "bad", ("on one path the rounding terms that reach the final shift total %s of "
                           "an output unit instead of 1/2" % ", ".join(str(x) for x in sorted(set(ls))))
    if unk:
        return "unk", unk[0][1]
    return "unk", "lanes carry different rounding terms: %s" % sorted(
        set(str(x) for x in lanes))
