"""E8 — compile-fail witnesses (the type checker as the analysis). Twins are `no_run`:
nothing of the crate is executed, the doctest harness only type-checks them."""
import os
import re
import shutil
import subprocess

from ..facts import CACHE, REPO, VERIF, CheckError, tree_hash

_memo = {}


def run(repo=None):
    """returns {witness: [(line, kind, ok)]}; kind = 'compile_fail' | 'twin'"""
    repo = repo or REPO
    key = tree_hash(repo)
    if key in _memo:
        return _memo[key]
    src = os.path.join(VERIF, "witness")
    work = os.path.join(CACHE, "witness-crate")
    os.makedirs(os.path.join(work, "src"), exist_ok=True)
    shutil.copy(os.path.join(src, "src", "lib.rs"), os.path.join(work, "src", "lib.rs"))
    with open(os.path.join(src, "Cargo.toml")) as fh:
        toml = fh.read().replace('path = "/repo"', 'path = "%s"' % repo)
    with open(os.path.join(work, "Cargo.toml"), "w") as fh:
        fh.write(toml)
    shutil.copy(os.path.join(repo, "Cargo.lock"), os.path.join(work, "Cargo.lock"))
    env = dict(os.environ, CARGO_NET_OFFLINE="true",
               CARGO_TARGET_DIR=os.path.join(CACHE, "target", "witness"))
    env.pop("RUSTC_WORKSPACE_WRAPPER", None)
    p = subprocess.run(["cargo", "+nightly", "test", "--doc", "--offline"], cwd=work, env=env,
                       stdout=subprocess.PIPE, stderr=subprocess.STDOUT, text=True)
    res = {}
    for m in re.finditer(r"^test src/lib.rs - (W\d+) \(line (\d+)\)( - compile fail| - compile)? "
                         r"\.\.\. (\w+)", p.stdout, re.M):
        kind = "compile_fail" if (m.group(3) or "").endswith("fail") else "twin"
        res.setdefault(m.group(1), []).append((int(m.group(2)), kind, m.group(4) == "ok"))
    if not res:
        raise CheckError("witness crate produced no results:\n%s" % p.stdout[-3000:])
    _memo[key] = res
    return res


WHAT = {
    "W1": "set_cpu_extensions (Resizer, MulDiv) requires `unsafe` (E0133)",
    "W2": "InnerPixel is sealed: pixels::private::Sealed cannot be named (E0603)",
    "W3": "UnsafeImageMut is not nameable outside the crate (E0603)",
    "W4": "change_type_of_pixel_components_typed rejects different component counts (E0271)",
    "W5": "parts of split_by_{height,width}_mut keep the parent mutably borrowed (E0499)",
    "W6": "a read-only view is not accepted as destination (E0277)",
    "W7": "CroppedSrcImageView / Normalizer16 / check_crop_box are not reachable from outside (E0603)",
}
EXPECTED = {"W1": (2, 2), "W2": (1, 1), "W3": (1, 1), "W4": (1, 1), "W5": (2, 1), "W6": (1, 1),
            "W7": (3, 1)}


def report(rep, rule, names, repo=None):
    rep.rule(rule, "compile_fail,E0xxx doctests (each with a compiling no_run twin) against the "
             "crate as an external user sees it: " + "; ".join(WHAT[n] for n in names))
    res = run(repo)
    for n in names:
        rows = res.get(n, [])
        cf = [r for r in rows if r[1] == "compile_fail"]
        tw = [r for r in rows if r[1] == "twin"]
        exp = EXPECTED[n]
        if len(cf) < exp[0] or len(tw) < exp[1]:
            raise CheckError("witness %s: %d compile_fail / %d twins found, expected %s"
                             % (n, len(cf), len(tw), exp))
        if not all(r[2] for r in tw):
            raise CheckError("witness %s: a compiling twin does not compile any more (API "
                             "changed?); the witness is void" % n)
        if all(r[2] for r in cf):
            rep.ok(rule, n, "witness/src/lib.rs", WHAT[n])
        else:
            rep.bad(rule, n, "witness/src/lib.rs", "the violating program now COMPILES: %s no "
                    "longer holds (lines %s)" % (WHAT[n], [r[0] for r in cf if not r[2]]))
