"""Row coverage of kernels that process destination rows in groups of N (iter_N_rows_mut):
the rows after the last full group must be processed, starting exactly at h - h % N, paired
with source rows shifted by the pass offset."""
import re

from ..sym import Sym, fmt, short


def _strip(e):
    while isinstance(e, tuple) and e and e[0] in ("cast", "ovf"):
        e = e[2] if e[0] == "cast" else e[1]
    return e


def _is_height_of_dst(e, dst):
    e = _strip(e)
    return e[0] == "call" and e[1] == "height" and e[2] and _strip(e[2][0]) == dst


def group_tail(rep, prog, rule):
    rep.rule(rule, "a kernel wrapper that walks the destination in groups of N rows "
             "(iter_N_rows_mut) pairs them with source groups of the same N starting at the pass "
             "offset, and processes the remaining rows from exactly h - h % N (source rows from "
             "that + offset); taking the tail from ArrayChunks::into_remainder is only sound when "
             "the source chunk iterator is limited to the destination's height (a remainder exists "
             "only after exhaustion)")
    n = 0
    for f in sorted(prog.fns.values(), key=lambda x: x.id):
        if f.kind == "closure" or not re.match(r"^(convolution|alpha)::", f.name):
            continue
        groups = [c for c in f.calls() if c.method in ("iter_2_rows_mut", "iter_4_rows_mut")]
        if not groups:
            continue
        n += 1
        rep.touch(f)
        sym = Sym(f)
        g = groups[0]
        N = int(g.method.split("_")[1])
        dst = _strip(sym.operand(g.args[0]))
        key = f.name
        sgroups = [c for c in f.calls() if c.method in ("iter_2_rows", "iter_4_rows")]
        off = None
        ok = True
        for c in sgroups:
            if int(c.method.split("_")[1]) != N:
                rep.bad(rule, key + "|group-size", c.at, "source rows are grouped by %s but "
                        "destination rows by %d" % (c.method, N))
                ok = False
            off = _strip(sym.operand(c.args[1]))
        tails = [c for c in f.calls() if c.method == "iter_rows_mut"]
        stails = [c for c in f.calls() if c.method == "iter_rows"]
        rems = [c for c in f.calls() if short(c.name) == "into_remainder"]
        if tails:
            for t in tails:
                T = _strip(sym.operand(t.args[1]))
                good = (T[0] == "bin" and T[1] == "Sub" and _is_height_of_dst(T[2], dst)
                        and _strip(T[3])[0] == "bin" and _strip(T[3])[1] == "Rem"
                        and _is_height_of_dst(_strip(T[3])[2], dst))
                if good:
                    m = _strip(_strip(T[3])[3])
                    if m == ("const", N, "u32"):
                        rep.ok(rule, key + "|tail", t.at, "tail from h - h %% %d" % N)
                    else:
                        ok = False
                        rep.bad(rule, key + "|tail", t.at, "groups of %d rows but the tail starts "
                                "at h - h %% %s: rows are skipped or processed twice" % (N, fmt(m)))
                else:
                    rep.unk(rule, key + "|tail", t.at, "tail starts at %s" % fmt(T)[:80])
                    continue
                # source tail alignment
                for s_ in stails:
                    S = _strip(sym.operand(s_.args[1]))
                    if off is not None and off[0] != "const":
                        aligned = (S[0] == "bin" and S[1] == "Add" and
                                   {_strip(S[2]), _strip(S[3])} == {T, off})
                        if aligned:
                            rep.ok(rule, key + "|src-tail", s_.at, "source tail from tail + offset")
                        elif S == T:
                            ok = False
                            rep.bad(rule, key + "|src-tail", s_.at, "the source rows of the tail "
                                    "start at %s without the pass offset %s" % (fmt(S)[:60], fmt(off)))
                        else:
                            rep.unk(rule, key + "|src-tail", s_.at, "source tail starts at %s"
                                    % fmt(S)[:80])
        elif rems:
            # tail from the remainders of the chunk iterators
            limited = False
            for c in sgroups:
                mr = _strip(sym.operand(c.args[2]))
                if _is_height_of_dst(mr, dst):
                    limited = True
                else:
                    rep.bad(rule, key + "|remainder", c.at, "the tail rows are taken from "
                            "ArrayChunks::into_remainder, but the source chunk iterator is limited "
                            "to %s rows, not to the destination height: when the source has more "
                            "rows it yields another full group, holds no remainder, and the last "
                            "h %% %d destination rows are never written" % (fmt(mr)[:60], N))
                    ok = False
            if limited and ok:
                rep.unk(rule, key + "|remainder", f.loc, "tail from iterator remainders")
        else:
            ok = False
            rep.bad(rule, key + "|no-tail", f.loc, "%s processes groups of %d destination rows "
                    "and nothing else: the last h %% %d rows are never written" % (f.name, N, N))
    rep.floor(rule, "group-of-N row wrappers", n, {"x86": 20, "x86-rayon": 20}.get(rep.cfg, 6))
