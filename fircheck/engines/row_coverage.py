"""Row coverage of kernels that process destination rows in groups of N (iter_N_rows_mut):
the rows after the last full group must be processed, starting exactly at h - h % N, paired
with source rows shifted by the pass offset."""
import re

from ..sym import Sym, fmt, short


def _strip(e):
    while isinstance(e, tuple) and e and e[0] in ("cast", "ovf"):
        e = e[2] if e[0] == "cast" else e[1]
    return e


def _is_height_of_dst(e, dst):
    e = _strip(e)
    return e[0] == "call" and e[1] == "height" and e[2] and _strip(e[2][0]) == dst


def group_tail(rep, prog, rule):
    rep.rule(rule, "a kernel wrapper that walks the destination in groups of N rows "
             "(iter_N_rows_mut) pairs them with source groups of the same N starting at the pass "
             "offset, and processes the remaining rows from exactly h - h % N (source rows from "
             "that + offset); taking the tail from ArrayChunks::into_remainder is only sound when "
             "the source chunk iterator is limited to the destination's height (a remainder exists "
             "only after exhaustion)")
    n = 0
    for f in sorted(prog.fns.values(), key=lambda x: x.id):
        if f.kind == "closure" or not re.match(r"^(convolution|alpha)::", f.name):
            continue
        groups = [c for c in f.calls() if c.method in ("iter_2_rows_mut", "iter_4_rows_mut")]
        if not groups:
            continue
        n += 1
        rep.touch(f)
        sym = Sym(f)
        g = groups[0]
        N = int(g.method.split("_")[1])
        dst = _strip(sym.operand(g.args[0]))
        key = f.name
        sgroups = [c for c in f.calls() if c.method in ("iter_2_rows", "iter_4_rows")]
        off = None
        ok = True
        for c in sgroups:
            if int(c.method.split("_")[1]) != N:
                rep.bad(rule, key + "|group-size", c.at, "source rows are grouped by %s but "
                        "destination rows by %d" % (c.method, N))
                ok = False
            off = _strip(sym.operand(c.args[1]))
        tails = [c for c in f.calls() if c.method == "iter_rows_mut"]
        stails = [c for c in f.calls() if c.method == "iter_rows"]
        rems = [c for c in f.calls() if short(c.name) == "into_remainder"]
        if tails:
            for t in tails:
                T = _strip(sym.operand(t.args[1]))
                good = (T[0] == "bin" and T[1] == "Sub" and _is_height_of_dst(T[2], dst)
                        and _strip(T[3])[0] == "bin" and _strip(T[3])[1] == "Rem"
                        and _is_height_of_dst(_strip(T[3])[2], dst))
                if good:
                    m = _strip(_strip(T[3])[3])
                    if m == ("const", N, "u32"):
                        rep.ok(rule, key + "|tail", t.at, "tail from h - h %% %d" % N)
                    else:
                        ok = False
                        rep.bad(rule, key + "|tail", t.at, "groups of %d rows but the tail starts "
                                "at h - h %% %s: rows are skipped or processed twice" % (N, fmt(m)))
                else:
                    rep.unk(rule, key + "|tail", t.at, "tail starts at %s" % fmt(T)[:80])
                    continue
                # source tail alignment
                for s_ in stails:
                    S = _strip(sym.operand(s_.args[1]))
                    if off is not None and off[0] != "const":
                        aligned = (S[0] == "bin" and S[1] == "Add" and
                                   {_strip(S[2]), _strip(S[3])} == {T, off})
                        if aligned:
                            rep.ok(rule, key + "|src-tail", s_.at, "source tail from tail + offset")
                        elif S == T:
                            ok = False
                            rep.bad(rule, key + "|src-tail", s_.at, "the source rows of the tail "
                                    "start at %s without the pass offset %s" % (fmt(S)[:60], fmt(off)))
                        else:
                            rep.unk(rule, key + "|src-tail", s_.at, "source tail starts at %s"
                                    % fmt(S)[:80])
        elif rems:
            # tail from the remainders of the chunk iterators
            limited = False
            for c in sgroups:
                mr = _strip(sym.operand(c.args[2]))
                if _is_height_of_dst(mr, dst):
                    limited = True
                else:
                    rep.bad(rule, key + "|remainder", c.at, "the tail rows are taken from "
                            "ArrayChunks::into_remainder, but the source chunk iterator is limited "
                            "to %s rows, not to the destination height: when the source has more "
                            "rows it yields another full group, holds no remainder, and the last "
                            "h %% %d destination rows are never written" % (fmt(mr)[:60], N))
                    ok = False
            if limited and ok:
                rep.unk(rule, key + "|remainder", f.loc, "tail from iterator remainders")
        else:
            ok = False
            rep.bad(rule, key + "|no-tail", f.loc, "%s processes groups of %d destination rows "
                    "and nothing else: the last h %% %d rows are never written" % (f.name, N, N))
    rep.floor(rule, "group-of-N row wrappers", n, {"x86": 20, "x86-rayon": 20}.get(rep.cfg, 6))


def row_length(rep, prog, rule):
    """rows may be longer than the width (documented contract of ImageView)"""
    rep.rule(rule, "a row routine of the alpha kernels that pairs a source row with a destination "
             "row does not rely on the two slices having the same length: the documented contract "
             "of ImageView / ImageViewMut only promises rows of at least `width` pixels. A routine "
             "that walks both rows in chunks and then hands the remainder of the SOURCE chunks "
             "together with the remainder of the DESTINATION chunks to the tail code processes, "
             "for a source row longer than the destination row, other source pixels in the tail "
             "than the ones that belong to the destination tail (or none). It is sound only when "
             "its callers trim both rows to the width first (an index / get(..width) on the rows); "
             "callers that pass the rows of iter_rows / iter_rows_mut as they come: violation")
    n = 0
    for f in sorted(prog.fns.values(), key=lambda x: x.id):
        if f.kind == "closure" or not re.match(r"^alpha::\w+::(sse4|avx2|neon|wasm32)::", f.name):
            continue
        slices = [i for i in range(1, f.arg_count + 1) if re.match(r"^&(mut )?\[", f.local_ty(i) or "")]
        if len(slices) != 2:
            continue
        src = [i for i in slices if not f.local_ty(i).startswith("&mut")]
        dst = [i for i in slices if f.local_ty(i).startswith("&mut")]
        if len(src) != 1 or len(dst) != 1:
            continue
        sym = Sym(f)
        ps, pd = ("param", src[0], f.local_name(src[0])), ("param", dst[0], f.local_name(dst[0]))

        def mentions(e, a):
            return e == a or (isinstance(e, tuple) and any(mentions(x, a) for x in e if isinstance(x, tuple)))
        src_rem = dst_rem = None
        for c in f.calls():
            nm = c.method or short(c.name)
            if nm == "remainder" and c.args:
                if mentions(sym.operand(c.args[0], (c.bb, "term")), ps):
                    src_rem = c
            if nm == "into_remainder" and c.args:
                e = sym.operand(c.args[0], (c.bb, "term"))
                if mentions(e, pd) or any(mentions(sym.rvalue(rv, bb, (bb, j)), pd)
                                          for l in ([e[1]] if e[0] == "local" else [])
                                          for (bb, j, rv, w) in f.defs().get(l, [])):
                    dst_rem = c
        if src_rem is None or dst_rem is None:
            continue
        n += 1
        rep.touch(f)
        # do the callers trim the rows?
        trimmed = True
        callers = prog.callers().get(f.id, [])
        for cs in callers:
            g = cs.fn
            gs = Sym(g)
            for a in cs.args[:2]:
                e = _strip(gs.operand(a, (cs.bb, "term")))
                txt = fmt(e)
                if not re.search(r"\b(index|index_mut|get_unchecked|get_unchecked_mut|get|get_mut|split_at|split_at_mut)\b", txt):
                    trimmed = False
        key = re.sub(r"::(sse4|avx2|neon|wasm32)::", "::", f.name)
        if not callers:
            rep.unk(rule, key, f.loc, "no caller found")
        elif trimmed:
            rep.ok(rule, key, f.loc, "callers pass rows cut to the width")
        else:
            rep.bad(rule, key + "|remainders-paired", f.loc,
                    "%s pairs the remainder of the source row's chunks with the remainder of the "
                    "destination row's chunks and is called with the rows as the views hand them out: "
                    "a source view whose rows are longer than its width (allowed by the ImageView "
                    "contract) gets other pixels in the tail than an exact copy would" % f.name)
    rep.floor(rule, "two-row alpha routines that pair remainders", n, 4)


def tail_complete(rep, prog, rule):
    """the scalar tail after a chunked SIMD loop handles every remaining element"""
    rep.rule(rule, "a row routine that walks the row in chunks of K elements (chunks_exact(K)) and "
             "then treats the remainder handles ALL of it: the remainder has up to K - 1 elements, "
             "so tail code that takes only its first element (`remainder.first()`, "
             "`get(0)` / `get_mut(0)`, `[0]`) is complete only for K = 2. With a larger chunk the "
             "other remaining pixels of every row are never written (destination rows keep stale "
             "pixels for widths with width % K >= 2)")
    n = 0
    for f in sorted(prog.fns.values(), key=lambda x: x.id):
        if f.kind == "closure" or not re.match(r"^(alpha|convolution)::\w+::(sse4|avx2|neon|wasm32|native)::", f.name):
            continue
        sym = None
        chunk_of = {}
        for c in f.calls():
            nm = c.method or short(c.name)
            if nm in ("chunks_exact", "chunks_exact_mut") and len(c.args) == 2:
                sym = sym or Sym(f)
                k = sym.operand(c.args[1], (c.bb, "term"))
                if k[0] == "const" and isinstance(k[1], int):
                    chunk_of[c.bb] = k[1]
        if not chunk_of:
            continue
        for c in f.calls():
            nm = c.method or short(c.name)
            if nm not in ("first", "first_mut", "get", "get_mut") or not c.args:
                continue
            recv = sym.operand(c.args[0], (c.bb, "term"))
            txt = fmt(recv)
            if "remainder" not in txt:
                continue
            if nm in ("get", "get_mut"):
                idx = sym.operand(c.args[1], (c.bb, "term")) if len(c.args) > 1 else None
                if not (idx and idx[0] == "const" and idx[1] == 0):
                    continue
            m = re.search(r"chunks_exact(?:_mut)?@bb(\d+)", txt)
            K = chunk_of.get(int(m.group(1))) if m else None
            if K is None:
                # the remainder of a chunk iterator kept in a local: take the only chunk size
                ks = set(chunk_of.values())
                K = ks.pop() if len(ks) == 1 else None
            if K is None:
                continue
            n += 1
            rep.touch(f)
            key = "%s|%s" % (f.name, nm)
            if K <= 2:
                rep.ok(rule, key, c.at, "chunks of %d: at most one element remains" % K)
            else:
                rep.bad(rule, key + "|partial-tail", c.at,
                        "%s walks the row in chunks of %d and handles only the first element of the "
                        "remainder (up to %d remain): the other pixels of the tail are not written"
                        % (f.name, K, K - 1))
    rep.floor(rule, "single-element tails after chunked loops", n, 2)


def zip_store(rep, prog, rule, floor=20):
    """every destination element a two-operand loop takes is written"""
    rep.rule(rule, "a loop that takes its items from a pair of iterators -- a source element and a "
             "`&mut` destination element (`src.iter().zip(dst)`, chunk pairs) -- writes through the "
             "destination element, or hands it to a callee, on EVERY path of its body: a `continue` "
             "(or an early `break` / `return`) taken before the store leaves that destination pixel "
             "with whatever the buffer held before, although the operation is not in place -- "
             "`if alpha == MAX { continue }` is a correct shortcut in the in-place routine and a hole "
             "in the two-image one. In-place loops (one `&mut` item, no partner) are not in scope")
    n = 0
    for f in sorted(prog.fns.values(), key=lambda x: x.id):
        if f.kind == "closure" or not (f.file or "").startswith("src/"):
            continue
        for c in f.calls():
            if c.method != "next" or c.target is None:
                continue
            rty = f.local_ty(c.dest[0]) if c.dest and len(c.dest) == 1 else ""
            m = re.match(r"^(?:std|core)::option::Option<\((.*)\)>$", rty or "")
            if not m:
                continue
            parts = _split_top(m.group(1))
            muts = [i for i, p in enumerate(parts) if p.strip().startswith("&mut ")]
            if len(parts) < 2 or not muts:
                continue
            # the partner: an element that refers to another buffer (a counter from enumerate()
            # does not make the loop a two-operand one)
            if not any(i not in muts and re.match(r"^\s*(&|\[&)", p_) for i, p_ in enumerate(parts)):
                continue
            # locals bound to the &mut element(s) of the item
            res = c.dest[0]
            binds = []
            for b, blk in enumerate(f.blocks):
                if blk["c"]:
                    continue
                for j, st in enumerate(blk["s"]):
                    if st[0] == "a" and len(st[1]) == 1 and st[2][0] == "use":
                        pl = st[2][1][1] if st[2][1][0] in ("c", "m") else None
                        if pl and pl[0] == res and (f.local_ty(st[1][0]) or "").startswith("&mut "):
                            binds.append((b, j, st[1][0]))
            for (b0, j0, L) in binds:
                n += 1
                rep.touch(f)
                key = "%s|%s" % (f.name, f.local_name(L) or "_%d" % L)
                alias = {L}
                changed = True
                while changed:
                    changed = False
                    for blk in f.blocks:
                        if blk["c"]:
                            continue
                        for st in blk["s"]:
                            if st[0] == "a" and len(st[1]) == 1 and st[1][0] not in alias:
                                rv = st[2]
                                src = None
                                if rv[0] == "ref" and rv[1] in ("mut", "two_phase"):
                                    src = rv[2][0]
                                elif rv[0] == "use" and rv[1][0] in ("c", "m") and rv[1][1]:
                                    src = rv[1][1][0]          # also `*dst` of a `&mut &mut [T]` item
                                elif rv[0] == "raw" and len(rv) > 2 and isinstance(rv[2], list):
                                    src = rv[2][0]              # `&raw mut (*dst)`
                                elif rv[0] in ("cast", "rawptr", "addr") and len(rv) > 2:
                                    try:
                                        src = rv[2][1][0] if rv[2][0] in ("c", "m") else rv[2][0]
                                    except Exception:
                                        src = None
                                if src in alias and ((f.local_ty(st[1][0]) or "").startswith(("&mut", "*mut"))):
                                    alias.add(st[1][0])
                                    changed = True
                                elif rv[0] == "agg" and any(o[0] in ("c", "m") and o[1] and o[1][0] in alias
                                                            for o in (rv[4] or [])):
                                    alias.add(st[1][0])      # `[dst_row]`, `(a, dst)` handed on
                                    changed = True

                def stores(b, frm=0):
                    blk = f.blocks[b]
                    for j, st in enumerate(blk["s"]):
                        if j < frm:
                            continue
                        if st[0] == "a" and st[1][0] in alias and "*" in st[1][1:]:
                            return True
                    t = blk["t"]
                    if t[0] == "call":
                        for a in t[2]:
                            if a[0] in ("c", "m") and a[1] and a[1][0] in alias:
                                return True
                    return False

                head = c.bb
                # an inner loop whose body stores counts as a store (it runs over the components
                # of a pixel: a fixed, non-zero number of rounds)
                inner = _cycles_without(f, head)
                storing_cycle = set()
                for comp in inner:
                    if any(stores(k) for k in comp):
                        storing_cycle |= comp
                if stores(b0, j0 + 1):
                    rep.ok(rule, key, c.at, "written in the block that binds it")
                    continue
                seen, todo, leak = {b0}, [s for s in f.succ[b0]], None
                while todo and leak is None:
                    k = todo.pop()
                    if k in seen:
                        continue
                    seen.add(k)
                    if k == head or f.term(k)[0] == "ret":
                        leak = k
                        break
                    if stores(k) or k in storing_cycle:
                        continue
                    todo.extend(f.succ[k])
                if leak is None:
                    rep.ok(rule, key, c.at, "every path of the body writes through it")
                else:
                    rep.bad(rule, key + "|skipped", c.at,
                            "%s: a path of the loop body goes from the binding of `%s` back to the loop "
                            "head (or out of the function) without a store through it: that destination "
                            "element keeps its previous content although its partner element was read "
                            "from another buffer" % (f.name, f.local_name(L) or "_%d" % L))
    rep.floor(rule, "two-operand loops with a &mut element", n, floor)


def _split_top(s):
    out, depth, cur = [], 0, ""
    for ch in s:
        if ch in "<([":
            depth += 1
        elif ch in ">)]":
            depth -= 1
        if ch == "," and depth == 0:
            out.append(cur)
            cur = ""
        else:
            cur += ch
    if cur.strip():
        out.append(cur)
    return out


def _cycles_without(f, head):
    """strongly connected components (size > 1 or self-loop) of the CFG with `head` removed"""
    n = len(f.blocks)
    succ = [[s_ for s_ in f.succ[b] if s_ != head] if b != head else [] for b in range(n)]
    index, low, on, stack, out = {}, {}, set(), [], []
    counter = [0]
    for root in range(n):
        if root in index or root == head:
            continue
        work = [(root, 0)]
        while work:
            v, i = work.pop()
            if i == 0:
                index[v] = low[v] = counter[0]
                counter[0] += 1
                stack.append(v)
                on.add(v)
            recurse = False
            for k in range(i, len(succ[v])):
                w = succ[v][k]
                if w not in index:
                    work.append((v, k + 1))
                    work.append((w, 0))
                    recurse = True
                    break
                elif w in on:
                    low[v] = min(low[v], index[w])
            if recurse:
                continue
            if low[v] == index[v]:
                comp = set()
                while True:
                    w = stack.pop()
                    on.discard(w)
                    comp.add(w)
                    if w == v:
                        break
                if len(comp) > 1 or v in succ[v]:
                    out.append(comp)
            if work:
                u = work[-1][0]
                low[u] = min(low[u], low[v])
    return out


STORE_RE = re.compile(r"(^|::)(_mm(256|512)?_(mask)?store[u]?_(si128|si256|si64|ps|pd|epi\d+)|_mm_storel_epi64|"
                      r"vst1q?_(u|s|f)\d+|v128_store|write_unaligned|write|copy_from_slice|copy_nonoverlapping)$")


def divide_every_chunk(rep, prog, rule, floor=6):
    """in-place alpha division treats every chunk"""
    rep.rule(rule, "in the TWO-IMAGE alpha routines (multiply and divide: the destination -- the Resizer's "
             "scratch image among others -- holds whatever an earlier call left there, so a chunk that is "
             "not stored is stale content) and "
             "in the in-place alpha DIVISION routines every closure that stores a processed chunk "
             "(the bodies handed to foreach_with_pre_reading) performs that store on all of its paths: "
             "an early `return` for a chunk whose alphas are all zero ('nothing to divide, nothing to "
             "write back') leaves colours under alpha 0 as they are, while the division primitive "
             "zeroes them -- after a convolution with negative lobes a resampled alpha is clamped to 0 "
             "over a premultiplied colour that is not 0. (The same shortcut is right in the in-place "
             "MULTIPLICATION for alpha == max, which is why this clause reads the division only.)")
    n = 0
    for f in sorted(prog.fns.values(), key=lambda x: x.id):
        if f.kind == "closure":
            continue
        inplace_div = re.search(r"(^|::)alpha::.*::divide_alpha(_row)?_inplace$", f.name)
        two_image = re.search(r"(^|::)alpha::.*::(multiply|divide)_alpha(_row)?$", f.name)
        if not (inplace_div or two_image):
            continue
        for g in f.closures():
            stores = [c for c in g.calls() if STORE_RE.search(c.name or "")]
            if not stores:
                continue
            n += 1
            rep.touch(g)
            sb = {c.bb for c in stores}
            seen, todo, leak = set(), [0], None
            while todo:
                k = todo.pop()
                if k in seen or k in sb:
                    continue
                seen.add(k)
                if g.term(k)[0] == "ret":
                    leak = k
                    break
                todo.extend(g.succ[k])
            key = "%s|%s" % (f.name, g.name.rsplit("::", 1)[-1])
            if leak is None:
                rep.ok(rule, key, g.loc, "the store is on every path of the chunk body")
            else:
                rep.bad(rule, key + "|skipped", g.loc,
                        "%s: the body that processes one chunk can return without storing it (a "
                        "shortcut before %s): pixels of that chunk keep their colour although the "
                        "division would have produced 0 for alpha 0" % (g.name, short(stores[0].name)))
    rep.floor(rule, "chunk bodies of in-place divisions", n, floor)


def tail_reached(rep, prog, rule, floor=4):
    """the scalar tail of a staged SIMD column loop is reached whenever components remain"""
    rep.rule(rule, "a SIMD vertical kernel that finishes a row with the portable routine "
             "(native::convolution_by_u8 / _u16 / _f32 for the last components) reaches that call on "
             "every path from its entry to its return, except through an edge that tests the remaining "
             "slice for emptiness: an early `return` placed between the stages (`if rest.len() < 4 { "
             "return }`: 'nothing left for the last SIMD step') also skips the 1..3 components that only "
             "the scalar tail handles, and they keep what the buffer held")
    from ..cfg import find_path_consistent
    n = 0
    for f in sorted(prog.fns.values(), key=lambda x: x.id):
        if f.kind == "closure" or not re.match(r"^convolution::vertical_\w+::(sse4|avx2|neon|wasm32)::", f.name):
            continue
        tails = [c for c in f.calls() if re.search(r"native::convolution_by_\w+$", c.name or "")]
        if not tails:
            continue
        n += 1
        rep.touch(f)
        sym = Sym(f)
        blocked = set()
        for c in tails:
            for s_ in f.succ[c.bb]:
                blocked.add((c.bb, s_))
        for (p_, s_, cond, v_) in sym.edge_facts():
            cs = fmt(cond)
            if ("is_empty" in cs and v_ is True) or (re.search(r"\blen\b.* Eq 0", cs) and v_ is True) \
                    or (re.search(r"\blen\b.* (Ne|Gt) 0", cs) and v_ is False):
                blocked.add((p_, s_))
        path = find_path_consistent(f, 0, f.returns(), blocked=set(), blocked_edges=blocked)
        key = "%s|tail" % f.name
        if path is None:
            rep.ok(rule, key, f.loc, "the scalar tail is on every path that leaves components unprocessed")
        else:
            rep.bad(rule, key + "|bypassed", f.loc,
                    "%s: a path %s reaches the return without the scalar tail and without a test that "
                    "nothing is left: the last components of a row can stay unwritten" % (
                        f.name, "->".join("bb%d" % b for b in path[:10])))
    rep.floor(rule, "SIMD vertical kernels with a scalar tail", n, floor)
