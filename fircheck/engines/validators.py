"""Validator obligations (C04, C03.crop-validate): what must have been established on every
path on which a constructor / crop check returns Ok (DESIGN §4 C04). The specs are written
from the property statement; the accepted fact forms are enumerated here."""
from ..cfg import Dom
from ..facts import CheckError
import re

from ..sym import Sym, atoms, fmt
from .. import ir
from .ranges import Ctx, FLIP, NEG, strip_widen, same, mentions


def ok_blocks(fn):
    """blocks that assign Ok(..) to (a local that becomes) the return value"""
    from .flow import return_locals
    rl = return_locals(fn)
    out = []
    for b, blk in enumerate(fn.blocks):
        if blk["c"]:
            continue
        for st in blk["s"]:
            if st[0] == "a" and len(st[1]) == 1 and st[1][0] in rl and st[2][0] == "agg" \
                    and st[2][1] == "adt" and st[2][2] == "core::result::Result" \
                    and st[2][3][1] == "Ok":
                out.append(b)
    return out


def subst(e, mapping):
    if not isinstance(e, tuple):
        return e
    if e in mapping:
        return mapping[e]
    return tuple(subst(x, mapping) if isinstance(x, tuple) else x for x in e)


def closure_return(prog, cid, arg_exprs, captured):
    """symbolic return value of closure `cid` applied to arg_exprs (list) with captured
    operands `captured` (list of expressions, in capture order); None when not a single
    expression"""
    cl = prog.fns.get(cid)
    if cl is None:
        return None
    sym = Sym(cl)
    defs = cl.defs().get(0, [])
    if len(defs) != 1:
        return None
    e = sym.rvalue(defs[0][2], defs[0][0])
    mapping = {}
    for i, a in enumerate(arg_exprs):
        mapping[("param", 2 + i, cl.local_name(2 + i))] = a
    p1 = ("param", 1, cl.local_name(1))
    for i, c in enumerate(captured):
        mapping[("field", p1, i)] = c
    return subst(e, mapping)


def inline_pure(prog, e, depth=0):
    """replace calls of crate-local helper functions whose body is one expression of their
    parameters (no call that is pinned to a program point inside) by that expression"""
    if depth > 3 or not isinstance(e, tuple) or not e:
        return e
    e = tuple(inline_pure(prog, x, depth) if isinstance(x, tuple) else x for x in e)
    if e[0] in ("call", "callat"):
        res = e[4] if e[0] == "callat" else e[3]
        args = e[3] if e[0] == "callat" else e[2]
        g = prog.fns.get(res) if isinstance(res, str) else None
        if g is not None and g.kind != "closure" and len(args) == g.arg_count:
            ds = g.defs().get(0, [])
            if len(ds) == 1 and ds[0][3]:
                gs = Sym(g)
                r = gs.rvalue(ds[0][2], ds[0][0], (ds[0][0], ds[0][1]))

                def pinned(x):
                    if not isinstance(x, tuple) or not x:
                        return False
                    if x[0] in ("callat", "local", "unknown"):
                        return True
                    return any(pinned(y) for y in x if isinstance(y, tuple))
                if not pinned(r):
                    mapping = {("param", i + 1, g.local_name(i + 1)): a for i, a in enumerate(args)}
                    return inline_pure(prog, subst(r, mapping), depth + 1)
    return e


def project_fields(prog, e, depth=0):
    """`field(agg adt {..}, name)` -> the operand of that field (after inline_pure put a helper's
    returned struct / tuple in place of the call)"""
    if depth > 40 or not isinstance(e, tuple) or not e:
        return e
    e = tuple(project_fields(prog, x, depth + 1) if isinstance(x, tuple) else x for x in e)
    if e[0] == "field" and isinstance(e[1], tuple) and e[1] and e[1][0] == "agg" and len(e[1]) > 4:
        agg = e[1]
        ops = agg[4]
        idx = None
        if isinstance(e[2], int):
            idx = e[2]
        elif isinstance(e[2], str) and e[2].isdigit():
            idx = int(e[2])
        elif agg[1] == "adt" and agg[2] in prog.adts:
            names = [x[0] for x in prog.adts[agg[2]]["variants"][0]["fields"]]
            if e[2] in names:
                idx = names.index(e[2])
        if idx is not None and idx < len(ops):
            return ops[idx]
    return e


def success_value(prog, e, depth=0):
    """`(helper(args)? )` / `helper(args).unwrap()` / `(helper(args) as Some).0` -> the value the
    crate-local helper wraps in its only Some / Ok aggregate, as an expression of the arguments
    (the conditions under which it returns None / Err are not part of the value)"""
    if depth > 30 or not isinstance(e, tuple) or not e:
        return e
    e = tuple(success_value(prog, x, depth + 1) if isinstance(x, tuple) else x for x in e)
    inner = None
    if e[0] == "field" and str(e[2]) == "0" and isinstance(e[1], tuple) and e[1] and e[1][0] == "variant" \
            and e[1][2] in ("Continue", "Some", "Ok"):
        inner = e[1][1]
    elif e[0] in ("call", "callat") and (e[1] if e[0] == "call" else e[2]) in ("unwrap", "unwrap_unchecked", "expect"):
        a = e[2] if e[0] == "call" else e[3]
        inner = a[0] if a else None
    if inner is None:
        return e
    for _ in range(3):
        if isinstance(inner, tuple) and inner and inner[0] in ("call", "callat") and \
                (inner[1] if inner[0] == "call" else inner[2]) in ("branch", "into_iter"):
            a = inner[2] if inner[0] == "call" else inner[3]
            inner = a[0] if a else inner
    if not (isinstance(inner, tuple) and inner and inner[0] in ("call", "callat")):
        return e
    res = inner[4] if inner[0] == "callat" else inner[3]
    args = inner[3] if inner[0] == "callat" else inner[2]
    g = prog.fns.get(res) if isinstance(res, str) else None
    if g is None or g.kind == "closure" or len(args) != g.arg_count:
        return e
    gs = None
    vals = []
    for (bb, j, rv, w) in g.defs().get(0, []):
        if w and rv[0] == "agg" and rv[1] == "adt" and isinstance(rv[3], list) and len(rv[3]) > 1 \
                and rv[3][1] in ("Some", "Ok") and rv[4]:
            gs = gs or Sym(g)
            vals.append(gs.operand(rv[4][0], (bb, j)))
    if len(vals) != 1:
        return e

    def pinned(x):
        if not isinstance(x, tuple) or not x:
            return False
        if x[0] in ("callat", "local", "unknown"):
            return True
        return any(pinned(y) for y in x if isinstance(y, tuple))
    if pinned(vals[0]):
        return e
    mapping = {("param", i + 1, g.local_name(i + 1)): a for i, a in enumerate(args)}
    return subst(vals[0], mapping)


def resolve_helpers(prog, e):
    """helper calls inlined, the fields of the structs they return projected, and the value of a
    fallible helper's only success aggregate put in place of `helper(..)?`"""
    return success_value(prog, project_fields(prog, inline_pure(prog, e)))


def _some_of_checked(e):
    """(a.checked_mul(b) as Some).0 is the exact product a * b (likewise checked_add)"""
    if not isinstance(e, tuple) or not e:
        return e
    e = tuple(_some_of_checked(x) if isinstance(x, tuple) else x for x in e)
    if e[0] == "field" and str(e[2]) == "0" and isinstance(e[1], tuple) and e[1] and e[1][0] == "variant":
        inner = strip_widen(e[1][1])
        if inner[0] == "call" and inner[1] in ("checked_mul", "checked_add") and len(inner[2]) == 2:
            return ("exact", ("bin", "Mul" if inner[1] == "checked_mul" else "Add", inner[2][0], inner[2][1]))
    return e


def expand_facts(prog, fn, sym, facts):
    """adds facts implied by `opt.map_or(default, closure) == v` for opt = checked_mul(a, b);
    helper functions that are one expression of their parameters are inlined first"""
    facts = [(_some_of_checked(inline_pure(prog, c_)), v_) for c_, v_ in facts]
    out = list(facts)
    for cond, val in facts:
        c = cond
        if c[0] == "callat" and c[2] == "map_or" and len(c[3]) == 3 and isinstance(val, bool):
            opt, default, clo = c[3]
            if default[0] == "const" and default[1] is (not val) and clo[0] == "agg" \
                    and clo[1] == "closure":
                # result differs from the default => opt is Some(x) and closure(x) == val
                o = strip_widen(opt)
                if o[0] == "call" and o[1] in ("checked_mul", "checked_add") and len(o[2]) == 2:
                    x = ("bin", "Mul" if o[1] == "checked_mul" else "Add", o[2][0], o[2][1])
                    x = ("exact", x)
                    r = closure_return(prog, clo[2], [x], list(clo[4]))
                    if r is not None:
                        out.append((r, val))
    return out


def unexact(e):
    if isinstance(e, tuple) and e and e[0] == "exact":
        return unexact(e[1])
    if isinstance(e, tuple):
        return tuple(unexact(x) if isinstance(x, tuple) else x for x in e)
    return e


def factors(e, exact=False):
    """flatten a product: list of (factor, came_from_checked_mul)"""
    e0 = e
    if isinstance(e, tuple) and e and e[0] == "exact":
        return factors(e[1], True)
    e = strip_widen(e)
    if isinstance(e, tuple) and e and e[0] == "exact":
        return factors(e[1], True)
    if e[0] == "bin" and e[1] == "Mul":
        return factors(e[2], exact) + factors(e[3], exact)
    return [(e, exact)]


def norm(facts):
    """integer facts as true (op,a,b) triples"""
    out = []
    for cond, val in facts:
        if isinstance(cond, tuple) and cond and cond[0] == "bin" and cond[1] in FLIP \
                and isinstance(val, bool):
            op = cond[1] if val else NEG[cond[1]]
            out.append((op, cond[2], cond[3]))
    return out


def find_ge(nf, pred_a, pred_b):
    """facts a >= b / a > b with pred_a(a) and pred_b(b); returns list of (a, b, strict)"""
    out = []
    for (op, x, y) in nf:
        for (o, l, r) in ((op, x, y), (FLIP[op], y, x)):
            if o in ("Ge", "Gt") and pred_a(l) and pred_b(r):
                out.append((l, r, o == "Gt"))
    return out


def is_len_of(e, pname):
    e = strip_widen(e)
    return e[0] == "call" and e[1] == "len" and e[2] and _rooted(e[2][0], pname)


def _rooted(e, pname):
    while isinstance(e, tuple) and e:
        if e[0] == "param":
            return e[2] == pname
        if e[0] in ("field", "variant", "index", "proj", "cast"):
            e = e[1] if e[0] != "cast" else e[2]
            continue
        if e[0] in ("call", "callat"):
            args = e[2] if e[0] == "call" else e[3]
            if not args:
                return False
            e = args[0]
            continue
        return False
    return False


def is_param(e, name):
    e = strip_widen(e)
    return e[0] == "param" and e[2] == name


# ---------------------------------------------------------------------------------------------

BUFFER_VALIDATORS = [
    # (def_path_str, buffer param, needs pixel size factor, needs alignment fact)
    ("images::image::ImageRef::<'a>::new", "buffer", True, True),
    ("images::image::Image::<'static>::from_vec_u8", "buffer", True, True),
    ("images::image::Image::<'a>::from_slice_u8", "buffer", True, True),
    ("images::typed_image::TypedImageRef::<'a, P>::new", "pixels", False, False),
    ("images::typed_image::TypedImage::<'a, P>::from_pixels", "pixels", False, False),
    ("images::typed_image::TypedImage::<'a, P>::from_pixels_slice", "pixels", False, False),
]


def buffer_validators(rep, prog, rule, ptr64=True):
    rep.rule(rule, "a buffer-backed image constructor returns Ok only on paths where "
             "len(buffer) >= width*height(*pixel size) has been established with a product that "
             "cannot wrap (checked_mul, or intervals within usize), and — for byte buffers — the "
             "alignment predicate holds")
    found = 0
    for name, bparam, need_size, need_align in BUFFER_VALIDATORS:
        fs = [f for f in prog.fns.values() if f.name == name]
        if len(fs) != 1:
            raise CheckError("validator %s: %d matches" % (name, len(fs)))
        f = fs[0]
        found += 1
        rep.touch(f)
        ctx = Ctx(prog, f)
        oks = ok_blocks(f)
        if not oks:
            rep.unk(rule, "%s|ok" % name, f.loc, "no Ok return found")
            continue
        for okb in oks:
            facts = expand_facts(prog, f, ctx.sym, ctx.facts(okb))
            nf = norm(facts)
            hits = find_ge(nf, lambda a: is_len_of(a, bparam), lambda b: True)
            key = "%s|size" % name
            if not hits:
                if any(mentions_len(c, bparam) for c, v in facts):
                    rep.unk(rule, key, f.loc, "a guard mentions len(%s) but not in a recognised "
                            "form: %s" % (bparam, [fmt(unexact(c))[:80] for c, v in facts]))
                else:
                    rep.bad(rule, key, f.loc, "%s returns Ok without comparing len(%s) with the "
                            "required size" % (name, bparam))
                continue
            good = False
            why = ""
            for (l, r, strict) in hits:
                fac = factors(r)
                has_w = any(is_param(x, "width") for x, _ in fac)
                has_h = any(is_param(x, "height") for x, _ in fac)
                has_s = any(strip_widen(x)[0] == "call" and strip_widen(x)[1] == "size"
                            for x, _ in fac)
                if not (has_w and has_h and (has_s or not need_size)):
                    why = "required size %s lacks a factor (width=%s height=%s size=%s)" % (
                        fmt(unexact(r)), has_w, has_h, has_s)
                    continue
                # wrap-freedom of the product
                safe, wdetail = product_safe(ctx, r)
                if safe:
                    good = True
                    why = "len(%s) >= %s (%s)" % (bparam, fmt(unexact(r)), wdetail)
                    break
                why = "the product %s can wrap: %s" % (fmt(unexact(r)), wdetail)
            if good:
                rep.ok(rule, key, f.loc, why)
            elif "can wrap" in why:
                rep.bad(rule, key, f.loc, "%s accepts a buffer after comparing its length with a "
                        "size whose computation can overflow: %s" % (name, why))
            else:
                rep.bad(rule, key, f.loc, why)
            if need_align:
                al = [(c, v) for c, v in facts if c[0] == "call" and c[1] == "is_aligned"]
                akey = "%s|align" % name
                if any(v is True for c, v in al):
                    rep.ok(rule, akey, f.loc, "is_aligned(buffer) holds on the Ok path")
                elif any("align" in fmt(unexact(c)) for c, v in facts):
                    rep.unk(rule, akey, f.loc, "alignment is tested in an unrecognised form")
                else:
                    rep.bad(rule, akey, f.loc, "%s returns Ok without the alignment check of "
                            "the byte buffer" % name)
    rep.floor(rule, "buffer validators", found, len(BUFFER_VALIDATORS))
    # from_buffer variants: alignment head must be empty, then the typed validator decides
    for name in ("images::typed_image::TypedImage::<'a, P>::from_buffer",
                 "images::typed_image::TypedImageRef::<'a, P>::from_buffer"):
        fs = [f for f in prog.fns.values() if f.name == name]
        if len(fs) != 1:
            raise CheckError("validator %s: %d matches" % (name, len(fs)))
        f = fs[0]
        rep.touch(f)
        calls = [c.name for c in f.calls()]
        ctor = [c for c in f.calls() if c.name.endswith("::new") or "from_pixels_slice" in c.name]
        key = "%s|delegates" % name
        ctx = Ctx(prog, f)
        # on the Ok path the unaligned head of align_to must have been found empty (directly or
        # inside a helper that returns Ok / Some only then), and the typed constructor decides
        head_ok = False
        for okb in list(ok_blocks(f)) + [c_.bb for c_ in ctor]:
            for c, v in ctx.facts(okb):
                s_ = fmt(unexact(c))
                if "is_empty" in s_ and "align_to" in s_ and \
                        ((v is True and not s_.startswith("Not")) or (v is False and c[0] == "un")):
                    head_ok = True
        if head_ok and ctor:
            rep.ok(rule, key, f.loc, "Ok only when the unaligned head is empty, then validates with %s"
                   % ctor[0].name.rsplit("::", 1)[-1])
        elif ctor and any("align" in n for n in calls):
            rep.unk(rule, key, f.loc, "%s aligns through %s; the empty-head test was not followed" % (
                name, [n.rsplit("::", 1)[-1] for n in calls if "align" in n][:2]))
        else:
            rep.bad(rule, key, f.loc, "%s no longer aligns the byte buffer and delegates to the typed "
                    "validator (calls: %s)" % (name, calls[:8]))
    for name in ("images::typed_image::align_buffer_to", "images::typed_image::align_buffer_to_mut"):
        if not [g for g in prog.fns.values() if g.name == name]:
            continue
        f = prog.fn_by_name(name)
        rep.touch(f)
        ctx = Ctx(prog, f)
        key = "%s|head-empty" % name
        okk = False
        for okb in ok_blocks(f):
            for c, v in ctx.facts(okb):
                if c[0] == "call" and c[1] == "is_empty" and v is True:
                    okk = True
                if c[0] == "un" and c[1] == "Not" and c[2][0] == "call" and c[2][1] == "is_empty" \
                        and v is False:
                    okk = True
        if okk:
            rep.ok(rule, key, f.loc, "Ok only when the unaligned head is empty")
        else:
            rep.bad(rule, key, f.loc, "%s returns Ok without `head.is_empty()`" % name)


def mentions_len(c, pname):
    if not isinstance(c, tuple):
        return False
    if is_len_of(c, pname):
        return True
    return any(mentions_len(x, pname) for x in c if isinstance(x, tuple))


def product_safe(ctx, e):
    """can the (possibly nested) product be computed without wrapping?"""
    if isinstance(e, tuple) and e and e[0] == "exact":
        inner = e[1]
        # operands of the checked multiplication must themselves be safe
        a, b = inner[2], inner[3]
        sa, da = product_safe(ctx, a)
        sb, db = product_safe(ctx, b)
        if sa and sb:
            return True, "checked_mul"
        return False, da if not sa else db
    s = strip_widen(e)
    if isinstance(s, tuple) and s and s[0] == "exact":
        return product_safe(ctx, s)
    if s[0] == "bin" and s[1] == "Mul":
        sa, da = product_safe(ctx, s[2])
        sb, db = product_safe(ctx, s[3])
        if not (sa and sb):
            return False, da if not sa else db
        ra, rb = ctx.iv.eval(unexact(s[2])), ctx.iv.eval(unexact(s[3]))
        tr = ctx.iv.tr("usize")
        if ra and rb and ra[0] >= 0 and rb[0] >= 0 and ra[1] * rb[1] <= tr[1]:
            return True, "interval [0,%d] fits usize" % (ra[1] * rb[1])
        return False, "%s * %s is not bounded by usize" % (fmt(unexact(s[2])), fmt(unexact(s[3])))
    return True, "atom"


# ---------------------------------------------------------------------------------------------

def _fld(e, name):
    e = strip_widen(e)
    return e[0] == "field" and e[2] == name


def crop_f64(rep, prog, rule):
    rep.rule(rule, "CroppedSrcImageView::crop returns Ok only on paths where each of left, top, "
             "width, height took the TRUE edge of some comparison (so it is not NaN), is >= 0, and "
             "left+width <= image width, top+height <= image height (same axis)")
    f = prog.fn_by_name("crop_box::CroppedSrcImageView::<'a, T>::crop")
    rep.touch(f)
    ctx = Ctx(prog, f)
    oks = ok_blocks(f)
    rep.floor(rule, "Ok returns of crop", len(oks), 1)
    for okb in oks:
        facts = ctx.facts(okb)
        tfacts = [(c, v) for c, v in facts if c[0] == "bin" and c[1] in FLIP]

        def true_facts():
            for c, v in tfacts:
                if v is True:
                    yield (c[1], c[2], c[3])

        def all_facts_int_like():
            # a false comparison only counts when both sides are known not to be NaN
            for c, v in tfacts:
                yield (c[1] if v else NEG[c[1]], c[2], c[3], v)
        nan_checked = set()
        for (op, a, b) in true_facts():
            for fld in ("left", "top", "width", "height"):
                if _mentions_field(a, fld) or _mentions_field(b, fld):
                    nan_checked.add(fld)
        # predicates of other shapes (is_nan, is_finite, contains, ...) that mention a field
        other = {}
        for c, v in facts:
            if not (c[0] == "bin" and c[1] in FLIP):
                for fld in ("left", "top", "width", "height"):
                    if _mentions_field(c, fld):
                        other.setdefault(fld, []).append((c, v))
        for c, v in facts:
            nm = c[1] if c[0] == "call" else (c[2] if c[0] == "callat" else None)
            if (nm == "is_nan" and v is False) or (nm == "is_finite" and v is True):
                for fld in ("left", "top", "width", "height"):
                    if _mentions_field(c, fld):
                        nan_checked.add(fld)
        for fld in ("left", "top", "width", "height"):
            key = "nan|%s" % fld
            if fld in nan_checked:
                rep.ok(rule, key, f.loc, "crop_box.%s is an operand of a comparison that held" % fld)
            elif fld in other:
                rep.unk(rule, key, f.loc, "crop_box.%s is tested by %s (unrecognised form)" % (
                    fld, fmt(other[fld][0][0])[:80]))
            else:
                rep.bad(rule, key, f.loc, "crop() can return Ok with crop_box.%s = NaN: no "
                        "comparison involving it is required to be TRUE on the Ok path (every "
                        "check is of the form `if x < .. {return Err}`)" % fld)
        # lower bounds
        for fld in ("left", "top", "width", "height"):
            key = "lower|%s" % fld
            okk = False
            for (op, a, b, v) in all_facts_int_like():
                for (o, l, r) in ((op, a, b), (FLIP[op], b, a)):
                    if _fld(l, fld) and r[0] == "const" and r[1] >= 0 and o in ("Ge", "Gt"):
                        if v is True or fld in nan_checked:
                            okk = True
            if okk:
                rep.ok(rule, key, f.loc, "crop_box.%s >= 0" % fld)
            elif fld in other:
                rep.unk(rule, key, f.loc, "crop_box.%s is tested by %s (unrecognised form)" % (
                    fld, fmt(other[fld][0][0])[:80]))
            else:
                rep.bad(rule, key, f.loc, "crop() can return Ok with a negative crop_box.%s: no "
                        "lower bound is established" % fld)
        # upper bounds, same axis
        for (pos, size, getter) in (("left", "width", "width"), ("top", "height", "height")):
            key = "upper|%s" % getter
            okk = False
            cross = None
            for (op, a, b, v) in all_facts_int_like():
                for (o, l, r) in ((op, a, b), (FLIP[op], b, a)):
                    if o in ("Le", "Lt"):
                        ls = strip_widen(l)
                        if ls[0] == "bin" and ls[1] == "Add" and (
                                (_fld(ls[2], pos) and _fld(ls[3], size))
                                or (_fld(ls[3], pos) and _fld(ls[2], size))):
                            rs = _strip_all(r)
                            if rs[0] == "call" and rs[1] == getter:
                                if v is True or (pos in nan_checked and size in nan_checked):
                                    okk = True
                            elif rs[0] == "call" and rs[1] in ("width", "height"):
                                cross = rs[1]
                            else:
                                other.setdefault(pos, []).append((("bin", o, l, r), v))
            if okk:
                rep.ok(rule, key, f.loc, "crop_box.%s + crop_box.%s <= image %s" % (pos, size, getter))
            elif cross:
                rep.bad(rule, key, f.loc, "crop_box.%s + crop_box.%s is compared with the image's "
                        "%s (wrong axis)" % (pos, size, cross))
            elif pos in other or size in other:
                rep.unk(rule, key, f.loc, "upper bound of %s/%s tested in an unrecognised form"
                        % (pos, size))
            else:
                rep.bad(rule, key, f.loc, "crop() can return Ok without crop_box.%s + crop_box.%s "
                        "<= image %s" % (pos, size, getter))


def _strip_all(e):
    """drop casts and lossless conversion calls (f64::from(u32), .into())"""
    while isinstance(e, tuple) and e:
        if e[0] == "cast":
            e = e[2]
        elif e[0] == "call" and e[1] in ("from", "into") and len(e[2]) == 1:
            e = e[2][0]
        elif e[0] == "callat" and e[2] in ("from", "into") and len(e[3]) == 1:
            e = e[3][0]
        else:
            break
    return e


def _mentions_field(e, name):
    if not isinstance(e, tuple):
        return False
    if e and e[0] == "field" and e[2] == name:
        return True
    return any(_mentions_field(x, name) for x in e if isinstance(x, tuple))


def crop_u32(rep, prog, rule):
    rep.rule(rule, "check_crop_box returns Ok only on paths where left+width <= img_width and "
             "top+height <= img_height hold as mathematical integers (a comparison against "
             "img - pos after pos <= img, or a sum that cannot wrap)")
    f = prog.fn_by_name("images::typed_cropped_image::check_crop_box")
    rep.touch(f)
    ctx = Ctx(prog, f)
    oks = ok_blocks(f)
    rep.floor(rule, "Ok returns of check_crop_box", len(oks), 1)
    for okb in oks:
        nf = norm(ctx.facts(okb))
        for (pos, size, img) in (("left", "width", "img_width"), ("top", "height", "img_height")):
            key = "%s+%s" % (pos, size)
            verdict = None
            for (op, a, b) in nf:
                for (o, l, r) in ((op, a, b), (FLIP[op], b, a)):
                    if o not in ("Le", "Lt"):
                        continue
                    ls, rs = strip_widen(l), strip_widen(r)
                    # size <= img - pos
                    if is_param(ls, size) and rs[0] == "bin" and rs[1] == "Sub" and \
                            is_param(rs[2], img) and is_param(rs[3], pos):
                        # needs pos <= img
                        if any((o2 in ("Le", "Lt") and is_param(l2, pos) and is_param(r2, img))
                               for (op2, a2, b2) in nf
                               for (o2, l2, r2) in ((op2, a2, b2), (FLIP[op2], b2, a2))):
                            verdict = ("ok", "%s <= %s - %s after %s < %s" % (size, img, pos, pos, img))
                    # pos + size <= img with a sum that cannot wrap
                    if ls[0] == "bin" and ls[1] == "Add" and is_param(rs, img) and (
                            (is_param(ls[2], pos) and is_param(ls[3], size)) or
                            (is_param(ls[3], pos) and is_param(ls[2], size))):
                        def _widened(x):
                            return x[0] == "cast" and x[1] == "IntToInt" and len(x) > 3 and \
                                str(x[3]) in (("u64", "i64", "u128", "i128", "usize", "isize")
                                              if prog.config.get("ptr_bits", 64) >= 64 else
                                              ("u64", "i64", "u128", "i128"))
                        # computed in a wider type: both addends are widened BEFORE they are added (a
                        # cast of the finished u32 sum has wrapped already)
                        wide = _widened(ls[2]) and _widened(ls[3])
                        if wide:
                            verdict = ("ok", "%s + %s computed in a wider type" % (pos, size))
                        elif verdict is None:
                            verdict = ("wrap", "%s + %s <= %s is checked on a u32 sum that can wrap"
                                       % (pos, size, img))
                    if ls[0] == "call" and ls[1] == "checked_add":
                        verdict = verdict or ("unk", "checked_add form")
                    if ls[0] == "call" and ls[1] == "saturating_add" and len(ls[2]) == 2 and o == "Le" \
                            and is_param(rs, img) and (
                            (is_param(ls[2][0], pos) and is_param(ls[2][1], size)) or
                            (is_param(ls[2][1], pos) and is_param(ls[2][0], size))) and verdict is None:
                        verdict = ("saturated", "%s.saturating_add(%s) <= %s is the bound: a sum beyond "
                                   "u32::MAX is clamped to u32::MAX and then equals an image size of "
                                   "u32::MAX, so the box %s = 10, %s = u32::MAX is accepted for such an image "
                                   "(a custom view; rows / columns past the end)" % (pos, size, img, pos, size))
                    # wrong axis
                    if is_param(ls, size) and rs[0] == "bin" and rs[1] == "Sub" and \
                            is_param(rs[3], pos) and not is_param(rs[2], img) and verdict is None:
                        verdict = ("axis", "%s is compared with %s" % (size, fmt(rs)))
            if verdict is None:
                if any(mentions(c, ("param", f.param_index(size), size)) for c in
                       [x for t3 in nf for x in t3[1:]]):
                    rep.unk(rule, key, f.loc, "a guard mentions %s but not in a recognised form"
                            % size)
                else:
                    rep.bad(rule, key, f.loc, "check_crop_box returns Ok without bounding %s + %s "
                            "by %s" % (pos, size, img))
            elif verdict[0] == "ok":
                rep.ok(rule, key, f.loc, verdict[1])
            elif verdict[0] == "unk":
                rep.unk(rule, key, f.loc, verdict[1])
            else:
                rep.bad(rule, "%s|%s" % (key, verdict[0]), f.loc, verdict[1])


def constructors_validate(rep, prog, rule):
    """establishment rule: every aggregate of a cropped-view type is dominated by the Ok edge
    of check_crop_box with the same operands in the same roles"""
    rep.rule(rule, "every construction (aggregate) of TypedCroppedImage{,Mut} / CroppedImage{,Mut} "
             "is dominated by the Ok edge of check_crop_box(img.width(), img.height(), left, top, "
             "width, height) whose last four arguments are exactly the fields stored")
    targets = ("TypedCroppedImage", "TypedCroppedImageMut", "CroppedImage", "CroppedImageMut")
    n = 0
    for f in sorted(prog.fns.values(), key=lambda x: x.id):
        aggs = []
        for b, blk in enumerate(f.blocks):
            if blk["c"]:
                continue
            for st in blk["s"]:
                if st[0] == "a" and st[2][0] == "agg" and st[2][1] == "adt" and \
                        st[2][2].rsplit("::", 1)[-1] in targets:
                    aggs.append((b, st))
        if not aggs:
            continue
        rep.touch(f)
        sym = Sym(f)
        dom = Dom(f)
        for (b, st) in aggs:
            n += 1
            adt = prog.adts[st[2][2]]
            names = [x[0] for x in adt["variants"][0]["fields"]]
            ops = {nm: sym.operand(o) for nm, o in zip(names, st[2][4])}
            key = "%s|%s" % (f.name, st[2][2].rsplit("::", 1)[-1])
            if not all(nm in names for nm in ("left", "top", "width", "height")):
                rep.unk(rule, key, st[3], "%s no longer stores left / top / width / height itself (fields: "
                        "%s): where its rectangle is validated was not followed" % (
                            st[2][2].rsplit("::", 1)[-1], ", ".join(names)))
                continue
            # find a dominating check_crop_box call whose `?`-continue edge dominates b
            found = None
            found_args = None
            for c in f.calls():
                if not dom.dominates(c.bb, b):
                    continue
                eff = _check_crop_box_args(prog, f, sym, c)
                if eff is not None:
                    found, found_args = c, eff
            if found is None:
                rep.bad(rule, key, st[3], "%s builds %s without a dominating check_crop_box call"
                        % (f.name, st[2][2].rsplit("::", 1)[-1]))
                continue
            # the aggregate must be on the success side: not reachable through an Err edge only
            args = found_args
            want = [ops.get("left"), ops.get("top"), ops.get("width"), ops.get("height")]
            if args[2:6] == want:
                img_ok = (strip_widen(args[0])[0] == "call" and strip_widen(args[0])[1] == "width"
                          and strip_widen(args[1])[0] == "call" and strip_widen(args[1])[1] == "height")
                ok_side = _on_ok_side(f, sym, dom, found, b)
                if img_ok and ok_side:
                    rep.ok(rule, key, st[3], "validated by check_crop_box(%s)" % ", ".join(
                        fmt(a) for a in args))
                elif not ok_side:
                    rep.bad(rule, key + "|edge", st[3], "the aggregate is not dominated by the "
                            "success edge of check_crop_box")
                else:
                    rep.bad(rule, key + "|image-size", st[3], "check_crop_box is called with "
                            "(%s, %s) instead of the wrapped image's (width(), height())" % (
                                fmt(args[0]), fmt(args[1])))
            else:
                rep.bad(rule, key + "|roles", st[3], "fields (left,top,width,height) = (%s) but "
                        "check_crop_box validated (%s)" % (
                            ", ".join(fmt(x) if x else "?" for x in want),
                            ", ".join(fmt(a) for a in args[2:6])))
    rep.floor(rule, "cropped-view aggregates", n, 6)


_RECT_VALIDATORS = {}


def _is_rect_validator(prog, c):
    """the validator of integer rectangles, recognised by its shape rather than by its name:
    a crate-local function of six u32 parameters (image width / height, left, top, width,
    height) that returns Result<(), CropBoxError>"""
    key = id(prog)
    if key not in _RECT_VALIDATORS:
        ids = set()
        for g in prog.fns.values():
            if g.kind == "closure" or g.arg_count != 6:
                continue
            out = g.d.get("output") or ""
            if "CropBoxError" in out and out.replace(" ", "").startswith(("std::result::Result<(),", "Result<(),")) \
                    and all((g.local_ty(i) or "") == "u32" for i in range(1, 7)):
                ids.add(g.id)
        _RECT_VALIDATORS[key] = ids
    tg = prog.call_targets(c)
    if len(tg) == 1 and tg[0].id in _RECT_VALIDATORS[key]:
        return True
    return c.name.endswith("check_crop_box")


def _check_crop_box_args(prog, f, sym, c, depth=0):
    """the arguments check_crop_box receives when call c is made: c calls it directly, or calls
    a crate-local wrapper whose result is the result of (a wrapper of) check_crop_box; the
    wrapper's parameters are replaced by c's arguments. None otherwise"""
    args = [sym.operand(a, (c.bb, "term")) for a in c.args]
    if _is_rect_validator(prog, c):
        return args
    if depth > 2:
        return None
    tg = prog.call_targets(c)
    if len(tg) != 1 or tg[0].kind == "closure" or "Result<" not in (tg[0].d.get("output") or ""):
        return None
    g = tg[0]
    if len(args) != g.arg_count:
        return None
    gs = Sym(g)
    inner = None
    for c2 in g.calls():
        eff = _check_crop_box_args(prog, g, gs, c2, depth + 1)
        if eff is not None:
            # the wrapper returns exactly what the check returns
            if c2.dest and c2.dest[0] == 0 or any(
                    st[0] == "a" and st[1] == [0] and st[2][0] == "use" and st[2][1][0] in ("c", "m")
                    and st[2][1][1] == [c2.dest[0]] for blk in g.blocks for st in blk["s"]):
                inner = eff if inner is None else None
    if inner is None:
        return None
    mapping = {("param", i + 1, g.local_name(i + 1)): a for i, a in enumerate(args)}
    return [project(inline_pure(prog, subst(e, mapping))) for e in inner]


def project(e):
    """[a, b, c][1] -> b and (a, b).0 -> a (values that travel as an array / tuple)"""
    if not isinstance(e, tuple) or not e:
        return e
    e = tuple(project(x) if isinstance(x, tuple) else x for x in e)
    if e[0] == "index" and len(e) >= 3 and isinstance(e[1], tuple) and e[1] and e[1][0] == "agg" \
            and e[1][1] in ("array", "tuple"):
        k = e[2]
        while isinstance(k, tuple) and k and k[0] == "cast":
            k = k[2]
        if isinstance(k, tuple) and k and k[0] == "const" and isinstance(k[1], int) and k[1] < len(e[1][4]):
            return e[1][4][k[1]]
    if e[0] == "field" and isinstance(e[1], tuple) and e[1] and e[1][0] == "agg" and e[1][1] == "tuple":
        try:
            k = int(e[2])
        except (TypeError, ValueError):
            return e
        if k < len(e[1][4]):
            return e[1][4][k]
    return e


def _on_ok_side(f, sym, dom, call, b):
    """b is dominated by the Continue edge of `call(..)?`"""
    for (p, s, cond, val) in sym.edge_facts():
        if cond[0] == "discr":
            inner = cond[1]
            if inner[0] == "callat" and inner[2] == "branch" and inner[3] and \
                    inner[3][0][0] == "callat" and inner[3][0][1] == call.bb:
                if val == 0 and dom.dominates(s, b):
                    return True
    return False


def unchecked_crop(rep, prog, rule):
    rep.rule(rule, "CroppedSrcImageView::crop_unchecked (which skips the NaN / sign / bounds "
             "validation of the f64 crop box) is only called with the box of an already validated "
             "CroppedSrcImageView (crop_box(x)) or with a literal box built from the view's own "
             "width()/height(); a box that comes from the options (user crop, fit-into-destination, "
             "whole-image default) must go through CroppedSrcImageView::crop")
    n = 0
    for f in sorted(prog.fns.values(), key=lambda x: x.id):
        for c in f.calls():
            if not c.name.endswith("crop_unchecked") or len(c.args) < 2:
                continue
            n += 1
            rep.touch(f)
            sym = Sym(f)
            box = sym.operand(c.args[1], (c.bb, "term"))
            b = box
            while b[0] == "cast":
                b = b[2]
            key = "%s|crop_unchecked" % f.name
            s = fmt(b)
            if b[0] in ("call", "callat") and (b[1] if b[0] == "call" else b[2]) == "crop_box":
                rep.ok(rule, key, c.at, "box = %s (validated when that view was built)" % s[:80])
            elif b[0] == "agg" and b[1] == "adt" and b[2].endswith("CropBox"):
                ops = [fmt(o) for o in b[4]]
                if ops[0] in ("0.0", "0") and ops[1] in ("0.0", "0") and "width(" in ops[2] \
                        and "height(" in ops[3]:
                    rep.ok(rule, key, c.at, "literal box (0, 0, width(), height())")
                else:
                    rep.unk(rule, key, c.at, "literal box %s" % ops)
            elif re.search(r"get_crop_box|fit_src_into_dst_size|options|SrcCropping|\bcrop_box\b(?!\()", s) \
                    and any((re.search(r"\.(left|top|width|height)\b", fmt(cc)) and
                             re.search(r"\b(width|height)\((src_view|image_view|self)", fmt(cc)))
                            or re.search(r"is_nan|is_finite", fmt(cc))
                            for cc, vv in sym.facts_at(c.bb)):
                rep.unk(rule, key, c.at, "the box %s reaches crop_unchecked behind checks of its own "
                        "fields; whether they amount to the validation of crop() is not decided"
                        % s[:80])
            elif re.search(r"get_crop_box|fit_src_into_dst_size|options|SrcCropping|\bcrop_box\b(?!\()", s):
                rep.bad(rule, key, c.at, "%s hands the unvalidated box %s to crop_unchecked: a box "
                        "computed from the options can be NaN (f64::clamp keeps NaN, so "
                        "fit_into_destination(Some((NaN, 0.5))) yields left = NaN), negative or "
                        "outside the image, and is then accepted instead of being rejected with "
                        "CropBoxError" % (f.name, s[:120]))
            else:
                rep.unk(rule, key, c.at, "box = %s: provenance not recognised" % s[:120])
    rep.floor(rule, "crop_unchecked call sites", n, 1)


# ---- crate-local boolean predicates ---------------------------------------------------------

def _callee_of(prog, e):
    if not isinstance(e, tuple) or not e or e[0] not in ("call", "callat"):
        return None, None
    res = e[4] if e[0] == "callat" else e[3]
    args = e[3] if e[0] == "callat" else e[2]
    g = prog.fns.get(res) if isinstance(res, str) else None
    if g is None or g.d.get("output") != "bool":
        return None, None
    return g, args


def predicate_parts(prog, e):
    """all conditions and returned expressions of a crate-local bool function called by e, with
    the arguments substituted (what the result of the call depends on)"""
    g, args = _callee_of(prog, e)
    if g is None:
        return []
    gs = Sym(g)
    mapping = {("param", i + 1, g.local_name(i + 1)): a for i, a in enumerate(args)}
    out = []
    for (bb, j, rv, w) in g.defs().get(0, []):
        out.append(subst(gs.rvalue(rv, bb, (bb, j)), mapping))
        for cond, val in gs.facts_at(bb):
            out.append(subst(cond, mapping))
    return out


def alternatives_when(prog, e, val):
    """see sym.call_alternatives"""
    from ..sym import call_alternatives
    return call_alternatives(prog, e, val)


def implied_when(prog, e, val):
    """facts (cond, bool) that hold whenever the crate-local bool call e returns `val`:
    the intersection, over the return definitions that can produce `val`, of their path facts
    (+ the returned expression == val)"""
    g, args = _callee_of(prog, e)
    if g is None:
        return None
    gs = Sym(g)
    mapping = {("param", i + 1, g.local_name(i + 1)): a for i, a in enumerate(args)}
    alts = []
    for (bb, j, rv, w) in g.defs().get(0, []):
        r = gs.rvalue(rv, bb, (bb, j))
        if r[0] == "const" and isinstance(r[1], bool):
            if r[1] != val:
                continue
            facts = set()
        else:
            facts = {(subst(r, mapping), val)}
        for cond, v in gs.facts_at(bb):
            if isinstance(v, bool):
                facts.add((subst(cond, mapping), v))
        alts.append(facts)
    if not alts:
        return set()
    return set.intersection(*alts)


def crop_passthrough(rep, prog, rule):
    """the crop box a CroppedSrcImageView carries is the one it was given"""
    rep.rule(rule, "every constructor of CroppedSrcImageView that receives a CropBox stores exactly "
             "that value (the aggregate's crop_box field is the parameter itself): the resamplers "
             "compute pixel positions from the stored box, so a box that was rounded, snapped to "
             "the pixel grid or clamped on the way maps destination pixels to other source "
             "positions than the caller's box does (for Nearest: floor(left + ..) of a left that "
             "was moved across an integer)")
    adt = prog.adt_ids("CroppedSrcImageView")
    if len(adt) != 1:
        rep.unk(rule, "anchor", "", "struct CroppedSrcImageView not found")
        return
    fields = [x[0] for x in prog.adts[adt[0]]["variants"][0]["fields"]]
    if "crop_box" not in fields:
        rep.unk(rule, "anchor|field", "", "CroppedSrcImageView has no field crop_box")
        return
    fi = fields.index("crop_box")
    n = 0
    for f in sorted(prog.fns.values(), key=lambda x: x.id):
        if f.kind == "closure":
            continue
        params = [i for i in range(1, f.arg_count + 1) if (f.local_ty(i) or "").endswith("CropBox")]
        sym = None
        for b, blk in enumerate(f.blocks):
            if blk["c"]:
                continue
            for j, st in enumerate(blk["s"]):
                if not (st[0] == "a" and st[2][0] == "agg" and st[2][1] == "adt" and st[2][2] == adt[0]):
                    continue
                if not params:
                    continue
                sym = sym or Sym(f)
                rep.touch(f)
                n += 1
                e = sym.operand(st[2][4][fi], (b, j))
                key = "%s" % f.name
                if e[0] == "param" and e[1] in params:
                    rep.ok(rule, key, st[3], "stores its parameter `%s`" % e[2])
                elif any(("param", i, f.local_name(i)) in atoms(e) for i in params) or \
                        any(f.local_name(i) and f.local_name(i) in fmt(e) for i in params):
                    rep.bad(rule, key + "|modified", st[3],
                            "%s stores %s instead of its parameter: the crop box is altered between the "
                            "caller and the resamplers" % (f.name, fmt(e)[:160]))
                else:
                    rep.unk(rule, key, st[3], "stored crop box %s" % fmt(e)[:120])
    rep.floor(rule, "constructors that take a CropBox", n, 2)


def _grid_eval(e, env):
    """value of an integer / bool expression over the parameters in `env` (name -> int; the
    length of the buffer parameter under "len"); None when a node is not understood"""
    if not isinstance(e, tuple) or not e:
        return None
    k = e[0]
    if k == "param":
        return env.get(e[2])
    if k == "const":
        return e[1] if isinstance(e[1], (int, bool)) else None
    if k in ("ovf", "exact", "copy", "deref", "ref"):
        return _grid_eval(e[1], env)
    if k == "cast":
        return _grid_eval(e[2], env)          # sizes on the grid are far from any type bound
    if k == "field" and str(e[2]) == "0":
        return _grid_eval(e[1], env)          # `.0` of an overflow pair
    if k == "bin":
        a, b = _grid_eval(e[2], env), _grid_eval(e[3], env)
        if a is None or b is None:
            return None
        op = e[1].replace("WithOverflow", "").replace("Unchecked", "")
        try:
            return {"Add": lambda: a + b, "Sub": lambda: a - b, "Mul": lambda: a * b,
                    "Div": lambda: a // b if b else None, "Rem": lambda: a % b if b else None,
                    "Lt": lambda: a < b, "Le": lambda: a <= b, "Gt": lambda: a > b, "Ge": lambda: a >= b,
                    "Eq": lambda: a == b, "Ne": lambda: a != b,
                    "BitAnd": lambda: a & b, "BitOr": lambda: a | b}.get(op, lambda: None)()
        except Exception:
            return None
    if k == "un" and len(e) > 2:
        a = _grid_eval(e[2], env)
        return (not a) if a is not None and e[1] == "Not" else None
    if k in ("call", "callat"):
        nm = e[1] if k == "call" else e[2]
        args = e[2] if k == "call" else e[3]
        if nm == "len" and len(args) == 1:
            return env.get("len")
        if nm in ("size", "size_of"):
            return env.get("size")
        vals = [_grid_eval(a, env) for a in args]
        if any(v is None for v in vals):
            return None
        if nm == "max" and len(vals) == 2:
            return max(vals)
        if nm == "min" and len(vals) == 2:
            return min(vals)
        if nm in ("get", "from", "into") and len(vals) == 1:
            return vals[0]
        if nm == "saturating_sub" and len(vals) == 2:
            return max(0, vals[0] - vals[1])
        if nm == "saturating_mul" and len(vals) == 2:
            return vals[0] * vals[1]
        if nm == "div_ceil" and len(vals) == 2:
            return -(-vals[0] // vals[1]) if vals[1] else None
        if nm == "is_empty" and len(args) == 1:
            return env.get("len") == 0
    return None


def size_exact(rep, prog, rule):
    """acceptance of the typed containers is exactly `len >= width * height`"""
    rep.rule(rule, "the constructors of the typed containers (TypedImageRef::new, TypedImage::from_pixels, "
             "from_pixels_slice) accept a pixel container IF AND ONLY IF it holds at least width * height "
             "pixels: the conditions on the path to `Ok` (predicate helpers inlined) are evaluated on a "
             "grid of small sizes -- width, height in 0..=5, lengths 0..=30 -- and compared with "
             "`len >= width * height`. `C04.buffers` proves the 'only if' side for every size (no wrap); "
             "this clause finds the over-strict and the zero-size cases (`len / max(width, 1) >= height` "
             "refuses a 0 x 3 image over an empty slice, which needs no pixel)")
    n = 0
    for name, bparam, need_size, need_align in BUFFER_VALIDATORS:
        if need_size:
            continue
        fs = [f for f in prog.fns.values() if f.name == name] or prog._by_tail(name)
        if len(fs) != 1:
            rep.unk(rule, "%s|anchor" % name.rsplit("::", 1)[-1], "", "constructor not found")
            continue
        f = fs[0]
        n += 1
        rep.touch(f)
        ctx = Ctx(prog, f)
        key = "%s|exact" % name
        oks = ok_blocks(f)
        if not oks:
            rep.unk(rule, key, f.loc, "no Ok return found")
            continue
        paths = []
        for okb in oks:
            facts = expand_facts(prog, f, ctx.sym, ctx.facts(okb))
            paths.append([(unexact(resolve_helpers(prog, c)), v) for c, v in facts])
        wname = f.local_name(1) if f.arg_count >= 1 else "width"
        bad = None
        unknown = None
        for w in range(0, 6):
            for h in range(0, 6):
                for ln in range(0, 31):
                    env = {"len": ln}
                    for i in range(1, f.arg_count + 1):
                        nm = f.local_name(i)
                        ty = f.local_ty(i) or ""
                        if ty == "u32" and "width" not in env and nm not in env:
                            env[nm] = None
                    ints = [f.local_name(i) for i in range(1, f.arg_count + 1) if (f.local_ty(i) or "") == "u32"]
                    if len(ints) != 2:
                        unknown = "the constructor does not take (width, height) as its two u32 parameters"
                        break
                    env[ints[0]], env[ints[1]] = w, h
                    acc = False
                    for facts in paths:
                        vals = []
                        for c, v in facts:
                            r = _grid_eval(c, env)
                            if r is None:
                                unknown = "condition %s is not evaluated" % fmt(c)[:80]
                                break
                            vals.append(bool(r) == bool(v))
                        if unknown:
                            break
                        if all(vals):
                            acc = True
                    if unknown:
                        break
                    ref = ln >= w * h
                    if acc != ref and bad is None:
                        bad = (w, h, ln, acc, ref)
                if unknown:
                    break
            if unknown:
                break
        if unknown:
            rep.unk(rule, key, f.loc, unknown)
        elif bad:
            w, h, ln, acc, ref = bad
            rep.bad(rule, key, f.loc, "%s %s a %d x %d image over a container of %d pixels, which %s: "
                    "the size test on its Ok path is not `len >= width * height`" % (
                        f.name, "accepts" if acc else "refuses", w, h, ln,
                        "is too small" if acc else "is large enough (%d needed)" % (w * h)))
        else:
            rep.ok(rule, key, f.loc, "acceptance equals len >= width * height on the whole grid (6 x 6 x 31)")
    rep.floor(rule, "typed container constructors", n, 3)


PANIC_RE = re.compile(r"(^|::)(panicking::(panic|panic_fmt|panic_explicit|assert_failed\w*|panic_display|"
                      r"unreachable_display|panic_nounwind\w*)|rt::(begin_panic|panic_fmt)|"
                      r"option::(unwrap_failed|expect_failed)|result::unwrap_failed)$")


def validators_no_panic(rep, prog, rule, files=("src/crop_box.rs", "src/images/")):
    """a function that answers with a validation error does not also panic"""
    rep.rule(rule, "a function of the geometry / container layer whose result type carries a validation "
             "error (CropBoxError, ImageBufferError, InvalidPixelsSize, ...) reports every input it does "
             "not accept through that error: it contains no explicit panic (assert!, panic!, unreachable!, "
             "a compiler-inserted unwrap_failed) on a path that depends on its arguments. `assert!(right."
             "is_finite())` after the NaN checks panics for a crop box with an infinite size, which the "
             "following comparison would have refused with SizeIsOutOfImageBoundaries. (Arithmetic "
             "overflow checks are C04.arith's business; debug_assert! is compiled in the checked "
             "configuration and counts.)")
    n = 0
    for f in sorted(prog.fns.values(), key=lambda x: x.id):
        if f.kind == "closure":
            continue
        if not any(f.file == prog.file_now(s_) or (s_.endswith("/") and (f.file or "").startswith(s_)) for s_ in files):
            continue
        out = f.d.get("output") or ""
        if not re.search(r"Result<.*(CropBoxError|ImageBufferError|InvalidPixelsSize|ImageError|"
                         r"DifferentDimensionsError|MappingError)", out):
            continue
        n += 1
        rep.touch(f)
        ps = [c for c in f.calls() if PANIC_RE.search(c.name or "") and not f.is_cleanup(c.bb)]
        key = "%s|no-panic" % f.name
        if not ps:
            rep.ok(rule, key, f.loc, "no explicit panic")
            continue
        for c in ps:
            rep.bad(rule, "%s|%s" % (f.name, "assert" if (c.macro and "assert" in str(c.macro)) else "panic"),
                    c.at, "%s returns %s but also panics (%s%s): an input that reaches this call is "
                    "neither accepted nor refused with the documented error" % (
                        f.name, out[:60], (c.name or "").rsplit("::", 1)[-1],
                        " from %s" % c.macro if c.macro else ""))
    rep.floor(rule, "validating functions", n, 8)


def crop_route(rep, prog, rule):
    """the user's crop box reaches the validator / the view untouched"""
    rep.rule(rule, "a CropBox that a function RECEIVED (a parameter, the payload of "
             "SrcCropping::Crop, the result of a call) is handed on as it is: (a) a function that "
             "returns a CropBox and reads one out of an enum payload returns exactly that payload on "
             "that arm; (b) no field of a received CropBox is assigned in place and no `&mut` of it "
             "is taken. The box the validator sees must be the caller's box (C04: a box outside the "
             "image is refused, not repaired) and the box the resamplers use must be the one that "
             "was validated / fitted (C15: the fitted box lies inside the source because "
             "fit_src_into_dst_size computed position and size TOGETHER)")
    n = 0
    for f in sorted(prog.fns.values(), key=lambda x: x.id):
        if f.kind == "closure":
            continue
        cbs = [l for l in range(len(f.locals))
               if re.match(r"^([a-z_0-9]+::)*CropBox$", f.local_ty(l) or "")]
        if not cbs:
            continue
        defs = f.defs()
        sym = None
        # (b) in-place edits of a received box
        for l in cbs:
            ds = defs.get(l, [])
            whole = [d for d in ds if d[3]]
            part = [d for d in ds if not d[3]]
            received = (1 <= l <= f.arg_count) or any(
                d[2][0] == "callret" or (d[2][0] == "use" and "'dc'" in str(d[2])) or
                d[2][0] == "use" for d in whole)
            built = any(d[2][0] == "agg" for d in whole)
            muts = []
            for b, blk in enumerate(f.blocks):
                if blk["c"]:
                    continue
                for j, st in enumerate(blk["s"]):
                    if st[0] == "a" and st[2][0] == "ref" and st[2][1] in ("mut", "two_phase") \
                            and st[2][2][0] == l:
                        muts.append((b, j, st))
            if not part and not muts:
                if received:
                    n += 1
                    rep.touch(f)
                    rep.ok(rule, "%s|%s|as-received" % (f.name, f.local_name(l) or "_%d" % l), f.loc,
                           "no field is assigned, no &mut is taken")
                continue
            n += 1
            rep.touch(f)
            key = "%s|%s|edited" % (f.name, f.local_name(l) or "_%d" % l)
            if received and not built:
                b, j = (part[0][0], part[0][1]) if part else (muts[0][0], muts[0][1])
                at = f.blocks[b]["s"][j][3] if isinstance(j, int) else f.loc
                rep.bad(rule, key, at, "%s changes the crop box `%s` it received (%d field "
                        "assignment(s), %d &mut): the box that is validated / used is not the one "
                        "the caller or fit_src_into_dst_size produced" % (
                            f.name, f.local_name(l) or "_%d" % l, len(part), len(muts)))
            else:
                rep.unk(rule, key, f.loc, "a CropBox built here is also edited in place")
        # (a) payload arms
        if 0 not in cbs:
            continue
        for b, blk in enumerate(f.blocks):
            if blk["c"]:
                continue
            for j, st in enumerate(blk["s"]):
                if not (st[0] == "a" and len(st[1]) == 1 and st[1][0] in cbs and st[2][0] == "use"
                        and "'dc'" in str(st[2])):
                    continue
                x = st[1][0]
                # blocks of this arm: forward from b up to (not including) the first join block
                seen, todo, found = set(), [b], []
                while todo:
                    k = todo.pop()
                    if k in seen:
                        continue
                    seen.add(k)
                    for (bb, jj, rv, w) in defs.get(0, []):
                        if bb == k and (bb != b or jj == "term" or jj > j):
                            found.append((bb, jj, rv, w))
                    for s2 in f.succ[k]:
                        if len([p for p in f.pred[s2] if not f.is_cleanup(p)]) > 1:
                            continue       # the join: the other arms' business
                        todo.append(s2)
                n += 1
                rep.touch(f)
                key = "%s|payload" % f.name
                if not found:
                    rep.unk(rule, key, st[3], "no assignment of the result on the payload arm")
                    continue
                sym = sym or Sym(f)
                ex = sym.rvalue(st[2], b, (b, j))
                for (bb, jj, rv, w) in found:
                    same_val = False
                    if w and rv[0] == "use":
                        try:
                            same_val = sym.rvalue(rv, bb, (bb, jj)) == ex
                        except Exception:
                            same_val = False
                    if w and rv[0] == "use" and (ir.op_place(rv[1]) == [x] or same_val):
                        rep.ok(rule, key, st[3], "the payload is returned as it is")
                    else:
                        rep.bad(rule, key + "|modified", st[3],
                                "%s reads a CropBox out of an enum payload and returns something "
                                "else on that arm (%s): the user's box is altered before it is "
                                "validated" % (f.name, str(rv[0])))
    rep.floor(rule, "received crop boxes", n, 8)


def align_reject(rep, prog, rule):
    """byte buffers are refused for misalignment only"""
    rep.rule(rule, "the helpers that reinterpret a byte buffer as pixels (align_buffer_to / "
             "align_buffer_to_mut: `buffer.align_to::<P>()` = (head, pixels, tail)) refuse a buffer "
             "only because of a non-empty HEAD (misaligned start) and accept exactly when the head "
             "is empty: trailing bytes that do not form a whole pixel are ignored. A rejection that "
             "depends on the tail refuses buffers that are large and aligned enough (any oversized "
             "buffer whose length is not a multiple of the pixel size), with an alignment / size "
             "error, and the constructors of Image / ImageRef -- which check size and alignment "
             "themselves and unwrap the typed view later -- panic on such an image")
    n = 0
    for f in sorted(prog.fns.values(), key=lambda x: x.id):
        if f.kind == "closure" or not re.search(r"::align_buffer_to(_mut)?$", f.name):
            continue
        n += 1
        rep.touch(f)
        sym = Sym(f)
        key = f.name.rsplit("::", 1)[-1]
        bad = unk = None
        n_ok = 0
        for (bb, j, rv, whole) in f.defs().get(0, []):
            r = sym.rvalue(rv, bb, (bb, j))
            facts = sym.facts_at(bb)
            is_err = r[0] == "agg" and r[1] == "adt" and r[3] == "Err"
            is_ok = r[0] == "agg" and r[1] == "adt" and r[3] == "Ok"
            txt = [(fmt(c), v) for c, v in facts]
            tail_dep = [t for t in txt if re.search(r"align_to(_mut)?@bb\d+\([^)]*\)\.2", t[0])]
            head_dep = [t for t in txt if re.search(r"align_to(_mut)?@bb\d+\([^)]*\)\.0", t[0])]
            if is_err and tail_dep:
                bad = (bb, tail_dep[0])
            elif is_err and not head_dep:
                unk = (bb, txt)
            elif is_ok:
                n_ok += 1
                if tail_dep:
                    bad = (bb, tail_dep[0])
            elif not is_err:
                unk = (bb, [("return value %s" % fmt(r)[:60], None)])
        if bad:
            rep.bad(rule, key + "|tail", f.loc,
                    "%s decides on the tail of align_to (%s is %s): a buffer with trailing bytes that is "
                    "large and aligned enough is refused" % (f.name, bad[1][0][:70], bad[1][1]))
        elif unk or not n_ok:
            rep.unk(rule, key, f.loc, "return paths not recognised: %s" % (unk[1][:2] if unk else "no Ok path"))
        else:
            rep.ok(rule, key, f.loc, "refuses only a non-empty head")
    rep.floor(rule, "byte-buffer reinterpretation helpers", n, 2)


def crop_validated_first(rep, prog, rule):
    """success is not decided on an unvalidated crop box"""
    from . import flow
    from ..cfg import Dom
    rep.rule(rule, "in the function that holds the resize pipeline no `Ok(())` is returned on a "
             "condition over the fields of the crop box before CroppedSrcImageView::crop has "
             "accepted that box: a 'nothing to do' exit on `crop_box.width == 0.` placed before the "
             "validation accepts boxes with a NaN, negative, infinite or far-away origin or extent "
             "as long as one extent is zero (`crop(-5, 0, 0, 3)` returns Ok)")
    f = flow.pipeline_body(prog)
    rep.touch(f)
    sym = Sym(f)
    dom = Dom(f)
    crops = [c for c in f.calls() if re.search(r"CroppedSrcImageView::<'a, T>::crop$", c.name)]
    if not crops:
        rep.unk(rule, "anchor", f.loc, "no call of CroppedSrcImageView::crop in %s" % f.name)
        return
    # blocks on the Ok side of the validation
    ok_side = set()
    for (p_, s_, cond, val) in sym.edge_facts():
        if cond[0] == "discr" and val == 0 and re.search(r"\bcrop@bb\d+\(", fmt(cond)) and "branch" in fmt(cond):
            ok_side.add(s_)
    n = 0
    for b, blk in enumerate(f.blocks):
        if blk["c"]:
            continue
        for j, st in enumerate(blk["s"]):
            if not (st[0] == "a" and st[1] == [0] and st[2][0] == "agg" and st[2][1] == "adt"
                    and str(st[2][2]).endswith("result::Result") and st[2][3][1] == "Ok"):
                continue
            n += 1
            if any(dom.dominates(o, b) for o in ok_side):
                rep.ok(rule, "ok-return#%d" % n, st[3], "after the crop box was accepted")
                continue
            # conditions decided on the edges that lead straight to this return (a `||` chain has
            # one edge per operand; the join itself carries no common fact)
            def leads_here(x, seen=None):
                seen = seen or set()
                while x not in seen:
                    seen.add(x)
                    if x == b:
                        return True
                    if len(f.succ[x]) != 1 or f.blocks[x]["t"][0] == "call":
                        return False
                    x = f.succ[x][0]
                return False
            cands = [(c, v) for c, v in sym.facts_at(b)]
            cands += [(c, v) for (p_, s_, c, v) in sym.edge_facts() if leads_here(s_)]
            on_box = [fmt(c)[:70] for c, v in cands
                      if re.search(r"get_crop_box@bb\d+\(.*\)\.(left|top|width|height)\b", fmt(c))
                      or re.search(r"\bcrop_box\.(left|top|width|height)\b", fmt(c))]
            if on_box:
                rep.bad(rule, "ok-before-validation", st[3],
                        "%s returns Ok(()) when %s, before the crop box is validated: a box with an "
                        "invalid origin or extent is accepted whenever its width or height is zero"
                        % (f.name, "; ".join(on_box[:2])))
            else:
                rep.ok(rule, "ok-return#%d" % n, st[3], "does not depend on the crop box")
    rep.floor(rule, "Ok returns of the pipeline function", n, 2)
