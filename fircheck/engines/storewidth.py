"""Extent discipline of raw stores (C03 / C05).

Every store through a raw pointer in the kernel, alpha and SIMD-helper modules -- the store
intrinsics of the three instruction sets, `ptr::write{,_unaligned}` and assignments through
`*mut T` -- is brought to the form

        as_mut_ptr(X) + offset            (bytes)

where X is a slice, array or reference expression. The number of bytes that X owns is read
from the code: the length of a local array, the N of the `chunks_exact_mut(N)` iterator the
chunk comes from (also through `zip` and through the closure protocol of
`foreach_with_pre_reading`), one element for `get_unchecked_mut(row, x)`; a parameter is
resolved at every call site (two levels). `offset + width of the store <= bytes of X` must
hold; a store that ends beyond X writes into the next row, the surroundings of a cropped
view or past the buffer: violation. A pointer or an owner that is not resolved is undecided."""
import re

from ..cfg import Dom, loop_blocks
from ..sym import Sym, fmt, short
from .loadwidth import type_size, _resolve_iter, _strip
from .validators import subst as esubst

SIMD_SIZE = {"std::arch::x86_64::__m128i": 16, "std::arch::x86_64::__m128": 16,
             "std::arch::x86_64::__m128d": 16, "std::arch::x86_64::__m256i": 32,
             "std::arch::x86_64::__m256": 32, "std::arch::x86_64::__m256d": 32,
             "std::arch::wasm32::v128": 16, "usize": None, "isize": None}

STORE_BYTES = [
    (r"^_mm_storeu?_(si128|ps|pd)$", 16), (r"^_mm256_storeu?_(si256|ps|pd)$", 32),
    (r"^_mm_storel_epi64$", 8), (r"^_mm_storeu_si64$", 8), (r"^_mm_storeu_si32$", 4),
    (r"^_mm_storeu_si16$", 2), (r"^_mm_store_ss$", 4), (r"^_mm_store_sd$", 8),
    (r"^vst1_[usf]\d+$", 8), (r"^vst1q_[usf]\d+$", 16),
    (r"^vst1_[usf]\d+_x2$", 16), (r"^vst1_[usf]\d+_x3$", 24), (r"^vst1_[usf]\d+_x4$", 32),
    (r"^vst1q_[usf]\d+_x2$", 32), (r"^vst1q_[usf]\d+_x3$", 48), (r"^vst1q_[usf]\d+_x4$", 64),
    (r"^vst2_[usf]\d+$", 16), (r"^vst2q_[usf]\d+$", 32), (r"^vst3_[usf]\d+$", 24),
    (r"^vst3q_[usf]\d+$", 48), (r"^vst4_[usf]\d+$", 32), (r"^vst4q_[usf]\d+$", 64),
    (r"^v128_store$", 16), (r"^v128_store32_lane$", 4), (r"^v128_store64_lane$", 8),
    (r"^v128_store16_lane$", 2), (r"^v128_store8_lane$", 1),
]
FLOOR = {"x86": 100, "x86-rayon": 100, "arm": 40, "arm-rayon": 40, "wasm": 45}
MODS = ("convolution::", "alpha::", "simd_utils::", "neon_utils::", "wasm32_utils::", "color::",
        "change_components_type")


def ty_size(ty, ptr_bits=64):
    ty = (ty or "").strip()
    if ty in SIMD_SIZE and SIMD_SIZE[ty]:
        return SIMD_SIZE[ty]
    if ty in ("usize", "isize"):
        return ptr_bits // 8
    s = type_size(ty)
    if s:
        return s
    m = re.match(r"^core::arch::\w+::(?:int|uint|float|poly)(\d+)x(\d+)(?:x(\d+))?_t$", ty)
    if m:
        return int(m.group(1)) // 8 * int(m.group(2)) * int(m.group(3) or 1)
    return None


def pointee(ty):
    m = re.match(r"^\*(?:mut|const) (.+)$", (ty or "").strip())
    return m.group(1) if m else None


def elem_of(ty):
    """element type of &mut [T], &[T], [T; N], &mut [T; N]"""
    ty = (ty or "").strip()
    ty = re.sub(r"^&(?:'\w+ )?(?:mut )?", "", ty)
    m = re.match(r"^\[(.+?)(?:; (\d+))?\]$", ty)
    if m:
        return m.group(1), (int(m.group(2)) if m.group(2) else None)
    return None, None


class Ctx:
    def __init__(self, prog, fn):
        self.prog, self.fn = prog, fn
        self.sym = Sym(fn)
        self.dom = None
        self.calls_by_bb = {}
        for c in fn.calls():
            self.calls_by_bb[c.bb] = c

    def dest_ty(self, e):
        """static type of the value of a call expression"""
        if e[0] == "callat":
            c = self.calls_by_bb.get(e[1])
            if c is not None and c.dest:
                return self.fn.local_ty(c.dest[0])
        return None

    def ty_of(self, e):
        if not isinstance(e, tuple) or not e:
            return None
        if e[0] == "cast" and len(e) > 3 and e[3]:
            return e[3]
        if e[0] in ("local", "param"):
            return self.fn.local_ty(e[1])
        if e[0] == "callat":
            return self.dest_ty(e)
        if e[0] == "cast":
            return self.ty_of(e[2])
        return None


def _name(e):
    return e[1] if e[0] == "call" else e[2]


def _args(e):
    return e[2] if e[0] == "call" else e[3]


def canonical(ctx, e, ptr_bits, depth=0):
    """pointer expression -> (owner expression X, owner element size, [(index expr, scale)],
    constant byte offset) or None"""
    if depth > 24 or not isinstance(e, tuple) or not e:
        return None
    if e[0] == "cast":
        return canonical(ctx, e[2], ptr_bits, depth + 1)
    if e[0] == "local":
        ds = [d for d in ctx.sym.defs.get(e[1], []) if d[3]]
        if len(ds) >= 2 and len(ctx.sym.defs.get(e[1], [])) == len(ds):
            return induction(ctx, e, ds, ptr_bits, depth)
        if len(ds) != 1 or len(ctx.sym.defs.get(e[1], [])) != 1:
            return None
        return canonical(ctx, ctx.sym.rvalue(ds[0][2], ds[0][0], (ds[0][0], ds[0][1])), ptr_bits, depth + 1)
    if e[0] in ("call", "callat"):
        n, a = _name(e), _args(e)
        if n in ("add", "offset", "wrapping_add") and len(a) == 2:
            base = canonical(ctx, a[0], ptr_bits, depth + 1)
            if base is None:
                return None
            pt = pointee(ctx.ty_of(a[0]))
            sz = ty_size(pt, ptr_bits) if pt else None
            if sz is None:
                return None
            X, es, idx, off = base
            k = _strip(a[1])
            if k[0] == "const" and isinstance(k[1], int):
                return (X, es, idx, off + k[1] * sz)
            return (X, es, idx + [(a[1], sz)], off)
        if n in ("as_mut_ptr", "as_ptr") and len(a) == 1:
            pt = pointee(ctx.dest_ty(e)) if e[0] == "callat" else None
            es = ty_size(pt, ptr_bits) if pt else None
            X = a[0]
            idx, off = [], 0
            # get_unchecked_mut(buf, RangeFrom{index}) keeps the owner and adds an index
            x = _strip(X)
            if x[0] in ("call", "callat") and _name(x) in ("get_unchecked_mut", "get_unchecked", "index_mut") \
                    and len(_args(x)) == 2:
                r = _strip(_args(x)[1])
                if r[0] == "agg" and "RangeFrom" in str(r[2]):
                    inner = _strip(_args(x)[0])
                    if es is None and inner[0] in ("local", "param"):
                        et, _n = elem_of(ctx.fn.local_ty(inner[1]))
                        es = ty_size(et, ptr_bits) if et else None
                    idx.append((r[4][0], es))        # es None: the owner's element size
                    X = _args(x)[0]
            if es is None:
                x = _strip(X)
                if x[0] in ("local", "param"):
                    et, _n = elem_of(ctx.fn.local_ty(x[1]))
                    es = ty_size(et, ptr_bits) if et else None
            return (X, es, idx, off)
        if n in ("get_unchecked_mut", "index_mut") and len(a) == 2:
            # &mut row[x] used as a pointer: owns one element
            ty = ctx.dest_ty(e) if e[0] == "callat" else None
            t = re.sub(r"^&(?:'\w+ )?(?:mut )?", "", ty or "")
            es = ty_size(t, ptr_bits)
            if es:
                return (("one", e), es, [], 0)
        return None
    return None


def _peel_adds(rv, e):
    """rv = add(add(e, a), b) -> a + b (constants), None if it is not such a chain on e"""
    total = 0
    r = rv
    for _ in range(16):
        while r[0] == "cast":
            r = r[2]
        if r == e:
            return total
        if r[0] in ("call", "callat") and _name(r) in ("add", "offset") and len(_args(r)) == 2:
            k = _strip(_args(r)[1])
            if k[0] == "const" and isinstance(k[1], int) and k[1] >= 0:
                total += k[1]
                r = _args(r)[0]
                continue
        return None
    return None


def trip_count(ctx, header, body, loops):
    """iterations of the loop (header, body) when it is driven by next() on an array IntoIter
    or a constant range"""
    inner = set()
    for h2, b2 in loops.items():
        if h2 != header and b2 < body:
            inner |= b2
    cands = [c for c in ctx.fn.calls() if c.bb in body and c.bb not in inner
             and (c.method or short(c.name)) == "next" and c.args]
    if len(cands) != 1:
        return None
    c = cands[0]
    it = c.args[0]
    if it[0] in ("m", "c") and it[1]:
        ty = ctx.fn.local_ty(it[1][0]) or ""
        # &mut IntoIter<T, K>
        m = re.search(r"array::IntoIter<.*, (\d+)>", ty)
        if m:
            return int(m.group(1))
    e = ctx.sym.operand(it, (c.bb, "term"))
    for _ in range(6):
        while e[0] == "cast":
            e = e[2]
        if e[0] == "local":
            ty = ctx.fn.local_ty(e[1]) or ""
            m = re.search(r"array::IntoIter<.*, (\d+)>", ty)
            if m:
                return int(m.group(1))
            ds = ctx.sym.defs.get(e[1], [])
            whole = [d for d in ds if d[3]]
            if len(whole) != 1:
                return None
            e = ctx.sym.rvalue(whole[0][2], whole[0][0], (whole[0][0], whole[0][1]))
            continue
        if e[0] in ("call", "callat") and _name(e) in ("into_iter", "iter", "by_ref") and _args(e):
            e = _args(e)[0]
            continue
        if e[0] == "ref":
            e = e[1]
            continue
        break
    if e[0] == "agg" and "Range" in str(e[2]) and len(e[4]) == 2:
        lo, hi = _strip(e[4][0]), _strip(e[4][1])
        if lo[0] == "const" and hi[0] == "const" and isinstance(lo[1], int) and isinstance(hi[1], int):
            return max(hi[1] - lo[1], 0)
    if e[0] in ("local", "param"):
        m = re.match(r"^\[.+; (\d+)\]$", ctx.fn.local_ty(e[1]) or "")
        if m:
            return int(m.group(1))
    return None


def induction(ctx, e, ds, ptr_bits, depth):
    """p = init; loops with known trip counts { store(p); p = p.add(k); ... }: at the start of
    the last iteration p is init + (iterations - 1) * advance per iteration"""
    init = None
    steps = []
    for d in ds:
        rv = ctx.sym.rvalue(d[2], d[0], (d[0], d[1]))
        c = _peel_adds(rv, e)
        if c is not None and c > 0:
            steps.append((d, c))
        elif init is None:
            init = (d, rv)
        else:
            return None
    if init is None or not steps:
        return None
    if ctx.dom is None:
        ctx.dom = Dom(ctx.fn)
    loops = loop_blocks(ctx.fn, ctx.dom)
    sblocks = {d[0] for d, _ in steps}
    enclosing = [(h, body) for h, body in loops.items() if sblocks <= body and init[0][0] not in body]
    if not enclosing:
        return None
    # every loop that contains a step must contain all of them (one advance per innermost iteration)
    for h, body in loops.items():
        if (sblocks & body) and not (sblocks <= body):
            return None
    total = 1
    for h, body in enclosing:
        k = trip_count(ctx, h, body, loops)
        if not k:
            return None
        total *= k
    adv = max(c for _, c in steps)
    pt = pointee(ctx.fn.local_ty(e[1]))
    sz = ty_size(pt, ptr_bits) if pt else None
    base = canonical(ctx, init[1], ptr_bits, depth + 1)
    if base is None or sz is None:
        return None
    X, es, idx, off = base
    return (X, es, idx, off + (total - 1) * adv * sz)


def owner_bytes(ctx, X, es, at, ptr_bits, depth=0):
    """bytes owned by the slice / array / reference expression X (None = not resolved),
    as ('ok', bytes, how) | ('param', index) | None"""
    if isinstance(X, tuple) and X and X[0] == "one":
        return ("ok", es, "one element")
    x = X
    for _ in range(6):
        if x[0] == "cast":
            x = x[2]
        elif x[0] in ("call", "callat") and _name(x) in ("deref_mut", "deref", "as_mut_slice", "as_mut",
                                                          "borrow_mut", "as_slice") and _args(x):
            x = _args(x)[0]
        elif x[0] == "ref":
            x = x[1]
        else:
            break
    if x[0] == "field":
        b = x[1]
        while b[0] == "cast":
            b = b[2]
        if b[0] == "callat" and _name(b) in ("get_unchecked_mut", "index_mut"):
            ty = re.sub(r"^&(?:'\w+ )?(?:mut )?", "", ctx.dest_ty(b) or "")
            s = ty_size(ty, ptr_bits)
            if s:
                return ("ok", s, "the components of one pixel")
    if x[0] in ("local", "param"):
        ty = ctx.fn.local_ty(x[1])
        et, n = elem_of(ty)
        if n is not None:
            s = ty_size(et, ptr_bits)
            if s:
                return ("ok", s * n, "%s: [%s; %d]" % (ctx.fn.local_name(x[1]) or "_%d" % x[1], et, n), s)
        if x[0] == "param":
            return ("param", x)
        if x[0] == "local":
            ds = ctx.sym.defs.get(x[1], [])
            if len(ds) == 1 and ds[0][3]:
                return owner_bytes(ctx, ctx.sym.rvalue(ds[0][2], ds[0][0], (ds[0][0], ds[0][1])), es, at,
                                   ptr_bits, depth + 1) if depth < 6 else None
        return None
    # an item of a chunk iterator: (next(iter) as Some).0[.k]
    e, field = x, None
    path = []
    while e[0] in ("field", "variant"):
        if e[0] == "field":
            path.append(e[2])
        e = e[1]
        while e[0] == "cast":
            e = e[2]
    if e[0] == "callat" and e[2] == "next" and e[3]:
        ints = [p for p in path if isinstance(p, int)]
        # path is collected outside-in: (... as Some).0 is the innermost integer
        field = ints[0] if len(ints) >= 2 else None
        n = _resolve_iter(ctx.sym, e[3][0], field)
        how = "chunks of %s"
        if n is None:
            n = nearest_chunks(ctx, at)
            how = "nearest dominating chunks_exact_mut(%s)"
        if n is not None and es:
            return ("ok", n * es, how % n)
        return None
    if e[0] == "param" and path:
        return ("param", e, path)
    return None


def nearest_chunks(ctx, at):
    if at is None:
        return None
    if ctx.dom is None:
        ctx.dom = Dom(ctx.fn)
    best = None
    for c in ctx.fn.calls():
        if (c.method or short(c.name)) != "chunks_exact_mut" or not ctx.dom.dominates(c.bb, at[0]):
            continue
        if best is None or ctx.dom.dominates(best.bb, c.bb):
            best = c
    if best is None or len(best.args) != 2:
        return None
    k = _strip(ctx.sym.operand(best.args[1], (best.bb, "term")))
    return k[1] if k[0] == "const" and isinstance(k[1], int) else None


def closure_owner(prog, f, param_expr, path, es):
    """f is a closure whose item parameter comes from a chunk iterator of the parent"""
    if f.kind != "closure" or param_expr[1] != 2:
        return None
    parent = prog.fns.get(f.d.get("parent"))
    if parent is None:
        return None
    psym = Sym(parent)
    ints = [p for p in path if isinstance(p, int)]
    field = ints[-1] if ints else None
    for c in parent.calls():
        if len(c.args) < 2:
            continue
        ops = [psym.operand(a, (c.bb, "term")) for a in c.args]
        if not any(o[0] == "agg" and o[1] == "closure" and o[2] == f.id for o in ops[1:]):
            continue
        if ops[0][0] == "agg":
            continue
        n = _resolve_iter(psym, ops[0], field)
        if n is not None and es:
            return ("ok", n * es, "closure item: chunks of %d" % n)
    return None


def pre_read_pointer(prog, f, e, ctx_of):
    """f is the consumer closure of foreach_with_pre_reading(iter, producer, consumer) and `e`
    a component of its argument: the same component of what the producer returns, as an
    expression of the producer closure"""
    x = e
    while x[0] == "cast":
        x = x[2]
    k = None
    if x[0] == "field" and isinstance(x[2], int):
        k, x = x[2], x[1]
    if not (x[0] == "param" and x[1] == 2):
        return None
    parent = prog.fns.get(f.d.get("parent"))
    if parent is None:
        return None
    psym = Sym(parent)
    for c in parent.calls():
        if len(c.args) != 3:
            continue
        ops = [psym.operand(a, (c.bb, "term")) for a in c.args]
        if not (ops[2][0] == "agg" and ops[2][1] == "closure" and ops[2][2] == f.id):
            continue
        if not (ops[1][0] == "agg" and ops[1][1] == "closure"):
            continue
        prod = prog.fns.get(ops[1][2])
        if prod is None:
            continue
        pctx = ctx_of(prod)
        ds = [d for d in pctx.sym.defs.get(0, []) if d[3]]
        if len(ds) != 1:
            return None
        rv = pctx.sym.rvalue(ds[0][2], ds[0][0], (ds[0][0], ds[0][1]))
        if k is not None:
            if rv[0] == "agg" and rv[1] == "tuple" and k < len(rv[4]):
                rv = rv[4][k]
            else:
                return None
        return (pctx, rv, (ds[0][0], ds[0][1]))
    return None


def store_sites(prog, f, ptr_bits):
    """(where, name, pointer operand expr, width, at)"""
    sym = None
    out = []
    for c in f.calls():
        nm = c.method or short(c.name)
        w = None
        for rx, b in STORE_BYTES:
            if re.match(rx, nm):
                w = b
        if nm in ("write_unaligned", "write") and c.args and "ptr" in c.name:
            w = "pointee"
        if w is None or not c.args:
            continue
        out.append((c.at, nm, c.args[0], w, (c.bb, "term"), c))
    for b, blk in enumerate(f.blocks):
        if blk["c"]:
            continue
        for j, st in enumerate(blk["s"]):
            if st[0] == "a" and len(st[1]) >= 2 and st[1][1] == "*" and \
                    (f.local_ty(st[1][0]) or "").startswith("*mut"):
                out.append((st[3], "*ptr =", ["c", [st[1][0]]], "pointee", (b, j), None))
    return out


def check(rep, prog, rule, floor=60):
    rep.rule(rule, "every store through a raw pointer in the kernel, alpha and SIMD-helper modules "
             "(store intrinsics, ptr::write{,_unaligned}, assignments through *mut T) ends inside the "
             "object its pointer was taken from: as_mut_ptr(X) + offset + width <= bytes of X, X being "
             "a local array, a chunk of chunks_exact_mut(N) (also through zip and the closure protocol "
             "of foreach_with_pre_reading), one element of a row, or a parameter resolved at every call "
             "site; a store that ends beyond X is a violation (it changes the next row, the "
             "surroundings of a cropped view or memory past the buffer), an unresolved pointer or "
             "owner is undecided")
    ptr_bits = prog.config["ptr_bits"]
    n = und = 0
    ctxs = {}

    def ctx_of(f):
        if f.id not in ctxs:
            ctxs[f.id] = Ctx(prog, f)
        return ctxs[f.id]

    callers = prog.callers()

    def resolve(ctx, X, es, idx, off, at, depth):
        """list of (bytes owned, offset bytes, how) over the calling contexts, or None"""
        own = owner_bytes(ctx, X, es, at, ptr_bits)
        if own is None:
            return None
        # fold the symbolic index terms
        o = off
        for (ie, sc) in idx:
            k = _strip(_fold(ie))
            if sc is None and own[0] == "ok" and len(own) > 3:
                sc = own[3]
            if k[0] == "const" and isinstance(k[1], int) and sc:
                o += k[1] * sc
            else:
                o = None
                break
        if own[0] == "ok":
            if o is None:
                return None
            return [(own[1], o, own[2])]
        # a parameter: closure protocol or the call sites of a helper
        p = own[1]
        path = own[2] if len(own) > 2 else []
        f = ctx.fn
        if f.kind == "closure":
            r = closure_owner(prog, f, p, path, es)
            if r and o is not None:
                return [(r[1], o, r[2])]
            return None
        if depth >= 2 or path:
            return None
        res = []
        cs = callers.get(f.id, [])
        if not cs:
            return None
        for c2 in cs:
            g = c2.fn
            if len(c2.args) != f.arg_count:
                return None
            gctx = ctx_of(g)
            mp = {("param", i + 1, f.local_name(i + 1)): gctx.sym.operand(a, (c2.bb, "term"))
                  for i, a in enumerate(c2.args)}
            X2 = esubst(X, mp)
            idx2 = [(esubst(ie, mp), sc) for ie, sc in idx]
            r = resolve(gctx, X2, es, idx2, off, (c2.bb, "term"), depth + 1)
            if r is None:
                return None
            res += [(a_, b_, "%s <- %s" % (h_, g.name.rsplit("::", 2)[-2] + "::" + g.name.rsplit("::", 1)[-1]))
                    for a_, b_, h_ in r]
        return res

    for f in sorted(prog.fns.values(), key=lambda x: x.id):
        if not f.name.startswith(MODS) and not any(m in f.name for m in MODS):
            continue
        sites = store_sites(prog, f, ptr_bits)
        if not sites:
            continue
        ctx = ctx_of(f)
        seen = {}
        for where, nm, op, w, at, call in sites:
            e = ctx.sym.operand(op, at)
            if w == "pointee":
                pt = pointee(ctx.fn.local_ty(op[1][0]) if op[0] in ("c", "m") and len(op[1]) == 1
                             else ctx.ty_of(e))
                w = ty_size(pt, ptr_bits) if pt else None
            n += 1
            rep.touch(f)
            base = re.sub(r"@bb\d+", "", fmt(e))[:70]
            k0 = "%s|%s %s" % (f.name, nm, base)
            seen[k0] = seen.get(k0, 0) + 1
            key = k0 if seen[k0] == 1 else "%s #%d" % (k0, seen[k0])
            if w is None:
                und += 1
                rep.unk(rule, key, where, "width of the store not known")
                continue
            can = canonical(ctx, e, ptr_bits)
            use_ctx = ctx
            if can is None and f.kind == "closure":
                alt = pre_read_pointer(prog, f, e, ctx_of)
                if alt is not None:
                    use_ctx, e2, at2 = alt
                    can = canonical(use_ctx, e2, ptr_bits)
                    if can is not None:
                        at = at2
            if can is None:
                und += 1
                rep.unk(rule, key, where, "pointer not brought to the form as_mut_ptr(X) + offset")
                continue
            X, es, idx, off = can
            r = resolve(use_ctx, X, es, idx, off, at, 0)
            if not r:
                und += 1
                rep.unk(rule, key, where, "owner of the pointer not resolved: %s" % fmt(X)[:80] if not
                        (isinstance(X, tuple) and X and X[0] == "one") else "owner not resolved")
                continue
            bad = [(cap, o, how) for cap, o, how in r if o + w > cap or o < 0]
            if bad:
                cap, o, how = bad[0]
                rep.bad(rule, key + "|overrun", where,
                        "%s: %s writes bytes [%d, %d) of an object of %d bytes (%s): %d bytes beyond it"
                        % (f.name, nm, o, o + w, cap, how, o + w - cap))
            else:
                cap, o, how = r[0]
                rep.ok(rule, key, where, "bytes [%d, %d) of %d (%s)%s" % (o, o + w, cap, how,
                                                                         "" if len(r) == 1 else " and %d more contexts" % (len(r) - 1)))
    rep.floor(rule, "raw stores", n, floor)
    rep.note("%s: %d of %d raw stores are bounded by the object they point into" % (rule, n - und, n))


def _fold(e):
    if not isinstance(e, tuple) or not e:
        return e
    if e[0] == "cast":
        inner = _fold(e[2])
        if isinstance(inner, tuple) and inner and inner[0] == "const":
            return inner
        return e[:2] + (inner,) + e[3:]
    if e[0] == "ovf":
        return _fold(e[1])
    if e[0] == "bin" and e[1] in ("Add", "Mul", "Sub"):
        a, b = _fold(e[2]), _fold(e[3])
        if a[0] == "const" and b[0] == "const" and isinstance(a[1], int) and isinstance(b[1], int):
            return ("const", {"Add": a[1] + b[1], "Mul": a[1] * b[1], "Sub": a[1] - b[1]}[e[1]], "usize")
        return ("bin", e[1], a, b)
    return e
