"""Sibling call sites of one callee inside one function must agree on the arguments that are
merely handed on (Engler et al.'s contradiction rule: if one call forwards the caller's own
parameter and another call of the same function passes a literal in that position, one of
them is wrong)."""
from ..sym import Sym, fmt


def forwarded_args(rep, prog, rule, files=("src/resizer.rs",), floor=2):
    rep.rule(rule, "two calls of the same crate-local function inside one function of the resize "
             "pipeline agree on forwarded options: where one call hands on the caller's own "
             "parameter (filter type, adaptive kernel size, alpha flag) unchanged, no other call "
             "of that function passes a literal constant in the same position, unless the branch "
             "it sits in has fixed the parameter to that constant (a literal in one of two "
             "otherwise identical calls runs that path with another algorithm than requested)")
    n = 0
    for f in sorted(prog.fns.values(), key=lambda x: x.id):
        if f.kind == "closure" or f.file not in files:
            continue
        groups = {}
        for c in f.calls():
            tg = prog.call_targets(c)
            if len(tg) != 1 or tg[0].id == f.id:
                continue
            groups.setdefault(tg[0].id, []).append(c)
        sym = None
        for gid, sites in sorted(groups.items()):
            if len(sites) < 2:
                continue
            g = prog.fns[gid]
            sym = sym or Sym(f)
            rep.touch(f)
            arity = min(len(c.args) for c in sites)
            for i in range(arity):
                kinds = []
                for c in sites:
                    e = sym.operand(c.args[i], (c.bb, "term"))
                    while isinstance(e, tuple) and e and e[0] == "cast":
                        e = e[2]
                    if e[0] == "param" and f.local_ty(e[1]) in ("bool", "u8", "u16", "u32", "usize") \
                            or (e[0] == "param" and "FilterType" in (f.local_ty(e[1]) or "")):
                        kinds.append(("param", e))
                    elif e[0] == "const" and isinstance(e[1], (bool, int)):
                        kinds.append(("const", e))
                    else:
                        kinds.append(("other", e))
                params = [(c, e) for c, (k, e) in zip(sites, kinds) if k == "param"]
                consts = [(c, e) for c, (k, e) in zip(sites, kinds) if k == "const"]
                if not params:
                    continue
                n += 1
                pe = params[0][1]
                pname = g.local_name(i + 1) or "#%d" % i
                key = "%s|%s|%s" % (f.name, g.name.rsplit("::", 1)[-1], pname)
                bad = []
                for c, e in consts:
                    fixed = False
                    for (cc, v) in sym.facts_at(c.bb):
                        x = cc
                        while isinstance(x, tuple) and x and x[0] == "cast":
                            x = x[2]
                        if x == pe and isinstance(v, (bool, int)) and bool(v) == bool(e[1]) \
                                and isinstance(e[1], bool):
                            fixed = True
                    if not fixed:
                        bad.append((c, e))
                if bad:
                    c, e = bad[0]
                    rep.bad(rule, key + "|literal", c.at,
                            "%s calls %s %d times; the call at %s forwards its parameter `%s` as `%s`, "
                            "the call at %s passes the literal %s there"
                            % (f.name, g.name, len(sites), params[0][0].at, pe[2], pname, c.at, e[1]))
                else:
                    rep.ok(rule, key, params[0][0].at, "%d calls forward `%s`" % (len(params), pe[2]))
    rep.floor(rule, "forwarded option positions of repeated calls", n, floor)


ROLE_NAMES = ("left", "top", "width", "height")


def geometry_roles(rep, prog, rule, floor=10):
    """a field named like a geometry role is passed in that role"""
    from ..sym import Sym, fmt
    rep.rule(rule, "where a call hands a value that is literally one of the fields `left`, `top`, `width`, "
             "`height` of a view / box to a crate-local parameter that is itself named left / top / width / "
             "height, the two names agree: `TypedCroppedImage::new(view, self.top, self.left, ..)` compiles "
             "(all four are u32) and reads the region mirrored at the diagonal. Values that went through "
             "arithmetic carry no role and are not judged")
    n = 0
    for f in sorted(prog.fns.values(), key=lambda x: x.id):
        sym = None
        for c in f.calls():
            ts = prog.call_targets(c)
            if len(ts) != 1 or ts[0].kind == "closure":
                continue
            t = ts[0]
            pn = [t.local_name(i) for i in range(1, t.arg_count + 1)]
            if sum(1 for x in pn if x in ROLE_NAMES) < 2:
                continue
            sym = sym or Sym(f)
            pairs = []
            for i, a in enumerate(c.args):
                if i >= len(pn) or pn[i] not in ROLE_NAMES:
                    continue
                e = sym.operand(a, (c.bb, "term"))
                while isinstance(e, tuple) and e and e[0] in ("copy", "ref", "deref"):
                    e = e[1]
                if isinstance(e, tuple) and e and e[0] == "field" and e[2] in ROLE_NAMES:
                    pairs.append((pn[i], e[2]))
            if not pairs:
                continue
            n += 1
            rep.touch(f)
            key = "%s|%s" % (f.name, t.name.rsplit("::", 2)[-2] + "::" + t.name.rsplit("::", 1)[-1])
            wrong = [(p, g) for p, g in pairs if p != g]
            if wrong:
                rep.bad(rule, key + "|roles", c.at, "%s passes the field `%s` as the parameter `%s` of %s%s" % (
                    f.name, wrong[0][1], wrong[0][0], t.name,
                    " (and `%s` as `%s`)" % (wrong[1][1], wrong[1][0]) if len(wrong) > 1 else ""))
            else:
                rep.ok(rule, key, c.at, "fields passed in their own roles: %s" % ", ".join(p for p, _ in pairs))
    rep.floor(rule, "calls that pass geometry fields to geometry parameters", n, floor)
