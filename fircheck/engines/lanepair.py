"""Lane pairing of the horizontal SIMD convolution kernels (x86): which source byte meets which
coefficient in every multiply, decided by byte-level symbolic evaluation of the operand
expressions (shuffle masks, unpacks, zero extensions, broadcasts are applied to *symbols*, not to
data; nothing is executed).

Byte symbols
    ('Z',)               zero
    ('S', row, off)      source byte `off` bytes after the position of the cursor in `row`
    ('K', base, off)     byte `off` of the coefficient chunk `base` (the item of the coefficient
                         iterator that the enclosing loop / `if let` took)
    ('X', base, j)       sign-extension byte of coefficient j
    ('C', v)             constant byte
    ('U', why)           unknown

A product term is (row, off, base, j): source element at byte offset `off` times coefficient j.
The portable code computes  sum_j coeff[j] * pixel[start + j].component(c)  for every component,
so in a kernel for pixels of `ps` bytes with components of `cs` bytes
    (pairing)     off // ps == j                      coefficient j meets pixel j of the chunk
    (alignment)   (off % ps) % cs == 0                a whole component, its low byte first
    (uniformity)  all terms of one accumulator lane have the same row and component
    (coverage)    per coefficient chunk, row and component: every j in 0..N-1 exactly once"""
import re

from ..sym import Sym, fmt, short
from .lanes import mask_bytes
from .deps import const_of_splat

Z = ("Z",)


def U(why):
    return ("U", why)


def _name(e):
    return e[2] if e[0] == "callat" else e[1]


def _args(e):
    return e[3] if e[0] == "callat" else e[2]


def _cargs(e):
    n = 6 if e[0] == "callat" else 5
    if len(e) > n and isinstance(e[-1], tuple) and all(isinstance(x, int) for x in e[-1]):
        return e[-1]
    return ()


def strip(e):
    while isinstance(e, tuple) and e and e[0] in ("cast", "ovf"):
        e = e[2] if e[0] == "cast" else e[1]
    return e


class LanePair:
    def __init__(self, prog, fn, ps, cs, ks):
        self.prog, self.fn = prog, fn
        self.sym = Sym(fn)
        self.ps, self.cs, self.ks = ps, cs, ks
        self.memo = {}
        self.cursor = None        # the cursor local found in the source loads
        self.loaded = {}          # coefficient base -> indices of the coefficients that were loaded

    # ---- classification of buffers
    def coeff_base(self, e, depth=0):
        """identity of a coefficient chunk / scalar: the `next`/`first` call that produced it"""
        e = strip(e)
        if depth > 10 or not isinstance(e, tuple) or not e:
            return None
        z = self._zip_component(e)
        if z is not None:
            if self._from_coeffs(z):
                c = strip(strip(strip(e[1])[1])[1])
                return "next@%s.%s" % (c[1], e[2])
            return None
        if e[0] in ("field", "variant", "proj"):
            return self.coeff_base(e[1], depth + 1)
        if e[0] in ("callat", "call"):
            n, a = _name(e), _args(e)
            if n in ("next", "first", "get", "unwrap", "deref", "as_ptr", "as_slice", "get_unchecked",
                     "split_first", "first_chunk") and a:
                if n in ("next", "first", "get") and self._from_coeffs(a[0]):
                    return "%s@%s" % (n, e[1] if e[0] == "callat" else "")
                return self.coeff_base(a[0], depth + 1)
            if n in ("values", "remainder"):
                return "%s@%s" % (n, e[1] if e[0] == "callat" else fmt(e)[:40])
        if e[0] == "local":
            ds = [d for d in self.sym.defs.get(e[1], []) if d[3]]
            if len(ds) == 1:
                return self.coeff_base(self.sym.rvalue(ds[0][2], ds[0][0], (ds[0][0], ds[0][1])), depth + 1)
            if e[2] and re.search(r"coef|^k$", e[2]):
                return "local:%s" % e[2]
        if e[0] == "param" and e[2] and re.search(r"coef|^k$", e[2]):
            return "param:%s" % e[2]
        return None

    def _zip_component(self, e):
        """e = (next(it) as Some).0.<k> with it = zip(A, B): returns A or B, else None"""
        e = strip(e)
        if e[0] != "field" or str(e[2]) not in ("0", "1"):
            return None
        k = int(e[2])
        b = strip(e[1])
        if not (b[0] == "field" and str(b[2]) == "0"):
            return None
        v = strip(b[1])
        if v[0] != "variant":
            return None
        c = strip(v[1])
        if not (c[0] == "callat" and _name(c) == "next" and _args(c)):
            return None
        it = strip(_args(c)[0])
        for _ in range(6):
            if it[0] == "local":
                ds = [d for d in self.sym.defs.get(it[1], []) if d[3]]
                if len(ds) != 1:
                    return None
                it = strip(self.sym.rvalue(ds[0][2], ds[0][0], (ds[0][0], ds[0][1])))
            elif it[0] in ("callat", "call") and _name(it) in ("into_iter", "by_ref", "iter"):
                it = strip(_args(it)[0])
            else:
                break
        if it[0] in ("callat", "call") and _name(it) == "zip" and len(_args(it)) == 2:
            return _args(it)[k]
        return None

    def _from_coeffs(self, e, depth=0):
        e = strip(e)
        if depth > 12 or not isinstance(e, tuple) or not e:
            return False
        z = self._zip_component(e)
        if z is not None:
            return self._from_coeffs(z, depth + 1)
        if e[0] in ("callat", "call"):
            n = _name(e)
            if n in ("values", "remainder"):
                return True
            return any(self._from_coeffs(a, depth + 1) for a in _args(e)[:1])
        if e[0] == "local":
            if e[2] and re.search(r"coef|reminder|remainder", e[2]):
                return True
            return any(self._from_coeffs(self.sym.rvalue(rv, bb, (bb, j)), depth + 1)
                       for (bb, j, rv, w) in self.sym.defs.get(e[1], []) if w)
        if e[0] in ("field", "variant", "proj", "index"):
            return self._from_coeffs(e[1], depth + 1)
        return False

    def chunk_with_offset(self, e):
        """(base, element offset) of a coefficient chunk expression, following `&k[c..]`"""
        e = strip(e)
        if e[0] in ("callat", "call") and _name(e) in ("index", "get_unchecked") and len(_args(e)) == 2:
            rng = strip(_args(e)[1])
            if rng[0] == "agg" and rng[2].endswith(("RangeFrom", "ops::range::Range")) and rng[4]:
                lo = strip(rng[4][0])
                b = self.coeff_base(_args(e)[0])
                if b is not None and lo[0] == "const":
                    return (b, lo[1])
                return None
        b = self.coeff_base(e)
        return (b, 0) if b is not None else None

    def is_source(self, e):
        s = fmt(strip(e))
        return bool(re.search(r"src_row|components(@bb\d+)?\(|s_row|^map(@bb\d+)?\(next", s)) \
            and not self._from_coeffs(e)

    # ---- offsets
    def offset(self, idx):
        """(cursor local or None, constant element offset) of an index expression"""
        e = strip(idx)
        if e[0] == "const" and isinstance(e[1], int):
            return (None, e[1])
        if e[0] == "local":
            return (e, 0)
        if e[0] == "bin" and e[1] == "Add":
            a, b = strip(e[2]), strip(e[3])
            if b[0] == "const" and a[0] == "local":
                return (a, b[1])
            if a[0] == "const" and b[0] == "local":
                return (b, a[1])
        return ("?", 0)

    # ---- loads
    def load(self, buf, idx, nbytes, total, es=None):
        cur, off = self.offset(idx)
        if cur == "?":
            return [U("index %s" % fmt(idx)[:40])] * total
        base = self.coeff_base(buf)
        if base is not None and not self.is_source(buf):
            sz = self.ks
            if cur is not None:
                return [U("coefficients read at a moving index")] * total
            self.loaded.setdefault(base, set()).update((off * sz + i) // sz for i in range(nbytes))
            return [("K", base, off * sz + i) for i in range(nbytes)] + [Z] * (total - nbytes)
        if self.is_source(buf):
            row = fmt(strip(buf))[:60]
            sz = es if es is not None else self.ps
            return [("S", row, off * sz + i) for i in range(nbytes)] + [Z] * (total - nbytes)
        return [U("buffer %s" % fmt(buf)[:40])] * total

    # ---- scalars
    def scalar(self, e, n):
        """n bytes (little endian) of a scalar expression"""
        e0 = e
        if e[0] == "cast" and e[1] == "IntToInt":
            inner = e[2]
            b = self._scalar_coeff(inner)
            if b is not None:
                base, j = b
                lo = [("K", base, j * self.ks + i) for i in range(self.ks)]
                return (lo + [("X", base, j)] * n)[:n]
            c = strip(inner)
            if c[0] == "const" and isinstance(c[1], int):
                return self._const_bytes(c[1], n)
            return self.scalar(inner, n)
        b = self._scalar_coeff(e)
        if b is not None:
            base, j = b
            lo = [("K", base, j * self.ks + i) for i in range(self.ks)]
            return (lo + [("X", base, j)] * n)[:n]
        sc = self._scalar_source(e)
        if sc is not None:
            row, off, nb = sc
            return ([("S", row, off + i) for i in range(nb)] + [Z] * n)[:n]
        c = strip(e)
        if c[0] == "const" and isinstance(c[1], int):
            return self._const_bytes(c[1], n)
        if c[0] in ("callat", "call") and _name(c) == "read_unaligned":
            p = _args(c)[0]
            base = self.coeff_base(p)
            if base is not None:
                return [("K", base, i) for i in range(n)]
        return [U("scalar %s" % fmt(e0)[:50])] * n

    def _const_bytes(self, v, n):
        v &= (1 << (8 * n)) - 1
        return [Z if ((v >> (8 * i)) & 0xff) == 0 else ("C", (v >> (8 * i)) & 0xff) for i in range(n)]

    def _scalar_source(self, e):
        """(row, byte offset, bytes) of a scalar source component `row.get_unchecked(x + c).0[k]`"""
        e = strip(e)
        comp = 0
        if e[0] == "index" and strip(e[2])[0] == "const":
            comp = strip(e[2])[1]
            e = strip(e[1])
        while e[0] in ("field", "proj"):
            e = strip(e[1])
        if e[0] in ("callat", "call") and _name(e) in ("get_unchecked", "index") and len(_args(e)) == 2:
            buf, idx = _args(e)
            if not self.is_source(buf):
                return None
            cur, off = self.offset(idx)
            if cur == "?":
                return None
            return (fmt(strip(buf))[:60], off * self.ps + comp * self.cs, self.cs)
        return None

    def _scalar_coeff(self, e):
        e = strip(e)
        if e[0] == "index":
            j = strip(e[2])
            base = self.coeff_base(e[1])
            if base is not None and j[0] == "const":
                return (base, j[1])
            return None
        if e[0] in ("field", "variant", "proj") or (e[0] in ("callat", "call") and _name(e) in ("unwrap", "deref")):
            base = self.coeff_base(e)
            if base is None:
                # `for &k in coeffs` over a re-assigned slice local
                e2 = e
                while e2[0] in ("field", "variant", "proj"):
                    e2 = strip(e2[1])
                if e2[0] == "callat" and _name(e2) == "next" and _args(e2):
                    it = strip(_args(e2)[0])
                    ty = self.fn.local_ty(it[1]) if it[0] == "local" else ""
                    if re.search(r"slice::Iter<'[^,]*, i(16|32)>", ty or "") and "Chunks" not in ty:
                        return ("next@%s" % e2[1], 0)
            if base is not None and (base.startswith(("first", "next", "get")) or base.startswith("local:k")):
                # a single coefficient taken from the iterator / the remainder
                if self._is_scalar_item(e):
                    return (base, 0)
        if e[0] == "local":
            ds = [d for d in self.sym.defs.get(e[1], []) if d[3]]
            if len(ds) == 1:
                return self._scalar_coeff(self.sym.rvalue(ds[0][2], ds[0][0], (ds[0][0], ds[0][1])))
        return None

    def _is_scalar_item(self, e):
        """the item is an element (`for &k in coeffs`, `first()`), not a chunk"""
        s = fmt(e)
        if "first@" in s or "first(" in s or "get(" in s:
            return True
        e2 = strip(e)
        while e2[0] in ("field", "variant", "proj"):
            e2 = strip(e2[1])
        if e2[0] == "callat" and _name(e2) == "next" and _args(e2):
            it = strip(_args(e2)[0])
            if it[0] == "local":
                ty = self.fn.local_ty(it[1]) or ""
                return "Chunks" not in ty and bool(re.search(r"Iter<'[^,]*, i(16|32)>", ty))
        return False

    # ---- vectors
    def vec(self, e, depth=0):
        try:
            if e in self.memo:
                return self.memo[e]
        except TypeError:
            return None
        r = self._vec(e, depth)
        self.memo[e] = r
        return r

    def _vec(self, e, depth):
        if depth > 60 or not isinstance(e, tuple) or not e:
            return None
        k = e[0]
        if k == "cast":
            return self.vec(e[2], depth + 1)
        if k == "index":
            base, ix = strip(e[1]), strip(e[2])
            if base[0] == "agg" and base[1] == "array" and ix[0] == "const" and ix[1] < len(base[4]):
                return self.vec(base[4][ix[1]], depth + 1)
            return None
        if k == "local":
            ds = self.sym.defs.get(e[1], [])
            if len(ds) == 1 and ds[0][3]:
                return self.vec(self.sym.rvalue(ds[0][2], ds[0][0], (ds[0][0], ds[0][1])), depth + 1)
            return None
        if k not in ("callat", "call"):
            return None
        n, a, cg = _name(e), _args(e), _cargs(e)
        V = lambda x: self.vec(x, depth + 1)
        w = 32 if "256" in n else 16
        # loads through the helpers
        m = re.match(r"^(loadu_si128|loadu_si256|loadl_epi64|loadl_epi32|loadl_epi16)$", n)
        if m and len(a) == 2:
            nb = {"loadu_si128": 16, "loadu_si256": 32, "loadl_epi64": 8, "loadl_epi32": 4,
                  "loadl_epi16": 2}[n]
            return self.load(a[0], a[1], nb, 32 if n == "loadu_si256" else 16)
        if n in ("_mm_loadu_si128", "_mm256_loadu_si256", "_mm_loadl_epi64") and a:
            nb = {"_mm_loadu_si128": 16, "_mm256_loadu_si256": 32, "_mm_loadl_epi64": 8}[n]
            base = self.coeff_base(a[0])
            if base is not None:
                self.loaded.setdefault(base, set()).update(i // self.ks for i in range(nb))
                return [("K", base, i) for i in range(nb)] + [Z] * ((32 if nb == 32 else 16) - nb)
            return None
        if n in ("mm_cvtepu8_epi32", "mm_cvtepu8_epi32_u8x3", "mm_cvtepu8_epi32_from_u8") and len(a) == 2:
            nb = 3 if n.endswith("u8x3") else 4
            src = self.load(a[0], a[1], nb, nb, es=(1 if n.endswith("from_u8") else None))
            out = []
            for b in src:
                out += [b, Z, Z, Z]
            return (out + [Z] * 16)[:16]
        if n == "mm_cvtsi32_si128_from_u8" and len(a) == 2:
            return self.load(a[0], a[1], 4, 16, es=1)
        if n in ("mm_load_and_clone_i16x2", "mm256_load_and_clone_i16x2") and a:
            bo = self.chunk_with_offset(a[0])
            if bo is None:
                return None
            base, eo = bo
            return [("K", base, eo * self.ks + i) for i in range(4)] * (8 if "256" in n else 4)
        if n in ("ptr_i16_to_set1_epi64x", "ptr_i16_to_256set1_epi64x") and len(a) == 2:
            base = self.coeff_base(a[0])
            cur, off = self.offset(a[1])
            if base is None or cur is not None:
                return None
            return [("K", base, off * 2 + i) for i in range(8)] * (4 if "256" in n else 2)
        # constants / broadcasts
        if re.match(r"^_mm(256)?_setzero_si(128|256)$", n):
            return [Z] * w
        m = re.match(r"^_mm(256)?_set1_epi(8|16|32|64x)$", n)
        if m and a:
            nb = {"8": 1, "16": 2, "32": 4, "64x": 8}[m.group(2)]
            return self.scalar(a[0], nb) * (w // nb)
        m = re.match(r"^_mm(256)?_set(r?)_epi(16|32|64x)$", n)
        if m:
            nb = {"16": 2, "32": 4, "64x": 8}[m.group(3)]
            parts = [self.scalar(x, nb) for x in a]
            if not m.group(2):
                parts = parts[::-1]
            out = []
            for p in parts:
                out += p
            return out if len(out) == w else None
        if n == "_mm256_set_m128i" and len(a) == 2:
            hi, lo = V(a[0]), V(a[1])
            return (lo + hi) if hi and lo and len(lo) == 16 and len(hi) == 16 else None
        # moves
        if re.match(r"^_mm(256)?_shuffle_epi8$", n) and len(a) == 2:
            me = strip(a[1])
            if me[0] == "index" and strip(me[1])[0] == "agg" and strip(me[2])[0] == "const" \
                    and strip(me[2])[1] < len(strip(me[1])[4]):
                me = strip(me[1])[4][strip(me[2])[1]]
            src, mb = V(a[0]), mask_bytes(me)
            if src is None or mb is None or len(mb) != len(src):
                return None
            out = []
            for i, mbyte in enumerate(mb):
                if mbyte & 0x80:
                    out.append(Z)
                else:
                    out.append(src[(i // 16) * 16 + (mbyte & 15)])
            return out
        m = re.match(r"^_mm(256)?_unpack(lo|hi)_epi(8|16|32|64)$", n)
        if m and len(a) == 2:
            A, B = V(a[0]), V(a[1])
            if A is None or B is None or len(A) != len(B):
                return None
            g = int(m.group(3)) // 8
            out = []
            for h in range(0, len(A), 16):
                base = h + (0 if m.group(2) == "lo" else 8)
                for i in range(0, 8, g):
                    out += A[base + i: base + i + g] + B[base + i: base + i + g]
            return out
        m = re.match(r"^_mm(256)?_cvtepu(8|16)_epi(16|32|64)$", n)
        if m and a:
            A = V(a[0])
            if A is None:
                return None
            fb, tb = int(m.group(2)) // 8, int(m.group(3)) // 8
            out = []
            for i in range(0, w // tb):
                out += A[i * fb:(i + 1) * fb] + [Z] * (tb - fb)
            return out
        if n in ("_mm256_castsi128_si256",) and a:
            A = V(a[0])
            return (A + [U("undefined upper half")] * 16) if A else None
        if n in ("_mm256_castsi256_si128",) and a:
            A = V(a[0])
            return A[:16] if A else None
        if re.match(r"^_mm256_insert[if]128_si256$", n) and len(a) == 2 and cg:
            A, B = V(a[0]), V(a[1])
            if A is None or B is None:
                return None
            A = list(A)
            A[16 * cg[0]:16 * cg[0] + 16] = B[:16]
            return A
        if re.match(r"^_mm256_extract[if]128_si256$", n) and a and cg:
            A = V(a[0])
            return A[16 * cg[0]:16 * cg[0] + 16] if A else None
        if n == "_mm256_broadcastsi128_si256" and a:
            A = V(a[0])
            return (A + A) if A else None
        if re.match(r"^_mm(256)?_shuffle_epi32$", n) and a and cg:
            A = V(a[0])
            if A is None:
                return None
            out = []
            for h in range(0, len(A), 16):
                for i in range(4):
                    s_ = (cg[0] >> (2 * i)) & 3
                    out += A[h + 4 * s_: h + 4 * s_ + 4]
            return out
        if re.match(r"^_mm_(b?srli_si128)$", n) and a and cg:
            A = V(a[0])
            return (A[cg[0]:] + [Z] * cg[0]) if A else None
        if re.match(r"^_mm(256)?_(or|and)_si(128|256)$", n) and len(a) == 2:
            A, B = V(a[0]), V(a[1])
            if A is None or B is None:
                return None
            if n.endswith(("or_si128", "or_si256")):
                return [y if x == Z else (x if y == Z else U("or of two values")) for x, y in zip(A, B)]
            return None
        if n in ("transmute", "clone", "into"):
            return V(a[0]) if a else None
        tg = None
        return None

    # ---- products
    def lane_value(self, bs):
        """classify a 16/32-bit lane given as a list of bytes"""
        if all(b == Z for b in bs):
            return ("zero",)
        if any(b[0] == "U" for b in bs):
            return ("U", [b[1] for b in bs if b[0] == "U"][0])
        s = [b for b in bs if b[0] == "S"]
        if s and all(b[0] in ("S", "Z") for b in bs):
            n = len(s)
            if bs[:n] == s and all(b == Z for b in bs[n:]) and n in (1, 2) and \
                    all(s[i][1] == s[0][1] and s[i][2] == s[0][2] + i for i in range(n)):
                return ("src", s[0][1], s[0][2], n)
            return ("U", "source bytes %s do not form one zero-extended component" % (bs,))
        kk = [b for b in bs if b[0] == "K"]
        if kk and all(b[0] in ("K", "X") for b in bs):
            n = len(kk)
            if bs[:n] == kk and n == self.ks and kk[0][2] % self.ks == 0 and \
                    all(kk[i][1] == kk[0][1] and kk[i][2] == kk[0][2] + i for i in range(n)) and \
                    all(b[0] == "X" and b[1] == kk[0][1] and b[2] == kk[0][2] // self.ks for b in bs[n:]):
                return ("coef", kk[0][1], kk[0][2] // self.ks)
            return ("U", "coefficient bytes %s do not form one coefficient" % (bs,))
        if all(b[0] == "X" for b in bs):
            return ("signext",)
        return ("U", "mixed lane %s" % (bs,))

    def product(self, x, y):
        if x[0] == "zero" or y[0] == "zero":
            return []
        if x[0] == "src" and y[0] == "coef":
            return [(x[1], x[2], y[1], y[2], x[3])]
        if y[0] == "src" and x[0] == "coef":
            return [(y[1], y[2], x[1], x[2], y[3])]
        if x[0] == "U":
            return ("U", x[1])
        if y[0] == "U":
            return ("U", y[1])
        return ("U", "%s x %s" % (x[0], y[0]))

    def multiply(self, name, A, B):
        """list of lanes; each lane: list of terms or ('U', why)"""
        lanes = []
        if "madd_epi16" in name:
            for L in range(0, len(A), 4):
                terms = []
                for h in (0, 2):
                    p = self.product(self.lane_value(A[L + h:L + h + 2]), self.lane_value(B[L + h:L + h + 2]))
                    if isinstance(p, tuple):
                        terms = p
                        break
                    terms += p
                lanes.append(terms)
        elif "mul_epi32" in name or "mul_epu32" in name:
            for L in range(0, len(A), 8):
                lanes.append(self.product(self.lane_value(A[L:L + 4]), self.lane_value(B[L:L + 4])))
        return lanes


MULS = re.compile(r"^_mm(256)?_(madd_epi16|mul_epi32)$")


def _range_vars(sym, e, acc=None):
    """loop variables of small constant ranges inside e: {atom: (lo, hi)}"""
    from .intervals import Intervals
    acc = {} if acc is None else acc
    if not isinstance(e, tuple) or not e:
        return acc
    if e[0] == "field" and str(e[2]) == "0" and isinstance(e[1], tuple) and e[1][0] == "variant" \
            and e[1][1][0] == "callat" and e[1][1][2] == "next" and "range" in (e[1][1][4] if len(e[1][1]) > 4 else ""):
        if e not in acc:
            iv = Intervals(sym).iter_elem(e[1][1][3][0]) if e[1][1][3] else None
            if iv is not None and 0 <= iv[0] <= iv[1] < iv[0] + 8:
                acc[e] = iv
        return acc
    for x in e:
        if isinstance(x, tuple):
            _range_vars(sym, x, acc)
    return acc


def _fold(e):
    """constant folding of index arithmetic after substituting loop variables"""
    if not isinstance(e, tuple) or not e:
        return e
    if e[0] == "cast" and e[1] == "IntToInt":
        inner = _fold(e[2])
        if inner[0] == "const":
            return ("const", inner[1], e[3])
        return ("cast", e[1], inner, e[3])
    if e[0] == "ovf":
        return _fold(e[1])
    if e[0] == "bin" and e[1] in ("Add", "Mul", "Sub"):
        a, b = _fold(e[2]), _fold(e[3])
        if a[0] == "const" and b[0] == "const" and isinstance(a[1], int) and isinstance(b[1], int):
            v = {"Add": a[1] + b[1], "Mul": a[1] * b[1], "Sub": a[1] - b[1]}[e[1]]
            return ("const", v, a[2] if len(a) > 2 else "usize")
        if e[1] == "Add" and b[0] == "const" and b[1] == 0:
            return a
        return ("bin", e[1], a, b)
    return tuple(_fold(x) if isinstance(x, tuple) else x for x in e)


def _row_index(row):
    """index of a source row inside the group of rows the iterator handed out: `...[1])` -> 1"""
    m = re.search(r"\[(\w+(?:@bb\d+\([^)]*\))?(?: as Some\.0)?)\]\)*$", row)
    return m.group(1) if m else "0"


def pairing(rep, prog, rule, floor=150):
    rep.rule(rule, "in every x86 SIMD convolution kernel each multiply pairs the right source "
             "element with the right coefficient (byte-level symbolic evaluation of the operands "
             "through loads, constant shuffle masks, unpacks, zero-extensions and broadcasts). "
             "Horizontal kernels: source pixel j of the current coefficient chunk meets coefficient "
             "j (off // pixel_size == j), whole components, one row and one component per "
             "accumulator lane, every coefficient of a chunk used exactly once per row and "
             "component. Vertical kernels: source row r of the current group of rows meets "
             "coefficient r, one column offset per accumulator lane, every coefficient used once "
             "per column. This is what the portable code computes")
    n = und = 0
    for f in sorted(prog.fns.values(), key=lambda x: x.id):
        m = re.match(r"^convolution::(u8|u16)x(\d)::(sse4|avx2)::horiz_convolution", f.name)
        mv = re.match(r"^convolution::vertical_(u8|u16)::(sse4|avx2)::vert_convolution", f.name)
        if not (m or mv) or f.kind == "closure":
            continue
        vertical = mv is not None
        kind = (mv or m).group(1)
        cs = 1 if kind == "u8" else 2
        ps = cs if vertical else cs * int(m.group(2))
        ks = 2 if kind == "u8" else 4
        sites = [c for c in f.calls() if MULS.match(c.method or short(c.name)) and len(c.args) == 2]
        # the coefficients are SIGNED (negative lobes of Lanczos / CatmullRom / Mitchell): the
        # widening multiply of a kernel must be the signed one
        for c in f.calls():
            nm = c.method or short(c.name)
            if re.match(r"^_mm(256)?_mul_epu32$", nm):
                rep.touch(f)
                rep.bad(rule, "%s|%s|unsigned-multiply" % (f.name, nm), c.at,
                        "%s multiplies with %s: the low 32 bits of each 64-bit lane are read as "
                        "UNSIGNED, so a negative coefficient k enters the sum as 2^32 + k (every "
                        "filter with negative lobes saturates the sample); the portable code and the "
                        "sibling stages use the signed multiply" % (f.name, nm))
        if not sites:
            continue
        rep.touch(f)
        lp = LanePair(prog, f, ps, cs, ks)
        groups = {}
        for idx, c in enumerate(sites):
            n += 1
            nm = c.method or short(c.name)
            key = "%s|%s#%d" % (f.name, nm, idx)
            ea = lp.sym.operand(c.args[0], (c.bb, "term"))
            eb = lp.sym.operand(c.args[1], (c.bb, "term"))
            rv = _range_vars(lp.sym, ea)
            _range_vars(lp.sym, eb, rv)
            combos = [{}]
            for atom, (lo, hi) in sorted(rv.items(), key=repr):
                combos = [dict(list(cmb.items()) + [(atom, v)]) for cmb in combos for v in range(lo, hi + 1)][:64]
            lanes, failed = [], None
            for cmb in combos:
                if cmb:
                    from .validators import subst as esubst
                    mp = {a_: ("const", v, "usize") for a_, v in cmb.items()}
                    xa, xb = _fold(esubst(ea, mp)), _fold(esubst(eb, mp))
                else:
                    xa, xb = ea, eb
                A, B = lp.vec(xa), lp.vec(xb)
                if A is None or B is None or len(A) != len(B):
                    failed = "first" if A is None else "second"
                    break
                lanes += lp.multiply(nm, A, B)
            if failed:
                und += 1
                rep.unk(rule, key, c.at, "operand of %s is not followed (%s)" % (nm, failed))
                continue
            unk = [l for l in lanes if isinstance(l, tuple)]
            if unk:
                und += 1
                rep.unk(rule, key, c.at, "lane not classified: %s" % str(unk[0][1])[:160])
                continue
            bad = None
            for L, terms in enumerate(lanes):
                rc = set()
                for (row, off, base, j, nb) in terms:
                    if nb != cs or (off % ps) % cs != 0:
                        bad = "lane %d multiplies %d byte(s) at source offset %d: not a whole %d-byte " \
                              "component" % (L, nb, off, cs)
                    elif vertical:
                        r = _row_index(row)
                        if r != str(j):
                            bad = "lane %d multiplies source row %s of the group by coefficient %d" % (
                                L, r, j)
                        rc.add(off)
                    else:
                        if off // ps != j:
                            bad = "lane %d multiplies pixel %d of the chunk (source byte %d) by " \
                                  "coefficient %d" % (L, off // ps, off, j)
                        rc.add((row, (off % ps) // cs))
                if len(rc) > 1 and not bad:
                    bad = "lane %d sums products of different %s %s" % (
                        L, "columns" if vertical else "rows / components", sorted(rc))
            if bad:
                rep.bad(rule, key + "|pairing", c.at, "%s: %s; the portable code multiplies %s" % (
                    f.name, bad, "row y_start + r by coefficient r for every column" if vertical
                    else "pixel start + j by coefficient j for every component"))
                continue
            rep.ok(rule, key, c.at, "%d lanes, %d products paired" % (
                len(lanes), sum(len(l) for l in lanes)))
            for terms in lanes:
                for (row, off, base, j, nb) in terms:
                    gk = (base, "col", off) if vertical else (base, row, (off % ps) // cs)
                    groups.setdefault(gk, []).append(j)
        # coverage per coefficient chunk
        by_base = {}
        for (base, row, comp), js in groups.items():
            by_base.setdefault(base, []).append((row, comp, js))
        for base, rows in sorted(by_base.items()):
            nmax = max(max(js) for _, _, js in rows) + 1
            key = "%s|coverage|%s" % (f.name, base)
            wrong = None
            for row, comp, js in rows:
                if sorted(js) != list(range(nmax)):
                    wrong = (row, comp, sorted(js))
            unused = sorted(j for j in lp.loaded.get(base, ()) if j >= nmax)
            if not wrong and unused:
                rep.bad(rule, key + "|loaded-unused", f.loc,
                        "%s: the coefficients %s of the chunk %s are loaded into a vector but no "
                        "multiply uses them (the products stop at coefficient %d): the shuffle that "
                        "distributes the coefficients picks other (zeroed) bytes, so the pixels that "
                        "belong to these coefficients are dropped from the sum" % (
                            f.name, unused, base, nmax - 1))
                continue
            if wrong:
                missing = [j for j in range(nmax) if j not in wrong[2]]
                dup = sorted({j for j in wrong[2] if wrong[2].count(j) > 1})
                rep.bad(rule, key, f.loc, "%s: for %s %s the chunk %s uses the coefficients %s%s%s "
                        "(each of 0..%d must be used exactly once)" % (
                            f.name, "column" if vertical else "row %s component" % wrong[0], wrong[1],
                            base, wrong[2], "; never used: %s" % missing if missing else "",
                            "; used twice: %s" % dup if dup else "", nmax - 1))
            else:
                rep.ok(rule, key, f.loc, "coefficients 0..%d each used once for %d %s" % (
                    nmax - 1, len(rows), "column(s)" if vertical else "row/component combination(s)"))
    rep.floor(rule, "multiplies in x86 convolution kernels", n, floor)
    rep.note("%s: %d of %d multiply sites are followed to their sources" % (rule, n - und, n))


# ---------------------------------------------------------------------------------------------
# from the accumulators to the stored pixel

E = frozenset()


class TagFlow:
    """which (source row, component) each byte of a value was accumulated from"""

    def __init__(self, prog, fn, lp, cs, ps):
        self.prog, self.fn, self.lp, self.sym = prog, fn, lp, lp.sym
        self.cs, self.ps = cs, ps
        self.busy = set()
        self.memo = {}
        self.fail = None
        self.env = {}
        from ..cfg import Dom
        self.dom = Dom(fn)

    def fx(self, e):
        """a fetched expression under the current unrolling environment"""
        if not self.env:
            return e
        from .validators import subst as esubst
        return _fold(esubst(e, self.env))

    def set_env(self, env):
        if env != self.env:
            self.env = dict(env)
            self.memo = {}

    # ---- multiply sites evaluated in place (their operands are already substituted)
    def site(self, e):
        n, a = _name(e), _args(e)
        A, B = self.lp.vec(_fold(a[0])), self.lp.vec(_fold(a[1]))
        if A is None or B is None or len(A) != len(B):
            return "?"
        lanes = self.lp.multiply(n, A, B)
        if any(isinstance(l, tuple) for l in lanes):
            return "?"
        lb = 4 if "madd" in n else 8
        out = []
        for terms in lanes:
            out += [frozenset((row, (off % self.ps) // self.cs) for (row, off, base, j, nb) in terms)] * lb
        return out

    # ---- element k of an array of accumulators
    def elem(self, L, k, depth):
        key = ("elem", L, k)
        if key in self.busy:
            return None
        if key in self.memo:
            return self.memo[key]
        self.busy.add(key)
        try:
            out = None
            for (bb, j, rv, whole) in self.sym.defs.get(L, []):
                if whole:
                    e = self.fx(self.sym.rvalue(rv, bb, (bb, j)))
                    if e[0] == "rep":
                        v = self.vec(e[1], depth + 1, (bb, j))
                    elif e[0] == "agg" and e[1] == "array" and k < len(e[4]):
                        v = self.vec(e[4][k], depth + 1, (bb, j))
                    else:
                        return "?"
                else:
                    st = self.fn.blocks[bb]["s"][j] if j != "term" else None
                    if st is None or len(st[1]) != 2 or not isinstance(st[1][1], list):
                        return "?"
                    pr = st[1][1]
                    if pr[0] == "ci":
                        if pr[1] != k:
                            continue
                        mp = {}
                    elif pr[0] == "i":
                        ix = strip(self.sym.local_at(pr[1], (bb, j)))
                        ixc = strip(self.fx(ix))
                        if ixc[0] == "const":
                            if ixc[1] != k:
                                continue
                            ix = None
                        rvars = _range_vars(self.sym, ix) if ix is not None else {}
                        if ix is None:
                            mp = {}
                        elif ix not in rvars or not (rvars[ix][0] <= k <= rvars[ix][1]):
                            return "?"
                        else:
                            mp = {ix: ("const", k, "usize")}
                    else:
                        return "?"
                    from .validators import subst as esubst
                    mp.update(self.env)
                    e = _fold(esubst(self.sym.rvalue(rv, bb, (bb, j)), mp))
                    if _range_vars(self.sym, e):
                        return "?"
                    v = self.vec(e, depth + 1, (bb, j))
                if v is None:
                    continue
                if v == "?":
                    return "?"
                if out is None:
                    out = list(v)
                elif len(out) == len(v):
                    out = [a | b for a, b in zip(out, v)]
                else:
                    return "?"
            if not self.busy - {key}:
                self.memo[key] = out
            return out
        finally:
            self.busy.discard(key)

    # ---- a scalar buffer filled by a vector store
    def buffer(self, L, at, depth):
        best = None
        for c in self.fn.calls():
            nm = c.method or short(c.name)
            if not re.match(r"^_mm(256)?_storeu?_si(128|256)$", nm) or len(c.args) < 2:
                continue
            dst = self.sym.operand(c.args[0], (c.bb, "term"))
            if ("local", L, self.fn.local_name(L)) not in _atoms_lp(dst):
                continue
            if at is not None and not (self.dom.dominates(c.bb, at[0])):
                continue
            if best is None or self.dom.dominates(best.bb, c.bb):
                best = c
        if best is None:
            return "?"
        return self.vec(self.fx(self.sym.operand(best.args[1], (best.bb, "term"))), depth + 1, (best.bb, "term"))

    def vec(self, e, depth=0, at=None):
        r = self._vec(e, depth, at)
        if r == "?":
            if self.fail is None:
                self.fail = fmt(e)[:160] if isinstance(e, tuple) else repr(e)[:80]
        else:
            self.fail = None
        return r

    def _vec(self, e, depth=0, at=None):
        if depth > 160 or not isinstance(e, tuple) or not e:
            return "?"
        k = e[0]
        if k == "cast":
            v = self.vec(e[2], depth + 1, at)
            if isinstance(v, list) and e[1] == "IntToInt" and len(e) > 3:
                n = {"i8": 1, "u8": 1, "i16": 2, "u16": 2, "i32": 4, "u32": 4, "i64": 8, "u64": 8}.get(e[3])
                if n and len(v) > n:
                    return v[:n]
            return v
        if k == "ovf":
            return self.vec(e[1], depth + 1, at)
        if k == "const":
            return [E] * 4
        if k == "local":
            if e in self.busy:
                return None
            if (e, at) in self.memo:
                return self.memo[(e, at)]
            self.busy.add(e)
            try:
                out = None
                defs = self.sym.defs.get(e[1], [])
                if at is not None and self.sym._rd_eligible(e[1]):
                    ks = [k_ for k_ in sorted(self.sym.reaching(e[1], at)) if k_ >= 0]
                    defs = [defs[k_] for k_ in ks]
                for (bb, j, rv, whole) in defs:
                    if not whole:
                        return "?"
                    v = self.vec(self.fx(self.sym.rvalue(rv, bb, (bb, j))), depth + 1, (bb, j))
                    if v is None:
                        continue
                    if v == "?":
                        return "?"
                    if out is None:
                        out = list(v)
                    elif len(out) == len(v):
                        out = [a | b for a, b in zip(out, v)]
                    else:
                        return "?"
                if not self.busy - {e}:
                    self.memo[(e, at)] = out
                return out
            finally:
                self.busy.discard(e)
        if k == "bin":
            a, b = self.vec(e[2], depth + 1, at), self.vec(e[3], depth + 1, at)
            c = strip(e[3])
            if e[1] == "BitAnd" and isinstance(a, list) and c[0] == "const" and c[1] == 0xffffffff:
                return a[:4]
            if e[1] == "Shr" and isinstance(a, list) and c[0] == "const" and c[1] == 32 and len(a) >= 8:
                return a[4:8]
            if e[1] in ("Add", "Sub") and a is None and b != "?":
                return b
            if e[1] in ("Add", "Sub") and b is None and a != "?":
                return a
            if e[1] in ("Add", "Sub") and isinstance(a, list) and isinstance(b, list):
                u = frozenset().union(*a, *b)
                return [u] * max(len(a), len(b))
            if isinstance(a, list) and isinstance(b, list) and not any(a) and not any(b):
                return [E] * max(len(a), len(b))        # arithmetic on plain numbers
            if e[1] == "Mul":
                # scalar tail: a component of a source pixel times a coefficient
                for side in (e[2], e[3]):
                    s_ = fmt(strip(side))
                    m = re.match(r"^\(?get_unchecked(?:@bb\d+)?\((src_rows?(?:\[[^\]]*\])?), [^()]*\)\.0(?:\[(\d+)\])?(?: as \w+)?\)?$", s_)
                    if m:
                        return [frozenset([(m.group(1), int(m.group(2) or 0))])] * 4
            return "?"
        if k == "agg" and e[1] == "array":
            out = []
            for o in e[4]:
                v = self.vec(o, depth + 1, at)
                if not isinstance(v, list):
                    return "?"
                out += v
            return out
        if k == "index":
            base, ix = strip(e[1]), strip(e[2])
            if base[0] in ("call", "callat") and _name(base) == "to_le_bytes" and ix[0] == "const":
                v = self.vec(_args(base)[0], depth + 1, at)
                if isinstance(v, list) and ix[1] < len(v):
                    return [v[ix[1]]]
                return "?"
            if base[0] in ("call", "callat") and _name(base) == "map" and ix[0] == "const" and len(_args(base)) == 2:
                arr = strip(_args(base)[0])
                ty = self.fn.local_ty(arr[1]) if arr[0] == "local" else ""
                m = re.match(r"^\[[iu](8|16|32|64); \d+\]$", ty or "")
                v = self.vec(arr, depth + 1, at) if m else "?"
                if isinstance(v, list):
                    es = int(m.group(1)) // 8
                    if (ix[1] + 1) * es <= len(v):
                        return [frozenset().union(*v[ix[1] * es:(ix[1] + 1) * es])] * self.cs
                return "?"
            if base[0] == "local" and ix[0] == "const":
                ty = self.fn.local_ty(base[1]) or ""
                m = re.match(r"^\[[iu](32|64); \d+\]$", ty)
                if m:
                    v = self.buffer(base[1], at, depth)
                    es = int(m.group(1)) // 8
                    if isinstance(v, list) and (ix[1] + 1) * es <= len(v):
                        return v[ix[1] * es:(ix[1] + 1) * es]
                    return "?"
                return self.elem(base[1], ix[1], depth)
            return "?"
        if k not in ("callat", "call"):
            return "?"
        n, a, cg = _name(e), _args(e), _cargs(e)
        if MULS.match(n) and len(a) == 2:
            return self.site(e)
        here = (e[1], "term") if k == "callat" else at
        V = lambda x: self.vec(x, depth + 1, here)
        w = 32 if "256" in n else 16

        def union2(A, B):
            if A is None:
                return B
            if B is None:
                return A
            if A == "?" or B == "?" or len(A) != len(B):
                return "?"
            return [x | y for x, y in zip(A, B)]
        if re.match(r"^_mm(256)?_add_epi(32|64)$", n):
            return union2(V(a[0]), V(a[1]))
        if re.match(r"^_mm(256)?_(setzero_si\d+|set1_epi\w+|set_epi\w+)$", n):
            return [E] * w
        if re.match(r"^_mm(256)?_s(ra|rl|ll)i_epi(16|32|64)$", n):
            return V(a[0])
        m = re.match(r"^_mm(256)?_pack(us|s)_epi(16|32)$", n)
        if m:
            A, B = V(a[0]), V(a[1])
            if not isinstance(A, list) or not isinstance(B, list) or len(A) != len(B):
                return "?"
            fb = int(m.group(3)) // 8
            out = []
            for h in range(0, len(A), 16):
                for src in (A, B):
                    for L in range(h, h + 16, fb):
                        out += [frozenset().union(*src[L:L + fb])] * (fb // 2)
            return out
        if n == "_mm256_set_m128i" and len(a) == 2:
            H, L = V(a[0]), V(a[1])
            if isinstance(H, list) and isinstance(L, list) and len(H) == 16 and len(L) == 16:
                return L + H
            return "?"
        if re.match(r"^_mm256_extract[if]128_si256$", n) and cg:
            A = V(a[0])
            return A[16 * cg[0]:16 * cg[0] + 16] if isinstance(A, list) else A
        if n == "_mm256_castsi256_si128":
            A = V(a[0])
            return A[:16] if isinstance(A, list) else A
        if re.match(r"^_mm(256)?_hadd_epi32$", n):
            A, B = V(a[0]), V(a[1])
            if not isinstance(A, list) or not isinstance(B, list) or len(A) != len(B):
                return "?"
            out = []
            for h in range(0, len(A), 16):
                for src in (A, B):
                    for L in (h, h + 8):
                        u = frozenset().union(*src[L:L + 8])
                        out += [u] * 4
            return out
        if re.match(r"^_mm(256)?_shuffle_epi32$", n) and cg:
            A = V(a[0])
            if not isinstance(A, list):
                return A
            out = []
            for h in range(0, len(A), 16):
                for i in range(4):
                    s_ = (cg[0] >> (2 * i)) & 3
                    out += A[h + 4 * s_: h + 4 * s_ + 4]
            return out
        m = re.match(r"^_mm(256)?_unpack(lo|hi)_epi(32|64)$", n)
        if m:
            A, B = V(a[0]), V(a[1])
            if not isinstance(A, list) or not isinstance(B, list) or len(A) != len(B):
                return "?"
            g = int(m.group(3)) // 8
            out = []
            for h in range(0, len(A), 16):
                base = h + (0 if m.group(2) == "lo" else 8)
                for i in range(0, 8, g):
                    out += A[base + i: base + i + g] + B[base + i: base + i + g]
            return out
        if n == "_mm_cvtsi128_si32":
            A = V(a[0])
            return A[:4] if isinstance(A, list) else A
        if n == "_mm_extract_epi64" and cg:
            A = V(a[0])
            return A[8 * cg[0]: 8 * cg[0] + 8] if isinstance(A, list) else A
        if n == "_mm_extract_epi32" and cg:
            A = V(a[0])
            return A[4 * cg[0]: 4 * cg[0] + 4] if isinstance(A, list) else A
        if n in ("saturating_add", "wrapping_add") and len(a) == 2:
            A, B = V(a[0]), V(a[1])
            if isinstance(A, list) and isinstance(B, list):
                u = frozenset().union(*A, *B)
                return [u] * max(len(A), len(B))
            return "?"
        if n == "clip" and len(a) == 2:
            A = V(a[1])
            if isinstance(A, list):
                return [frozenset().union(*A)] * self.cs
            return "?"
        if n in ("transmute", "clone", "into", "from"):
            return V(a[0]) if a else "?"
        if n == "precision" and len(a) == 1:
            return [E] * 8
        if n == "sum" and len(a) == 1:
            # sum over the elements of a scalar buffer
            s_ = strip(a[0])
            while s_[0] in ("call", "callat") and _name(s_) in ("iter", "into_iter", "deref", "as_slice") and _args(s_):
                s_ = strip(_args(s_)[0])
            if s_[0] == "local":
                ty = self.fn.local_ty(s_[1]) or ""
                m = re.match(r"^\[[iu](32|64); \d+\]$", ty)
                if m:
                    v = self.buffer(s_[1], here, depth)
                    if isinstance(v, list):
                        return [frozenset().union(*v)] * (int(m.group(1)) // 8)
            return "?"
        if re.match(r"^hsum_\w+$", n) and len(a) == 1:
            A = V(a[0])
            if isinstance(A, list):
                return [frozenset().union(*A)] * 4
            return "?"
        return "?"


def _atoms_lp(e, acc=None):
    acc = set() if acc is None else acc
    if isinstance(e, tuple) and e:
        if e[0] in ("local", "param"):
            acc.add(e)
        for x in e:
            if isinstance(x, tuple):
                _atoms_lp(x, acc)
    return acc


def _store_statements(fn, sym):
    """(dst row expression, block, index, statement) of stores through get_unchecked_mut(dst_row*, ..)"""
    ptrs = {}
    for c in fn.calls():
        if "get_unchecked_mut" in c.name and c.dest:
            ptrs[c.dest[0]] = strip(sym.operand(c.args[0], (c.bb, "term")))
    out = []
    for b, blk in enumerate(fn.blocks):
        if blk["c"]:
            continue
        for j, st in enumerate(blk["s"]):
            if st[0] == "a" and st[1] and st[1][0] in ptrs and "*" in st[1][1:]:
                out.append((ptrs[st[1][0]], b, j, st))
    return out


def stores(rep, prog, rule):
    rep.rule(rule, "in the x86 horizontal kernels byte b of the pixel stored for destination row i "
             "is accumulated from products of source row i, component b // component_size only: the "
             "(row, component) tags of the multiply lanes (from the pairing analysis) are followed "
             "through the accumulator additions (arrays of accumulators element by element, small "
             "constant loops unrolled), shifts, packs, 128-bit extracts, horizontal adds, 64-bit "
             "extractions, scalar buffers filled by vector stores, clip calls and one level of "
             "store helpers to the store; a component or a row that ends up in the wrong place is a "
             "violation, a store that is not followed is undecided")
    from .validators import subst as esubst
    n = und = 0
    for f in sorted(prog.fns.values(), key=lambda x: x.id):
        m = re.match(r"^convolution::(u8|u16)x(\d)::(sse4|avx2)::horiz_convolution", f.name)
        if not m or f.kind == "closure":
            continue
        cs = 1 if m.group(1) == "u8" else 2
        ps = cs * int(m.group(2))
        ks = 2 if m.group(1) == "u8" else 4
        if not [c for c in f.calls() if MULS.match(c.method or short(c.name))]:
            continue
        lp = LanePair(prog, f, ps, cs, ks)
        tf = TagFlow(prog, f, lp, cs, ps)
        work = []          # (dst expr, value expr, position, where)
        for dst, b, j, st in _store_statements(f, lp.sym):
            comp = None
            for pr in st[1][2:]:
                if isinstance(pr, list) and pr[0] == "ci":
                    comp = ("const", pr[1], "usize")
                elif isinstance(pr, list) and pr[0] == "i":
                    comp = strip(lp.sym.local_at(pr[1], (b, j)))
            work.append((dst, lp.sym.rvalue(st[2], b, (b, j)), (b, j), st[3], comp))
        # one level of store helpers: helper(value, dst_row, ..) whose body stores through
        # get_unchecked_mut(dst_row, ..)
        for c in f.calls():
            tg = prog.call_targets(c)
            if len(tg) != 1 or tg[0].kind == "closure" or not tg[0].name.startswith("convolution::"):
                continue
            h = tg[0]
            hs = Sym(h)
            hst = _store_statements(h, hs)
            if not hst or len(c.args) != h.arg_count:
                continue
            mp = {("param", i + 1, h.local_name(i + 1)): lp.sym.operand(a, (c.bb, "term"))
                  for i, a in enumerate(c.args)}
            for dst, b, j, st in hst:
                work.append((esubst(dst, mp), esubst(hs.rvalue(st[2], b, (b, j)), mp), (c.bb, "term"), c.at, None))
        for dst, val, at, where, comp in work:
            if "dst_row" not in fmt(dst):
                continue
            rv = _range_vars(lp.sym, dst)
            _range_vars(lp.sym, val, rv)
            combos = [{}]
            for atom, (lo, hi) in sorted(rv.items(), key=repr):
                combos = [dict(list(cmb.items()) + [(atom, v_)]) for cmb in combos
                          for v_ in range(lo, hi + 1)][:16]
            for cmb in combos:
                mp = {a_: ("const", v_, "usize") for a_, v_ in cmb.items()}
                d2 = _fold(esubst(dst, mp)) if mp else dst
                v2 = _fold(esubst(val, mp)) if mp else val
                c2 = strip(_fold(esubst(comp, mp))) if comp is not None else None
                n += 1
                rep.touch(f)
                dname = fmt(d2)[:40]
                key = "%s|store->%s" % (f.name, dname)
                tf.fail = None
                tf.set_env(mp)
                if c2 is not None:
                    key += ".%s" % (c2[1] if c2[0] == "const" else "?")
                v = tf.vec(v2, 0, at)
                if c2 is not None and isinstance(v, list) and c2[0] == "const" and len(v) >= cs:
                    # a single component is stored: place it at its byte offset
                    v = [None] * (c2[1] * cs) + list(v[:cs]) + [None] * (ps - (c2[1] + 1) * cs)
                elif c2 is not None:
                    v = "?"
                if not isinstance(v, list) or len(v) < ps:
                    und += 1
                    rep.unk(rule, key, where, "the stored value is not followed to the accumulators (%s)"
                            % (tf.fail or "no product reaches it"))
                    continue
                want_row = fmt(d2).replace("dst_row", "src_row")
                bad = None
                for bi in range(ps):
                    tags = v[bi]
                    if tags is None:
                        continue
                    cwant = bi // cs
                    if not tags:
                        bad = "byte %d of the stored pixel receives no product" % bi
                    for (row, c_) in tags:
                        if c_ != cwant:
                            bad = "byte %d (component %d) of the stored pixel is accumulated from " \
                                  "component %d of the source" % (bi, cwant, c_)
                        elif row != want_row:
                            bad = "the pixel stored into %s is accumulated from %s" % (dname, row)
                if bad:
                    rep.bad(rule, key + "|misplaced", where, "%s: %s" % (f.name, bad))
                else:
                    rep.ok(rule, key, where, "%d bytes from %s, components in order"
                           % (len([x for x in v[:ps] if x is not None]), want_row))
    rep.floor(rule, "pixel stores of the horizontal x86 kernels", n, 20)
    rep.note("%s: %d of %d stores are followed to the accumulators" % (rule, n - und, n))
