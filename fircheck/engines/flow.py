"""E2 — CFG path rules: alias tracking of a destination view, must-write summaries,
degenerate-size guards, error returns (DESIGN §3/E2)."""
from ..cfg import find_path, find_path_consistent, reachable_from
from ..sym import Sym, fmt, short

# leaf write events: obtaining mutable rows / mutable parts of the destination
LEAF_WRITERS = {"iter_rows_mut", "iter_2_rows_mut", "iter_4_rows_mut",
                "split_by_height_mut", "split_by_width_mut"}
IMAGE_VIEW_MUT = "image_view::ImageViewMut"

SIZE_WORDS = ("width", "height")


def _is_size_expr(e):
    """expression built from width()/height() getters or .width/.height fields"""
    s = fmt(e)
    return any(w in s for w in SIZE_WORDS)


def _zero(e):
    return e[0] == "const" and e[1] in (0, 0.0)


def _degenerate_fact(cond, val):
    """does (cond == val) say that some size expression is zero / non-positive?"""
    c = cond
    if c[0] != "bin":
        return False
    op, a, b = c[1], c[2], c[3]
    if _zero(b) and _is_size_expr(a):
        x_op = op
    elif _zero(a) and _is_size_expr(b):
        x_op = {"Lt": "Gt", "Gt": "Lt", "Le": "Ge", "Ge": "Le"}.get(op, op)
    else:
        return False
    # x_op is the comparison `size OP 0`; degenerate when it implies size <= 0
    if val is True and x_op in ("Eq", "Le", "Lt"):
        return True
    # Ge(x,0) false means x < 0 (impossible for unsigned, degenerate for floats)
    return val is False and x_op in ("Ne", "Gt", "Ge")


def _degenerate_deep(prog, cond, val, depth=0):
    """_degenerate_fact, also when it is stated through a crate-local predicate: every path on
    which the predicate returns that value has such a fact"""
    if _degenerate_fact(cond, val):
        return True
    if prog is not None and depth < 3 and cond[0] in ("call", "callat") and isinstance(val, bool):
        from ..sym import call_alternatives
        alts = call_alternatives(prog, cond, val)
        if alts and all(any(_degenerate_deep(prog, c_, v_, depth + 1) for c_, v_ in alt)
                        for alt in alts):
            return True
    return False


from ..sym import _tested_outcome  # noqa: E402


def degenerate_edges(fn, sym, prog=None, opaque=None):
    """edges (src,dst) taken exactly when some size expression is zero / non-positive (directly,
    or because a crate-local predicate returned a value -- or a crate-local Option / Result
    helper had an outcome -- it only has in that case). Edges that test the result of a
    crate-local helper which cannot be analysed are collected in `opaque`."""
    out = set()
    for (p, s, cond, val) in sym.edge_facts():
        if _degenerate_fact(cond, val):
            out.add((p, s))
            continue
        if prog is None:
            continue
        from ..sym import call_alternatives
        if cond[0] in ("call", "callat") and isinstance(val, bool):
            from .validators import alternatives_when
            alts = alternatives_when(prog, cond, val)
            if alts and all(any(_degenerate_deep(prog, c_, v_, 1) for c_, v_ in alt) for alt in alts):
                out.add((p, s))
            continue
        t_ = _tested_outcome(cond, val)
        if t_ is None:
            continue
        call_, outcome, v_ = t_
        res_ = call_[4] if call_[0] == "callat" else call_[3]
        g_ = prog.fns.get(res_) if isinstance(res_, str) else None
        if g_ is None:
            continue
        oty = g_.d.get("output") or ""
        if outcome is None:
            first, second = ("Ok", "Err") if oty.startswith("std::result::Result<") or "Result<" in oty.split("Option<")[0] \
                else ("None", "Some")
            if v_ == 0:
                outcome = first
            elif v_ == 1:
                outcome = second
            else:
                continue
        if outcome in ("Ok", "Ok(Some)", "Some"):
            continue            # the success outcome is not a degenerate exit
        alts = call_alternatives(prog, call_, outcome, "outcome")
        if alts is None:
            if opaque is not None:
                opaque.add((p, s))
            continue
        if alts and all(any(_degenerate_deep(prog, c_, v2) for c_, v2 in alt) for alt in alts):
            out.add((p, s))
    # a bool local that holds `a || b` (lowered to several assignments): the edge taken when it is
    # true is degenerate when every assignment that can make it true is -- a constant `true`
    # stored in a block that is only entered through degenerate edges, or a degenerate comparison
    defs = fn.defs()
    for _round in range(3):
        grew = False
        for (p, s, cond, val) in sym.edge_facts():
            if (p, s) in out or not isinstance(val, bool):
                continue
            c = cond
            while isinstance(c, tuple) and c and c[0] in ("copy", "ref", "deref"):
                c = c[1]
            if not (isinstance(c, tuple) and c and c[0] == "local"):
                continue
            ds = [d for d in defs.get(c[1], []) if d[3]]
            if len(ds) < 2:
                continue
            good = True
            relevant = 0
            for (bb, j, rv, w) in ds:
                if rv[0] == "use" and rv[1][0] == "k":
                    try:
                        cv = bool(rv[1][2]) if isinstance(rv[1][2], (bool, int)) else None
                    except Exception:
                        cv = None
                    if cv is None:
                        good = False
                        break
                    if cv != val:
                        continue
                    relevant += 1
                    preds = [q for q in fn.pred[bb] if not fn.is_cleanup(q)]
                    if not preds or not all((q, bb) in out for q in preds):
                        good = False
                        break
                else:
                    relevant += 1
                    try:
                        e = sym.rvalue(rv, bb, (bb, j))
                    except Exception:
                        good = False
                        break
                    if not _degenerate_fact(e, val):
                        good = False
                        break
            if good and relevant:
                out.add((p, s))
                grew = True
        if not grew:
            break
    return out


def return_locals(fn):
    """locals whose value is moved/copied into the return place"""
    r = {0}
    changed = True
    while changed:
        changed = False
        for blk in fn.blocks:
            if blk["c"]:
                continue
            for st in blk["s"]:
                if st[0] == "a" and len(st[1]) == 1 and st[1][0] in r and st[2][0] == "use":
                    o = st[2][1]
                    if o[0] in ("c", "m") and len(o[1]) == 1 and o[1][0] not in r:
                        r.add(o[1][0])
                        changed = True
    return r


_ALWAYS_ERR = {}


def always_err(prog, g, depth=0):
    """does the crate-local function g return Err(..) on every path (a helper such as
    `fn unsupported() -> Result<(), E> { Err(E::Unsupported) }`)?"""
    if g.id in _ALWAYS_ERR:
        return _ALWAYS_ERR[g.id]
    _ALWAYS_ERR[g.id] = False
    res = False
    if "Result<" in (g.d.get("output") or "") and depth < 3:
        from ..sym import Sym, _outcomes
        gs = Sym(g)
        defs = [d for d in g.defs().get(0, [])]
        res = bool(defs)
        for (bb, j, rv, whole) in defs:
            if not whole:
                res = False
                break
            r = gs.rvalue(rv, bb, (bb, j))
            o = _outcomes(r)
            if o == {"Err"}:
                continue
            if r[0] in ("call", "callat"):
                rid = r[4] if r[0] == "callat" else r[3]
                h = prog.fns.get(rid) if isinstance(rid, str) else None
                if h is not None and always_err(prog, h, depth + 1):
                    continue
            res = False
            break
    _ALWAYS_ERR[g.id] = res
    return res


def _const_is_err(prog, op):
    """a constant operand of type Result<(), E> with E a field-less crate-local enum: the
    evaluated value is one scalar; the discriminants of E's variants mean Err(variant), the first
    value after them is the niche that encodes Ok(())"""
    import re as _re
    # the driver names the variant of an enum constant that fits one scalar (decoded from the
    # layout, niche encodings included)
    if len(op) > 3 and isinstance(op[3], list) and op[3] and op[3][0] == "variant" \
            and _re.match(r"^(?:std|core)::result::Result<", str(op[1])):
        return op[3][1] == "Err"
    if len(op) < 3 or not isinstance(op[2], list) or not op[2] or op[2][0] != "bits":
        return False
    m = _re.match(r"^(?:std|core)::result::Result<\(\), (.+)>$", str(op[1]))
    if not m:
        return False
    ety = m.group(1).strip()
    ids = [k for k in prog.adts if k == ety or k.endswith("::" + ety) or ety.endswith("::" + k.split("::", 1)[-1])]
    if len(ids) != 1:
        return False
    vs = prog.adts[ids[0]].get("variants", [])
    if not vs or any(v.get("fields") for v in vs):
        return False
    try:
        val = int(op[2][1])
    except Exception:
        return False
    return 0 <= val < len(vs)


def error_return_blocks(fn, prog=None):
    """blocks that build an Err(..) / residual in (a local that becomes) the return value, or
    call a crate-local helper that returns Err on all its paths for it"""
    out = set()
    rl = return_locals(fn)
    for b, blk in enumerate(fn.blocks):
        if blk["c"]:
            continue
        for st in blk["s"]:
            if st[0] == "a" and len(st[1]) == 1 and st[1][0] in rl and st[2][0] == "agg" \
                    and st[2][1] == "adt":
                if st[2][2] == "core::result::Result" and st[2][3][1] == "Err":
                    out.add(b)
            elif st[0] == "a" and len(st[1]) == 1 and st[1][0] in rl and st[2][0] == "use" \
                    and st[2][1][0] == "k" and prog is not None and _const_is_err(prog, st[2][1]):
                out.add(b)          # `const X: Result<(), E> = Err(E::V)` returned by name
        t = blk["t"]
        if t[0] == "call" and len(t[3]) == 1 and t[3][0] in rl:
            nm = t[1].get("name", "")
            if nm.endswith("FromResidual::from_residual"):
                out.add(b)
            elif prog is not None:
                g = prog.fns.get(t[1].get("res") or t[1].get("id"))
                if g is not None and g.kind != "closure" and always_err(prog, g):
                    out.add(b)
    return out


class Aliases:
    """locals that hold (a reborrow of / a value derived from) the tracked destination"""

    def __init__(self, fn, roots):
        self.fn = fn
        self.set = set(roots)
        self.derived_calls = {}
        changed = True
        while changed:
            changed = False
            for b, blk in enumerate(fn.blocks):
                if blk["c"]:
                    continue
                for st in blk["s"]:
                    if st[0] != "a":
                        continue
                    dst, rv = st[1], st[2]
                    src = None
                    if rv[0] == "use" and rv[1][0] in ("c", "m"):
                        src = rv[1][1]
                    elif rv[0] in ("ref", "raw"):
                        src = rv[2]
                    elif rv[0] == "cast" and rv[2][0] in ("c", "m"):
                        src = rv[2][1]
                    elif rv[0] == "agg":
                        for o in rv[4]:
                            if o[0] in ("c", "m") and o[1][0] in self.set and dst[0] not in self.set:
                                self.set.add(dst[0])
                                changed = True
                    if src is not None and src[0] in self.set and dst[0] not in self.set:
                        self.set.add(dst[0])
                        changed = True
                t = blk["t"]
                if t[0] == "call":
                    dl = t[3][0]
                    if dl in self.set or dl == 0:
                        continue
                    for a in t[2]:
                        if a[0] in ("c", "m") and a[1][0] in self.set:
                            ty = fn.local_ty(dl)
                            if ("ImageViewMut" in ty or "ImageMut" in ty or "TypedImage<" in ty
                                    or "ParallelIterator" in ty or "IterMut" in ty
                                    or "&mut " in ty):
                                self.set.add(dl)
                                self.derived_calls[dl] = b
                                changed = True
                            break

    def arg_positions(self, call):
        return [i for i, a in enumerate(call.args)
                if a[0] in ("c", "m") and a[1][0] in self.set]


class MustWrite:
    def __init__(self, prog, rep=None):
        self.prog = prog
        self.memo = {}
        self.busy = set()
        self.rep = rep

    def is_leaf_writer(self, call):
        return (call.method in LEAF_WRITERS and call.trait is not None
                and call.trait.rsplit("::", 1)[-1] == "ImageViewMut")

    def _must_call_param(self, t, li):
        """does the crate-local function t invoke its parameter li (an FnOnce / FnMut / Fn value)
        on every path from entry to return?"""
        al = Aliases(t, [li])
        callers = set()
        for c in t.calls():
            if short(c.name) in ("call_once", "call_mut", "call") and c.args and \
                    c.args[0][0] in ("c", "m") and c.args[0][1][0] in al.set:
                callers.add(c.bb)
        if not callers:
            return False
        blocked = set()
        for b in callers:
            for s_ in t.succ[b]:
                blocked.add((b, s_))
        return find_path_consistent(t, 0, t.returns(), blocked=set(), blocked_edges=blocked) is None

    def closure_writes(self, cl):
        """a closure handed to for_each(parts): does every path through it write something
        mutable it receives (any argument)?"""
        roots = list(range(1, cl.arg_count + 1))
        return self._mw_roots(cl, roots, ("closure", cl.id))

    def mw(self, fn, param):
        return self._mw_roots(fn, [param], (fn.id, param))

    def mw_when(self, fn, param, ret_val):
        """must-write restricted to the paths on which the bool function returns `ret_val`"""
        return self._mw_roots(fn, [param], (fn.id, param, ret_val), ret_val)

    def _mw_roots(self, fn, roots, key, ret_val=None):
        if key in self.memo:
            return self.memo[key]
        if key in self.busy:
            return (None, ["recursion through %s" % fn.name])
        self.busy.add(key)
        try:
            res = self._compute(fn, roots, ret_val)
        finally:
            self.busy.discard(key)
        self.memo[key] = res
        return res

    def _compute(self, fn, roots, ret_val=None):
        prog = self.prog
        if self.rep is not None:
            self.rep.touch(fn)
        al = Aliases(fn, roots)
        sym = Sym(fn)
        write_blocks = set()
        unknown_blocks = {}
        failed_callee = {}
        for c in fn.calls():
            pos = al.arg_positions(c)
            if not pos:
                continue
            if self.is_leaf_writer(c) and 0 in pos:
                write_blocks.add(c.bb)
                continue
            targets = prog.call_targets(c)
            # for_each / map over mutable parts with a closure
            clos = []
            for a in c.args:
                if a[0] in ("c", "m"):
                    ty = fn.local_ty(a[1][0])
                    if ty.startswith("{closure:") or ty.startswith("&{closure:") \
                            or ty.startswith("&mut {closure:"):
                        cid = ty[ty.index("{closure:") + 9:-1]
                        if cid in prog.fns:
                            clos.append(prog.fns[cid])
            if not targets and clos and short(c.name) in ("for_each", "map", "try_for_each",
                                                           "for_each_with"):
                oks = [self.closure_writes(cl) for cl in clos]
                if all(o[0] is True for o in oks):
                    write_blocks.add(c.bb)
                elif any(o[0] is False for o in oks):
                    failed_callee[c.bb] = (c, [o for o in oks if o[0] is False][0][1])
                else:
                    unknown_blocks[c.bb] = "closure passed to %s undecided" % c.name
                continue
            if not targets:
                nm = short(c.name)
                # harmless readers / adaptors of a derived value
                if nm in ("width", "height", "pixel_type", "deref", "deref_mut", "as_mut",
                          "as_ref", "borrow_mut", "borrow", "into_iter", "next", "zip",
                          "into_par_iter", "unwrap", "expect", "is_ok", "is_err", "is_some",
                          "is_none", "branch", "from_residual", "drop", "map", "ok", "take",
                          "enumerate", "iter_mut", "get_mut", "new", "clone", "len", "image_view",
                          "image_view_mut", "typed_image_mut", "from", "into", "unwrap_or",
                          "chunks_exact_mut", "unwrap_or_default", "rev", "by_ref", "as_mut_ptr",
                          "get_unchecked_mut", "split_at_mut", "from_pixels_slice", "push",
                          "with_capacity", "collect", "min", "max", "is_empty", "as_mut_slice",
                          "align_to_mut", "buffer_mut", "get", "iter", "skip", "step_by",
                          "components_mut", "fill", "copy_from_slice", "first_mut",
                          "into_remainder", "as_ptr", "pixels_mut", "debug_assert"):
                    continue
                unknown_blocks[c.bb] = "unknown callee %s receives the destination" % c.name
                continue
            verdicts = []
            for t in targets:
                for i in pos:
                    li = i + 1
                    if li > t.arg_count:
                        continue
                    ty = t.local_ty(li)
                    if not (ty.startswith("&mut") or
                            (not ty.startswith("&") and "ImageViewMut" in ty)):
                        # a closure that captured the destination, handed to a crate-local
                        # function that calls it on every path (`with_scratch(which, |this, buf| ..)`):
                        # the call writes if the closure does
                        a = c.args[i]
                        aty = fn.local_ty(a[1][0]) if a[0] in ("c", "m") else ""
                        if "{closure:" in (aty or "") and self._must_call_param(t, li):
                            cid = aty[aty.index("{closure:") + 9:-1]
                            cl = prog.fns.get(cid)
                            if cl is not None:
                                verdicts.append((t, self.closure_writes(cl)))
                        continue
                    verdicts.append((t, self.mw(t, li)))
            if not verdicts:
                continue
            if all(v[1][0] is True for v in verdicts):
                write_blocks.add(c.bb)
            elif any(v[1][0] is False for v in verdicts):
                t, v = [x for x in verdicts if x[1][0] is False][0]
                failed_callee[c.bb] = (c, list(v[1]))
            else:
                t, v = [x for x in verdicts if x[1][0] is None][0]
                unknown_blocks[c.bb] = "callee %s undecided: %s" % (t.name, "; ".join(v[1][:2]))
        # paths entry -> return that avoid completing a write call
        opaque_edges = set()
        blocked_edges = set(degenerate_edges(fn, sym, self.prog, opaque_edges))
        for b in write_blocks:
            for s_ in fn.succ[b]:
                blocked_edges.add((b, s_))
        if ret_val is not None:
            # only the paths on which the function returns ret_val: edges that decide on the
            # very value that is returned, the other way, are excluded
            rds = [d for d in fn.defs().get(0, []) if d[3]]
            if len(rds) == 1:
                R = sym.rvalue(rds[0][2], rds[0][0], (rds[0][0], rds[0][1]))
                for (p_, s_, cond, v_) in sym.edge_facts():
                    if cond == R and isinstance(v_, (bool, int)) and bool(v_) != ret_val:
                        blocked_edges.add((p_, s_))
        # a callee that writes exactly when it returns true (or false): the edges that are taken
        # only after it returned that value count as written
        for b, (c_, why_) in list(failed_callee.items()):
            tg_ = prog.call_targets(c_)
            if len(tg_) != 1 or (tg_[0].d.get("output") or "") != "bool":
                continue
            pos_ = [i for i in al.arg_positions(c_)]
            lis = [i + 1 for i in pos_ if i + 1 <= tg_[0].arg_count and
                   ((tg_[0].local_ty(i + 1) or "").startswith("&mut") or "ImageViewMut" in (tg_[0].local_ty(i + 1) or ""))]
            if not lis:
                continue
            when = {}
            for rv_ in (True, False):
                vs_ = [self.mw_when(tg_[0], li_, rv_) for li_ in lis]
                when[rv_] = all(v_[0] is True for v_ in vs_)
            if not (when[True] or when[False]):
                continue
            for (p_, s_, cond, v_) in sym.edge_facts():
                if fn.pred[s_] != [p_]:
                    continue
                for (fc, fv) in sym.facts_at(s_):
                    if fc[0] == "callat" and fc[1] == b and isinstance(fv, (bool, int)) and when.get(bool(fv)):
                        blocked_edges.add((p_, s_))
        err_blocks = error_return_blocks(fn, prog)
        rets = fn.returns()
        path = find_path_consistent(fn, 0, rets, blocked=err_blocks, blocked_edges=blocked_edges)
        if path is None:
            return (True, [])
        if any((path[i], path[i + 1]) in opaque_edges for i in range(len(path) - 1)):
            # the path leaves through a test of a helper's Option / Result outcome that could
            # not be analysed: whether that is the zero-size exit is not decided
            p3 = find_path_consistent(fn, 0, rets, blocked=err_blocks,
                                      blocked_edges=blocked_edges | opaque_edges)
            if p3 is None:
                return (None, ["a path without a writer call leaves through the outcome of a "
                               "helper that is not analysed (%s)" % self._describe(fn, path)])
            path = p3
        # a callee that does not always write is not a write event, but it is the place to
        # look: name the innermost such callee on the offending path as the root cause
        on_path_unknown = [unknown_blocks[b] for b in path if b in unknown_blocks]
        on_path_failed = [failed_callee[b] for b in path if b in failed_callee]
        if on_path_unknown:
            be2 = set(blocked_edges)
            for b in list(unknown_blocks):
                for s_ in fn.succ[b]:
                    be2.add((b, s_))
            p2 = find_path_consistent(fn, 0, rets, blocked=err_blocks, blocked_edges=be2)
            if p2 is None:
                return (None, on_path_unknown)
            path = p2
            on_path_failed = [failed_callee[b] for b in path if b in failed_callee]
        if on_path_failed:
            c, why = on_path_failed[-1]
            return (False, [why[0], "%s calls %s at %s" % (fn.name, c.name, c.at)]
                    + list(why[1:]))
        return (False, [self._root(fn, path), self._describe(fn, path)])

    def _root(self, fn, path):
        """position-free key of the failing path: the function, or — when the path is selected
        by a macro-generated table — the macro and the arm taken"""
        for i, b in enumerate(path[:-1]):
            t = fn.term(b)
            if t[0] == "sw" and t[6]:
                nxt = path[i + 1]
                arm = [v for v, tb in t[2] if tb == nxt]
                return "root=%s|arm%s" % (t[6][-1], arm[0] if arm else "_")
        return "root=%s" % fn.name

    def _describe(self, fn, path):
        lines = []
        for b in path:
            t = fn.term(b)
            if t[0] == "sw":
                lines.append(t[5].rsplit("/", 1)[-1])
            elif t[0] == "call":
                lines.append("%s@%s" % (short(t[1].get("name", "?")), t[6].rsplit(":", 1)[-1]))
        return "%s: path %s reaches return without a writer call (%s)" % (
            fn.name, "->".join("bb%d" % b for b in path[:12]) + ("…" if len(path) > 12 else ""),
            ", ".join(lines[:10]))


def pipeline_body(prog, name="resizer::Resizer::resize_typed",
                  markers=("resample_nearest", "resample_convolution", "resample_super_sampling")):
    """the function that holds the resize pipeline: `name` itself, or -- when that has become a
    thin wrapper (options resolved, then one call) -- the crate-local function of the same file
    it hands its views to, followed as long as no resampler call is seen (at most 3 levels)"""
    f = prog.fn_by_name(name)
    for _ in range(3):
        if any(c.name.rsplit("::", 1)[-1] in markers for c in f.calls()):
            return f
        nxt = []
        for c in f.calls():
            for t in prog.call_targets(c):
                if t.file == f.file and t.kind != "closure" and t.id != f.id and \
                        any(cc.name.rsplit("::", 1)[-1] in markers for cc in t.calls()):
                    nxt.append(t)
        if len({t.id for t in nxt}) != 1:
            return f
        f = nxt[0]
    return f
