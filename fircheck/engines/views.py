"""Rules about the image containers / views (row iterators, constructors)."""
from ..sym import Sym, fmt, atoms


def _contains(e, pred):
    if not isinstance(e, tuple):
        return False
    if pred(e):
        return True
    for x in e[1:]:
        if isinstance(x, tuple):
            if x and isinstance(x[0], str):
                if _contains(x, pred):
                    return True
            else:
                for y in x:
                    if _contains(y, pred):
                        return True
    return False


def _is_self(e):
    return e[0] == "param" and e[1] == 1


def _height_dep(e):
    def pred(x):
        if x[0] == "field" and x[2] == "height" and _contains(x[1], _is_self):
            return True
        if x[0] == "call" and x[1] == "height" and x[2] and _contains(x[2][0], _is_self):
            return True
        return False
    return _contains(e, pred)


def _delegates(e, method):
    """the value is the result of the same trait method on an inner view reached from self"""
    def pred(x):
        return (x[0] in ("callat",) and x[2] == method and x[3]
                and _contains(x[3][0], _is_self))
    return _contains(e, pred)


def row_iterators(prog):
    out = []
    for tr, meth in (("image_view::ImageView", "iter_rows"),
                     ("image_view::ImageViewMut", "iter_rows_mut")):
        tid = prog.trait_id(tr)
        for imp in prog.impls_of(tid):
            m = imp["methods"].get(meth)
            if m and m in prog.fns:
                out.append((prog.fns[m], meth, imp))
    return out


def return_exprs(fn, sym):
    """symbolic value of the return place at each of its definitions"""
    out = []
    for (bb, j, rv, whole) in fn.defs().get(0, []):
        out.append((bb, sym.rvalue(rv, bb)))
    return out


def rows_bounded(rep, prog, rule):
    rep.rule(rule, "for each ImageView::iter_rows / ImageViewMut::iter_rows_mut implementation the "
             "returned iterator depends on self.height on every path (a take(height - start_row) "
             "or equivalent), or delegates to the same method of an inner view; otherwise a view "
             "over a buffer longer than width*height exposes rows beyond its height")
    its = row_iterators(prog)
    rep.floor(rule, "iter_rows impls", len(its), 8)
    for f, meth, imp in its:
        rep.touch(f)
        sym = Sym(f)
        exprs = return_exprs(f, sym)
        key = "%s" % f.name
        if not exprs:
            rep.unk(rule, key, f.loc, "no definition of the return place found")
            continue
        bad = []
        for bb, e in exprs:
            if _height_dep(e) or _delegates(e, meth):
                continue
            bad.append((bb, e))
        if not bad:
            rep.ok(rule, key, f.loc, "row count bounded by self.height / delegated")
        else:
            st = imp.get("self_ty", "")
            if "TypedImage" in st or "TypedImageRef" in st:
                rep.bad(rule, key, f.loc,
                        "%s returns %s which does not depend on self.height; the constructors of "
                        "%s accept buffers longer than width*height" % (
                            f.name, fmt(bad[0][1])[:200], st))
            else:
                rep.unk(rule, key, f.loc, "return value %s not related to self.height"
                        % fmt(bad[0][1])[:200])
