"""E3 — arithmetic / index obligations over symbolic values, guard facts and intervals
(DESIGN §3/E3). Bug-finder with proof accounting: DISCHARGED / VIOLATION / UNDECIDED."""
import re

from ..sym import Sym, atoms, fmt, unstable_locals
from .intervals import Intervals, type_range

# files of the geometry / container layer (kernel-internal index arithmetic is E7's)
SCOPE_FILES = (
    "src/crop_box.rs", "src/image_view.rs", "src/threading.rs", "src/resizer.rs",
    "src/mul_div.rs", "src/color/mod.rs", "src/change_components_type.rs",
    "src/convolution/mod.rs", "src/convolution/optimisations.rs", "src/alpha/common.rs",
    "src/array_chunks.rs", "src/utils.rs", "src/images/",
)

# value ranges of pure getters (DESIGN Appendix B): method -> (lo, hi)
GETTER_RANGES = {
    "width": (0, 2**32 - 1), "height": (0, 2**32 - 1), "size": (1, 16),
    "count_of_components": (1, 4), "count": (1, 4), "precision": (0, 63), "get": (1, 2**32 - 1),
    "len": (0, 2**63 - 1), "capacity": (0, 2**63 - 1), "chunks_len": (0, 2**63 - 1),
}


def in_scope(fn):
    return any(fn.file == fn.prog.file_now(s) or (s.endswith("/") and fn.file.startswith(s))
               for s in SCOPE_FILES)


def strip_widen(e):
    """drop int->int casts (value preserving when widening; callers use it for matching only)"""
    while isinstance(e, tuple) and e and e[0] == "cast" and e[1] == "IntToInt":
        e = e[2]
    return e


class Ctx:
    def __init__(self, prog, fn, param_info=None):
        self.prog = prog
        self.fn = fn
        self.sym = Sym(fn)
        self.iv = RangeEval(self.sym, prog.config["ptr_bits"], prog)
        self.iv.param_info = param_info
        self._facts = {}

    def facts(self, bb):
        if bb not in self._facts:
            self._facts[bb] = self.sym.facts_at(bb)
        return self._facts[bb]


class RangeEval(Intervals):
    """Intervals + getter ranges + table ranges + call-site ranges of private parameters"""
    param_info = None

    def eval(self, e):
        if isinstance(e, tuple) and e and e[0] == "param" and self.param_info is not None:
            r = self.param_info.interval(self.fn, e[1])
            if r is not None:
                return r
        r = Intervals.eval(self, e)
        if r is not None:
            return r
        if isinstance(e, tuple) and e:
            if e[0] == "call":
                name = e[1]
                if name in GETTER_RANGES and name not in ("min", "max"):
                    return GETTER_RANGES[name]
                if name == "max" and len(e[2]) == 2:
                    a, b = Intervals.eval(self, e[2][0]), Intervals.eval(self, e[2][1])
                    a = a or self.eval(e[2][0])
                    b = b or self.eval(e[2][1])
                    lo = max(x[0] for x in (a, b) if x) if (a or b) else None
                    if lo is not None:
                        hi = max(a[1], b[1]) if (a and b) else 2**128
                        return (lo, hi)
                if name == "min" and len(e[2]) == 2:
                    a = self.eval(e[2][0])
                    b = self.eval(e[2][1])
                    hi = min(x[1] for x in (a, b) if x) if (a or b) else None
                    if hi is not None:
                        lo = min(a[0], b[0]) if (a and b) else -2**128
                        return (lo, hi)
                if name == "saturating_sub" and len(e[2]) == 2:
                    a = self.eval(e[2][0])
                    if a:
                        return (0, a[1])
            if e[0] == "cast" and e[1] == "IntToInt":
                inner = self.eval(e[2])
                tr = self.tr(e[3])
                if inner and tr and tr[0] <= inner[0] and inner[1] <= tr[1]:
                    return inner
                return tr
            if e[0] == "index" and e[1][0] == "static" and self.prog is not None:
                st = self.prog.statics.get(e[1][1])
                if st and "min" in st:
                    return (st["min"], st["max"])
            if e[0] == "param" and self.param_info is not None:
                r = self.param_info.interval(self.fn, e[1])
                if r is not None:
                    return r
            ty = self.sym.types.get(e)
            if ty is not None:
                return self.tr(ty)
        return None


# ---------------------------------------------------------------------------------------------
# comparisons in facts

FLIP = {"Lt": "Gt", "Gt": "Lt", "Le": "Ge", "Ge": "Le", "Eq": "Eq", "Ne": "Ne"}
NEG = {"Lt": "Ge", "Ge": "Lt", "Gt": "Le", "Le": "Gt", "Eq": "Ne", "Ne": "Eq"}


def norm_facts(facts, floats=False):
    """facts as (op, a, b) triples that hold. For integers a false comparison is replaced by
    its negation; for floats it is dropped (NaN) unless floats=True asks for the raw form."""
    out = []
    for cond, val in facts:
        if not (isinstance(cond, tuple) and cond and cond[0] == "bin" and cond[1] in FLIP):
            continue
        op, a, b = cond[1], cond[2], cond[3]
        if val is True:
            out.append((op, a, b))
        elif val is False:
            if not floats:
                out.append((NEG[op], a, b))
    return out


def same(a, b):
    return strip_widen(a) == strip_widen(b)


def holds_ge(nf, a, b, strict=False):
    """does some fact state a >= b (or a > b when strict)?"""
    for (op, x, y) in nf:
        for (o, l, r) in ((op, x, y), (FLIP[op], y, x)):
            if same(l, a) and same(r, b):
                if o == "Gt" or (o == "Ge" and not strict) or (o == "Eq" and not strict):
                    return True
    return False


def mentions(e, sub):
    if not isinstance(e, tuple):
        return False
    if strip_widen(e) == strip_widen(sub):
        return True
    for x in e:
        if isinstance(x, tuple) and mentions(x, sub):
            return True
    return False


def connected(nf_all, a_atoms, b_atoms):
    """is there a fact that mentions an atom of a and an atom of b?"""
    for cond, val in nf_all:
        if any(mentions(cond, x) for x in a_atoms) and any(mentions(cond, y) for y in b_atoms):
            return True
    return False


# ---------------------------------------------------------------------------------------------
# free atoms

class Freedom:
    """which parameters of which functions can be filled with unconstrained values by a caller
    of the safe public API (propagated over the call graph)"""

    def __init__(self, prog):
        self.prog = prog
        self.free = {}       # fn id -> set of param locals
        self._compute()

    def _compute(self):
        prog = self.prog
        for f in prog.fns.values():
            if f.kind != "closure" and f.reachable and not f.is_unsafe:
                self.free[f.id] = set(range(1, f.arg_count + 1))
        changed = True
        rounds = 0
        syms = {}
        while changed and rounds < 6:
            changed = False
            rounds += 1
            for f in prog.fns.values():
                if f.id not in self.free or f.kind == "closure":
                    continue
                sym = syms.get(f.id)
                if sym is None:
                    sym = syms[f.id] = Sym(f)
                for c in f.calls():
                    for t in prog.call_targets(c):
                        if t.kind == "closure" or t.is_unsafe:
                            continue
                        cur = self.free.setdefault(t.id, set())
                        for i, a in enumerate(c.args):
                            li = i + 1
                            if li in cur or li > t.arg_count:
                                continue
                            e = sym.operand(a)
                            if self.is_free_expr(f, e):
                                cur.add(li)
                                changed = True

    def is_free_atom(self, fn, a):
        fr = self.free.get(fn.id, set())
        k = a[0]
        if k == "param":
            return a[1] in fr
        if k == "call":
            # a pure getter on a free parameter
            return a[1] in GETTER_RANGES and a[2] and all(self.is_free_expr(fn, x) for x in a[2][:1])
        if k == "field":
            # a field is caller-controlled only if it is public (private fields are tied to
            # the others by the constructor's invariant)
            base = a[1]
            if base[0] != "param" or not self.is_free_expr(fn, base):
                return False
            return self.field_is_pub(fn.local_ty(base[1]), a[2])
        return False

    def field_is_pub(self, ty, name):
        ty = ty.lstrip("&").replace("mut ", "").strip()
        head = ty.split("<", 1)[0]
        if head == "Self":
            return False
        for k, adt in self.prog.adts.items():
            if adt["name"] == head or k.endswith("::" + head):
                for v in adt["variants"]:
                    for (fname, fty, pub) in v["fields"]:
                        if fname == name:
                            return bool(pub) and bool(adt.get("reachable"))
        return False

    def is_free_expr(self, fn, e):
        e = strip_widen(e)
        if e[0] == "const":
            return False
        ats = atoms(e)
        return bool(ats) and all(self.is_free_atom(fn, a) for a in ats)


class ParamInfo:
    """what the call sites of a crate-private function pass for a parameter:
       - interval: union of the arguments' intervals when every call site is evaluable;
       - cls: 'table' (every site reads a static table), 'data' (every site loads an integer
         from non-static memory: pixel data, full type range attainable) or None."""

    def __init__(self, prog):
        self.prog = prog
        self._memo = {}
        self._busy = set()
        self._ctx = {}

    def _sites(self, fn, p):
        out = []
        for c in self.prog.callers().get(fn.id, []):
            if p - 1 < len(c.args):
                out.append((c.fn, c.args[p - 1]))
        return out

    def _get(self, fn, p):
        key = (fn.id, p)
        if key in self._memo:
            return self._memo[key]
        if key in self._busy or fn.reachable or fn.kind == "closure":
            return (None, None)
        self._busy.add(key)
        try:
            sites = self._sites(fn, p)
            if not sites:
                res = (None, None)
            else:
                lo = hi = None
                classes = set()
                ok = True
                for caller, op in sites:
                    ctx = self._ctx.get(caller.id)
                    if ctx is None:
                        ctx = self._ctx[caller.id] = Ctx(self.prog, caller, self)
                    e = ctx.sym.operand(op)
                    s = strip_widen(e)
                    if s[0] == "index" and s[1][0] == "static":
                        classes.add("table")
                    elif s[0] in ("index", "field", "variant") and \
                            fn.local_ty(p) in ("u8", "u16", "i16", "i32", "u32"):
                        classes.add("data")
                    else:
                        classes.add("other")
                    r = ctx.iv.eval(e)
                    if r is None:
                        ok = False
                    else:
                        lo = r[0] if lo is None else min(lo, r[0])
                        hi = r[1] if hi is None else max(hi, r[1])
                iv = None
                if ok:
                    tr = type_range(fn.local_ty(p), self.prog.config["ptr_bits"])
                    if tr is not None:
                        lo, hi = max(lo, tr[0]), min(hi, tr[1])
                    iv = (lo, hi)
                res = (iv, classes.pop() if len(classes) == 1 else None)
        finally:
            self._busy.discard(key)
        self._memo[key] = res
        return res

    def interval(self, fn, p):
        return self._get(fn, p)[0]

    def cls(self, fn, p):
        return self._get(fn, p)[1]


# ---------------------------------------------------------------------------------------------
# obligations

class Oblig:
    __slots__ = ("fn", "bb", "kind", "ops", "at", "macro", "ty")

    def __init__(self, fn, bb, kind, ops, at, macro, ty):
        self.fn, self.bb, self.kind, self.ops, self.at, self.macro, self.ty = \
            fn, bb, kind, ops, at, macro, ty


def assert_obligations(fn):
    out = []
    for b, blk in enumerate(fn.blocks):
        if blk["c"]:
            continue
        t = blk["t"]
        if t[0] != "assert":
            continue
        kind = t[3]
        if kind.startswith("Overflow(") or kind in ("OverflowNeg", "DivisionByZero",
                                                    "RemainderByZero"):
            ty = None
            for o in t[4]:
                if o[0] in ("c", "m") and len(o[1]) == 1:
                    ty = fn.local_ty(o[1][0])
                    break
                if o[0] == "k":
                    ty = o[1]
            out.append(Oblig(fn, b, kind, t[4], t[7], t[8], ty))
    return out


def site_key(fn, kind, exprs):
    return "%s|%s(%s)" % (fn.name, kind, ", ".join(fmt(strip_widen(e)) for e in exprs))[:300]


INVARIANT_PAIRS = {frozenset(("left", "width")), frozenset(("top", "height"))}
INVARIANT_TYPES = ("TypedCroppedImage", "CroppedImage")


def _self_field(fn, e):
    """name of a field of `self` (or of the getter that returns it), else None"""
    e = strip_widen(e)
    if e[0] == "field" and e[1][0] == "param" and fn.local_name(e[1][1]) == "self" \
            and isinstance(e[2], str):
        return e[2]
    if e[0] == "call" and e[1] in ("width", "height") and e[2] and e[2][0][0] == "param" \
            and fn.local_name(e[2][0][1]) == "self":
        return e[1]
    return None


def symbolic_upper_bounds(fn, nf, e, depth=0):
    """expressions known to be >= e: e itself, right-hand sides of guards e <= X, and the
    minuend of an unsigned subtraction"""
    out = [strip_widen(e)]
    if depth > 2:
        return out
    s = strip_widen(e)
    if s[0] == "bin" and s[1] == "Sub":
        out.extend(symbolic_upper_bounds(fn, nf, s[2], depth + 1))
    for (op, x, y) in nf:
        for (o, l, r) in ((op, x, y), (FLIP[op], y, x)):
            if o in ("Le", "Lt") and same(l, e):
                out.extend(symbolic_upper_bounds(fn, nf, r, depth + 1))
    return out


def upper_bounds_pair(ctx, fn, nf, a, b):
    st = fn.d.get("self_ty", "")
    if not any(t in st for t in INVARIANT_TYPES):
        return None
    ua = [_self_field(fn, x) for x in symbolic_upper_bounds(fn, nf, a)]
    ub = [_self_field(fn, x) for x in symbolic_upper_bounds(fn, nf, b)]
    for x in ua:
        for y in ub:
            if x and y and frozenset((x, y)) in INVARIANT_PAIRS:
                return (x, y, "%s <= self.%s, %s <= self.%s" % (fmt(a)[:30], x, fmt(b)[:30], y))
    return None


def loop_var_bound(sym, e):
    """e is the item of `for i in lo..hi` / `lo..=hi`: (lo, hi, inclusive) expressions"""
    x = strip_widen(e)
    for _ in range(3):
        if x[0] in ("field", "variant"):
            x = strip_widen(x[1])
    if not (x[0] == "callat" and x[2] == "next" and x[3]):
        return None
    it = x[3][0]
    for _ in range(8):
        it = strip_widen(it)
        if it[0] == "local":
            ds = [d for d in sym.defs.get(it[1], []) if d[3]]
            if len(ds) != 1:
                return None
            it = sym.rvalue(ds[0][2], ds[0][0])
        elif it[0] in ("callat", "call") and (it[2] if it[0] == "callat" else it[1]) in ("into_iter", "by_ref"):
            it = (it[3] if it[0] == "callat" else it[2])[0]
        else:
            break
    it = strip_widen(it)
    if it[0] == "agg" and str(it[2]).endswith("ops::range::Range") and len(it[4]) == 2:
        return (it[4][0], it[4][1], False)
    if it[0] in ("call", "callat"):
        nm = it[2] if it[0] == "callat" else it[1]
        full = it[5] if it[0] == "callat" else it[4]
        args = it[3] if it[0] == "callat" else it[2]
        if nm == "new" and "RangeInclusive" in str(full) and len(args) == 2:
            return (args[0], args[1], True)
    return None


def upvar_expr(prog, g, idx, depth=0):
    """the value closure g captures as its idx-th upvar, as an expression of the outermost
    enclosing function (through nested closures); None when not resolved"""
    parent = prog.fns.get(g.d.get("parent"))
    if parent is None or depth > 4:
        return None
    ps = Sym(parent)
    for b, blk in enumerate(parent.blocks):
        if blk["c"]:
            continue
        for j, st in enumerate(blk["s"]):
            if st[0] == "a" and st[2][0] == "agg" and st[2][1] == "closure" and st[2][2] == g.id:
                ops = st[2][4]
                if idx >= len(ops):
                    return None
                e = ps.operand(ops[idx], (b, j))
                for _ in range(6):
                    if e[0] in ("ref", "deref"):
                        e = e[1]
                    else:
                        break
                if parent.kind == "closure" and e[0] == "field" and e[1][0] == "param" and e[1][1] == 1 \
                        and isinstance(e[2], int):
                    return upvar_expr(prog, parent, e[2], depth + 1)
                return e
    return None


def ordered_only(ctx, fn, facts, a, b, freedom, is_state, tr=None):
    """a concrete assignment of the caller-controlled values (arguments, getters on them, the
    state of `self`) that satisfies every guard connected with the two factors and makes the
    product leave the type: found by trying a handful of magnitudes per value on the guard
    expressions themselves. Only guards built from comparisons, +, - and small constants are
    evaluated; anything else gives up (None)."""
    import itertools
    tr = tr or (0, 2 ** 32 - 1)
    sym = ctx.sym
    var = {}            # atom -> (lo, hi) domain

    root = fn
    while root is not None and root.kind == "closure":
        root = ctx.prog.fns.get(root.d.get("parent"))
    if root is None or not freedom.free.get(root.id):
        return None

    def is_var(x):
        if freedom.is_free_atom(fn, x) or is_state(x):
            return True
        if fn.kind == "closure" and x[0] == "field" and x[1][0] == "param" and x[1][1] == 1 \
                and isinstance(x[2], int):
            # a captured value: what it holds in the enclosing function
            r = upvar_expr(ctx.prog, fn, x[2])
            if r is None:
                return False
            while r[0] == "cast":
                r = r[2]
            if freedom.is_free_atom(root, r):
                return True
            if r[0] == "field" and r[1][0] == "param" and root.local_name(r[1][1]) == "self":
                return True
            if r[0] == "call" and r[1] in GETTER_RANGES and r[2] and r[2][0][0] == "param" \
                    and root.local_name(r[2][0][1]) == "self":
                return True
        return False

    root_ctx = []

    def field_range(f_, e):
        """type range of a field of a parameter of f_ (from the struct definition)"""
        if not (e[0] == "field" and e[1][0] == "param"):
            return None
        ty = (f_.local_ty(e[1][1]) or "").lstrip("&").replace("mut ", "").strip()
        head = ty.split("<", 1)[0]
        for k, adt in ctx.prog.adts.items():
            if adt["name"] == head or k.endswith("::" + head) or head.endswith(adt["name"]):
                for v in adt["variants"]:
                    for fl in v["fields"]:
                        if fl[0] == e[2]:
                            return type_range(str(fl[1]), ctx.prog.config["ptr_bits"])
        return None

    def dom_of(x):
        r = None
        if fn.kind == "closure" and x[0] == "field" and x[1][0] == "param" and x[1][1] == 1 \
                and isinstance(x[2], int):
            # the range of what the closure captured, evaluated in the enclosing function
            e = upvar_expr(ctx.prog, fn, x[2])
            if e is not None:
                if not root_ctx:
                    root_ctx.append(Ctx(ctx.prog, root, ctx.iv.param_info))
                try:
                    r = root_ctx[0].iv.eval(e)
                except Exception:
                    r = None
                inner = e
                while inner[0] == "cast":
                    if inner[1] == "FloatToInt":
                        break
                    inner = inner[2]
                r2 = type_range(inner[3], ctx.prog.config["ptr_bits"]) if inner[0] == "cast" \
                    else field_range(root, inner)
                if r is None:
                    r = r2
                elif r2 is not None:
                    r = (max(r[0], r2[0]), min(r[1], r2[1]))
                if r is None:
                    return None
                return (max(r[0], 0), r[1])
        try:
            r = ctx.iv.eval(x)
        except Exception:
            r = None
        if r is None or r[1] > 2 ** 64:
            r = (0, 2 ** 32 - 1)
        return (max(r[0], 0), r[1])
    loops = {}

    def collect(e):
        """register the variables of e; False when e has something that is not evaluable"""
        s = strip_widen(e)
        if s[0] == "const":
            return isinstance(s[1], int) and not isinstance(s[1], bool)
        lb = loop_var_bound(sym, s)
        if lb is not None:
            if not (collect(lb[0]) and collect(lb[1])):
                return False
            loops[s] = lb
            var.setdefault(s, (0, 2 ** 32 - 1))
            return True
        if s[0] == "bin" and s[1] in ("Add", "Sub"):
            return collect(s[2]) and collect(s[3])
        if s[0] == "ovf":
            return collect(s[1])
        if is_var(s):
            d_ = dom_of(s)
            if d_ is None:
                return False
            var.setdefault(s, d_)
            return True
        if s[0] == "cast" and s[1] in ("FloatToInt",) and len(s) > 3 and is_var(strip_widen(s[2])):
            # a float variable truncated to an integer type: any value of that type
            r_ = type_range(s[3], ctx.prog.config["ptr_bits"])
            if r_:
                # floats of this layer are positions inside an image, whose dimensions are u32:
                # the truncated value is taken from [0, 2^32) only (a smaller domain can only lose
                # witnesses, never invent one)
                var.setdefault(s, (max(r_[0], 0), min(r_[1], 2 ** 32 - 1)))
                return True
        return False

    def ev(e, env):
        s = strip_widen(e)
        if s[0] == "const":
            return s[1]
        if s in env:
            return env[s]
        if s[0] == "ovf":
            return ev(s[1], env)
        if s[0] == "bin":
            x, y = ev(s[2], env), ev(s[3], env)
            if x is None or y is None:
                return None
            v = x + y if s[1] == "Add" else x - y
            if v < 0 or v > 2 ** 64:
                return None         # the guard expression itself would wrap: not a witness
            return v
        return None
    if not (collect(a) and collect(b)):
        return None
    mine = set(var)
    rel = []
    grew = True
    while grew:
        grew = False
        for cond, val in facts:
            if (cond, val) in rel:
                continue
            fa = {strip_widen(x) for x in (atoms(cond) if cond[0] == "bin" else [cond])}
            fa |= {k for k in var if fmt(k) in fmt(cond)}
            if fa & mine:
                if cond[0] != "bin" or cond[1] not in ("Lt", "Le", "Gt", "Ge", "Ne", "Eq"):
                    return None
                if not (collect(cond[2]) and collect(cond[3])):
                    return None
                rel.append((cond, val))
                mine = set(var)
                grew = True
    if len(var) > 7:
        return None
    names = sorted(var, key=fmt)
    cands = []
    for k in names:
        lo, hi = var[k]
        cs = [c for c in (0, 1, 2, 2 ** 16, 2 ** 16 + 1, 2 ** 31, 2 ** 32 - 1, hi) if lo <= c <= hi]
        cands.append(sorted(set(cs)))
    CMP = {"Lt": lambda x, y: x < y, "Le": lambda x, y: x <= y, "Gt": lambda x, y: x > y,
           "Ge": lambda x, y: x >= y, "Ne": lambda x, y: x != y, "Eq": lambda x, y: x == y}
    for combo in itertools.product(*cands):
        env = dict(zip(names, combo))
        ok = True
        for k, (lo, hi, incl) in loops.items():
            l_, h_ = ev(lo, env), ev(hi, env)
            if l_ is None or h_ is None or not (l_ <= env[k] and (env[k] <= h_ if incl else env[k] < h_)):
                ok = False
                break
        if not ok:
            continue
        for cond, val in rel:
            x, y = ev(cond[2], env), ev(cond[3], env)
            if x is None or y is None or CMP[cond[1]](x, y) != bool(val):
                ok = False
                break
        if not ok:
            continue
        x, y = ev(a, env), ev(b, env)
        if x is None or y is None:
            continue
        if x * y > tr[1]:
            return ("for example %s" % ", ".join("%s = %d" % (fmt(k)[:40], env[k]) for k in names),
                    ", ".join("%s is %s" % (fmt(c)[:60], v) for c, v in rel[:5]) or "no guard")
    return None


def decide_arith(ctx, ob, freedom):
    """returns (verdict, detail) for one overflow / division obligation"""
    sym, iv = ctx.sym, ctx.iv
    fn = ob.fn
    exprs = [sym.operand(o) for o in ob.ops]
    facts = ctx.facts(ob.bb)
    nf = norm_facts(facts)
    tr = type_range(ob.ty, ctx.prog.config["ptr_bits"]) if ob.ty else None
    kind = ob.kind

    def is_state(x):
        """a private field of / a getter on `self`: fixed by the constructor, independent of
        the other arguments of the call"""
        x = strip_widen(x)
        if x[0] == "field" and x[1][0] == "param" and fn.local_name(x[1][1]) == "self":
            return True
        if x[0] == "call" and x[1] in GETTER_RANGES and x[2] and x[2][0][0] == "param" \
                and fn.local_name(x[2][0][1]) == "self":
            return True
        return False

    def free_and_unrelated(a, b, op="Add"):
        """the worst case of the operands is attainable: every atom is caller-controlled (or,
        on one side only, object state), no guard connects the two sides, and no atom involved
        is compared with a non-zero constant"""
        aa = [strip_widen(x) for x in atoms(strip_widen(a))]
        ba = [strip_widen(x) for x in atoms(strip_widen(b))]
        if not aa and not ba:
            return False
        if not freedom.free.get(fn.id):
            return False

        def side(xs):
            if not xs:
                return "const"
            if all(freedom.is_free_atom(fn, x) and not is_state(x) for x in xs):
                return "free"
            if all(freedom.is_free_atom(fn, x) or is_state(x) for x in xs):
                return "state"
            return "other"
        sa, sb = side(aa), side(ba)
        if "other" in (sa, sb):
            return False
        if sa != "free" and sb != "free":
            return False
        if op == "Mul" and "state" in (sa, sb):
            return False
        if op == "Sub" and any(x in ba for x in aa):
            return False
        fact_atoms = []
        for cond, val in facts:
            fa = atoms(cond) if cond[0] == "bin" else [cond]
            fact_atoms.append((cond, [strip_widen(x) for x in fa]))

        def component(seed):
            comp = list(seed)
            grew = True
            while grew:
                grew = False
                for cond, fa in fact_atoms:
                    if any(x in comp for x in fa):
                        for x in fa:
                            if x not in comp:
                                comp.append(x)
                                grew = True
            return comp
        ca, cb = component(aa), component(ba)
        if op == "Sub" or sa != sb or True:
            # a guard that mentions atoms of both sides may be the bound that is needed
            for cond, fa in fact_atoms:
                if len(set(fa)) < 2:
                    continue      # single-atom guards are handled below
                if any(x in aa for x in fa) and any(x in ba for x in fa):
                    return False
        if op == "Sub" and any(x in cb for x in ca):
            return False
        for cond, fa in fact_atoms:
            if cond[0] == "bin" and (cond[2][0] == "const" or cond[3][0] == "const"):
                if any(x in ca or x in cb for x in fa):
                    c = cond[2] if cond[2][0] == "const" else cond[3]
                    if c[1] not in (0, 0.0):
                        return False      # a comparison with a constant may bound the operand
            elif op != "Sub" and any(x in aa or x in ba for x in fa):
                # for + and * any guard on an operand (against another value) may bound it
                if not all(freedom.is_free_atom(fn, x) and not is_state(x) for x in fa):
                    return False
        return True

    if kind in ("DivisionByZero", "RemainderByZero"):
        d = exprs[0]
        r = iv.eval(d)
        if r is not None and (r[0] > 0 or r[1] < 0):
            return "DISCHARGED", "divisor in %s" % (list(r),)
        for (op, x, y) in nf:
            for (o, l, rr) in ((op, x, y), (FLIP[op], y, x)):
                if same(l, d) and rr[0] == "const":
                    if (o == "Ne" and rr[1] == 0) or (o == "Gt" and rr[1] >= 0) or \
                            (o == "Ge" and rr[1] >= 1):
                        return "DISCHARGED", "guard %s %s %s" % (fmt(l), o, rr[1])
        # a wrapped product that can be zero
        ds = strip_widen(d)
        if ds[0] == "bin" and ds[1] == "Mul":
            if all(freedom.is_free_atom(fn, x) for x in atoms(ds)):
                return "VIOLATION", "divisor %s is a product of caller-controlled values that " \
                    "wraps to 0 (or is 0)" % fmt(ds)
        return "UNDECIDED", "divisor %s not shown non-zero" % fmt(d)

    if kind == "OverflowNeg":
        return "UNDECIDED", "negation of %s" % fmt(exprs[0])

    m = re.match(r"Overflow\((\w+)\)", kind)
    op = m.group(1)
    a, b = exprs
    ra, rb = iv.eval(a), iv.eval(b)
    if op in ("Shl", "Shr"):
        bits = {"u8": 8, "i8": 8, "u16": 16, "i16": 16, "u32": 32, "i32": 32, "u64": 64,
                "i64": 64, "usize": 64, "isize": 64, "u128": 128, "i128": 128}.get(ob.ty, 64)
        if rb is not None and 0 <= rb[0] and rb[1] < bits:
            return "DISCHARGED", "shift amount in %s < %d" % (list(rb), bits)
        return "UNDECIDED", "shift amount %s of %s-bit value" % (fmt(b), bits)
    if tr is None:
        return "UNDECIDED", "type %s" % ob.ty
    if ra is not None and rb is not None:
        if op == "Add":
            lo, hi = ra[0] + rb[0], ra[1] + rb[1]
        elif op == "Sub":
            lo, hi = ra[0] - rb[1], ra[1] - rb[0]
        else:
            c = [ra[0] * rb[0], ra[0] * rb[1], ra[1] * rb[0], ra[1] * rb[1]]
            lo, hi = min(c), max(c)
        if tr[0] <= lo and hi <= tr[1]:
            return "DISCHARGED", "interval %s within %s" % ([lo, hi], ob.ty)
    if op == "Sub":
        if holds_ge(nf, a, b):
            return "DISCHARGED", "guard %s >= %s" % (fmt(a), fmt(b))
        if b[0] == "const" and isinstance(b[1], int):
            # a - c with a >= c known from a guard against a constant
            for (o, x, y) in nf:
                for (oo, l, r) in ((o, x, y), (FLIP[o], y, x)):
                    if same(l, a) and r[0] == "const" and isinstance(r[1], int):
                        if (oo == "Ge" and r[1] >= b[1]) or (oo == "Gt" and r[1] >= b[1] - 1) \
                                or (oo == "Ne" and r[1] == 0 and b[1] == 1 and tr[0] == 0):
                            return "DISCHARGED", "guard %s %s %s" % (fmt(l), oo, r[1])
        if free_and_unrelated(a, b, "Sub"):
            return "VIOLATION", "`%s - %s` in %s: the operands are independent (caller-" \
                "controlled argument / object state) and no guard relates them" % (
                    fmt(a), fmt(b), ob.ty)
        return "UNDECIDED", "%s - %s" % (fmt(a), fmt(b))
    if op == "Add" and ob.ty == "u32":
        # type invariant of the cropped views (established at construction, C04.constructors):
        # left + width <= inner.width() <= u32::MAX and top + height <= inner.height()
        inv = upper_bounds_pair(ctx, fn, nf, a, b)
        if inv:
            return "DISCHARGED", "type invariant %s + %s <= u32::MAX with %s" % inv
    if op in ("Add", "Mul") and ra is not None and rb is not None and ctx.iv.param_info:
        # operands whose extremes are attained independently: pixel data vs. a table entry
        def attained(e):
            s = strip_widen(e)
            if s[0] == "const":
                return True
            if s[0] == "param":
                return ctx.iv.param_info.cls(fn, s[1]) in ("table", "data") or \
                    freedom.is_free_atom(fn, s)
            if s[0] == "bin" and s[1] in ("Add", "Mul"):
                return attained(s[2]) and attained(s[3])
            return False
        if attained(a) and attained(b) and not facts:
            return "VIOLATION", "`%s %s %s` in %s: the operands range over %s and %s " \
                "independently (pixel data / table entry), the result exceeds the type" % (
                    fmt(a), "+" if op == "Add" else "*", fmt(b), ob.ty, list(ra), list(rb))
    if op == "Mul":
        w = ordered_only(ctx, fn, facts, a, b, freedom, is_state, tr)
        if w:
            return "VIOLATION", "`%s * %s` in %s wraps (panics with overflow checks): %s satisfies " \
                "every guard on the path (%s) and the product exceeds the type" % (
                    fmt(a), fmt(b), ob.ty, w[0], w[1])
    if op in ("Add", "Mul"):
        if free_and_unrelated(a, b, op):
            sym_ = "+" if op == "Add" else "*"
            return "VIOLATION", "`%s %s %s` in %s: operands are caller-controlled, unbounded " \
                "and unrelated (wraps without overflow checks, panics with them)" % (
                    fmt(a), sym_, fmt(b), ob.ty)
        return "UNDECIDED", "%s %s %s" % (fmt(a), op, fmt(b))
    return "UNDECIDED", kind
