"""Empty coefficient tables: the exits of precompute_coefficients that return
`Coefficients::default()` (no Bound at all) must be unreachable from the resize pipeline, whose
passes index `bounds[0]`, `bounds.last().unwrap()` and pair one Bound with every destination
pixel. Decided by a sign analysis of the exit conditions with the call-site arguments substituted
and the caller's guards as facts. Floating point is taken seriously where it matters:
fl(a + w) >= a for w > 0 (rounding is monotone) but fl(a + w) == a is possible, so
`(a + w) - a` is >= 0, not > 0."""
from ..facts import CheckError
from ..sym import Sym, fmt
from .validators import subst

ALL = frozenset("-0+")
POS = frozenset("+")
NONNEG = frozenset("0+")


def _strip(e):
    while isinstance(e, tuple) and e and e[0] in ("ref", "deref", "copy"):
        e = e[1]
    return e


def _zero(e):
    e = _strip(e)
    return isinstance(e, tuple) and e and e[0] == "const" and e[1] in (0, 0.0)


def _const(e):
    e = _strip(e)
    if isinstance(e, tuple) and e and e[0] == "const" and isinstance(e[1], (int, float)) \
            and not isinstance(e[1], bool):
        return e[1]
    return None


FLIP = {"Lt": "Gt", "Le": "Ge", "Gt": "Lt", "Ge": "Le", "Eq": "Eq", "Ne": "Ne"}
NEG = {"Lt": "Ge", "Le": "Gt", "Gt": "Le", "Ge": "Lt", "Eq": "Ne", "Ne": "Eq"}
SAT = {"Lt": frozenset("-"), "Le": frozenset("-0"), "Gt": POS, "Ge": NONNEG, "Eq": frozenset("0"),
       "Ne": frozenset("-+")}


def _norm_fact(cond, val):
    """(expr, op) meaning `expr op 0`, or None"""
    c = _strip(cond)
    if not (isinstance(c, tuple) and c and c[0] == "bin" and c[1] in FLIP):
        return None
    op, a, b = c[1], c[2], c[3]
    if _zero(b):
        e = a
    elif _zero(a):
        e, op = b, FLIP[op]
    else:
        return None
    if val is False:
        op = NEG[op]
    elif val is not True:
        return None
    return _strip(e), op


def sign(e, facts, unsigned_ok=True, depth=0):
    """set of possible signs of e (NaN is left out: the crop box was validated as finite)"""
    e = _strip(e)
    if depth > 12 or not isinstance(e, tuple) or not e:
        return ALL
    s = ALL
    for fe, op in facts:
        if fe == e:
            s = s & SAT[op]
    c = _const(e)
    if c is not None:
        return s & (POS if c > 0 else frozenset("0") if c == 0 else frozenset("-"))
    k = e[0]
    if k == "cast":
        inner = sign(e[2], facts, True, depth + 1) if len(e) > 2 else ALL
        if len(e) > 2 and e[1] == "IntToFloat" and _unsigned_int(e[2]):
            inner = inner & NONNEG
        return s & inner
    if k == "bin":
        op, a, b = e[1], e[2], e[3]
        sa, sb = sign(a, facts, True, depth + 1), sign(b, facts, True, depth + 1)
        if op == "Add":
            if sa <= NONNEG and sb <= NONNEG:
                return s & (POS if (sa == POS or sb == POS) else NONNEG)
            return s
        if op == "Sub":
            a_, b_ = _strip(a), _strip(b)
            if isinstance(a_, tuple) and a_[0] == "bin" and a_[1] == "Add":
                for x, w in ((a_[2], a_[3]), (a_[3], a_[2])):
                    if _strip(x) == b_ and sign(w, facts, True, depth + 1) <= NONNEG:
                        return s & NONNEG          # fl(x + w) >= x, equality possible
            return s
        if op in ("Div", "Mul"):
            if sb == POS or (op == "Mul" and sa == POS):
                other = sa if sb == POS else sb
                out = set(other)
                if other & frozenset("-+"):
                    out.add("0")                   # underflow
                return s & frozenset(out)
            return s
    return s


def _unsigned_int(e):
    """an integer expression of an unsigned type: the u32 size getters of the views"""
    e = _strip(e)
    return isinstance(e, tuple) and bool(e) and e[0] in ("call", "callat") and \
        (e[1] if e[0] == "call" else e[2]) in ("width", "height", "len")


def _int_cond(cond):
    c = _strip(cond)
    return any(isinstance(x, tuple) and x and x[0] == "const" and len(x) > 2 and str(x[2])[0] in "ui"
               for x in c[2:4])


def _source_size(e):
    e = _strip(e)
    if not (isinstance(e, tuple) and e and e[0] == "call" and e[1] in ("width", "height")):
        return False
    a = _strip(e[2][0]) if e[2] else None
    return isinstance(a, tuple) and a and a[0] == "call" and a[1] == "image_view"


def coeffs_nonempty(rep, prog, rule):
    rep.rule(rule, "precompute_coefficients returns an EMPTY table (Coefficients::default(): no "
             "Bound) on some exits; the pipeline indexes bounds[0] / bounds.last().unwrap() and the "
             "kernels pair one Bound with every destination pixel, so at every call site each such "
             "exit must be excluded by the caller's guards. The exit conditions are evaluated by a "
             "sign analysis with the call's arguments substituted: `in1 - in0` with in1 = left + "
             "width and width > 0 is >= 0 but CAN be 0 (left + width == left for a width below half "
             "an ulp of left), so an exit on `scale <= 0` is reachable for a valid crop box and the "
             "safe API panics; an exit on `scale < 0` is not")
    from ..props.c14 import _with_captures
    f = prog.fn_by_name("convolution::precompute_coefficients")
    rep.touch(f)
    sym = Sym(f)
    empties = [bb for (bb, j, rv, w) in f.defs().get(0, [])
               if rv[0] == "callret" and rv[1].method == "default"]
    if not empties:
        rep.ok(rule, "precompute_coefficients|no-empty-exit", f.loc, "no exit returns an empty table")
        return
    exits = []
    for (p, s, cond, val) in sym.edge_facts():
        k, hops = s, 0
        while k not in empties and hops < 4 and f.term(k)[0] == "goto" and not f.stmts(k):
            k, hops = f.term(k)[1], hops + 1
        if k in empties:
            exits.append((cond, val, p))
    if not exits:
        rep.unk(rule, "precompute_coefficients|exits", f.loc, "the conditions of the empty exits were not found")
        return
    params = {i: ("param", i, f.local_name(i)) for i in range(1, f.arg_count + 1)}
    sites = prog.callers().get(f.id, [])
    rep.floor(rule, "call sites of precompute_coefficients", len(sites), 2)
    for ci, c in enumerate(sorted(sites, key=lambda c: (c.fn.id, c.bb))):
        g = c.fn
        rep.touch(g)
        gs = Sym(g)
        args = [gs.operand(a, (c.bb, "term")) for a in c.args]
        root = g
        if g.kind == "closure":
            args = [_with_captures(prog, g, a) for a in args]
            while root is not None and root.kind == "closure":
                root = prog.fns.get(root.d.get("parent"))
        facts = []
        if root is not None and root is not g:
            rs = Sym(root)
            site = None
            for b, blk in enumerate(root.blocks):
                for j, st in enumerate(blk["s"]):
                    if st[0] == "a" and st[2][0] == "agg" and st[2][1] == "closure" and st[2][2] == g.id:
                        site = b
            if site is not None:
                facts = rs.facts_at(site)
        elif root is g:
            facts = gs.facts_at(c.bb)
        nf = [x for x in (_norm_fact(fc, fv) for fc, fv in facts) if x]
        mapping = {}
        for i, a in enumerate(args):
            p = params.get(i + 1)
            if p:
                mapping[p] = a
        axis = "site%d" % ci
        a1 = fmt(args[1]) if len(args) > 1 else ""
        for nm in ("left", "top"):
            if nm in a1:
                axis = "horizontal" if nm == "left" else "vertical"
        for (cond, val, p) in exits:
            nc = _norm_fact(cond, val)
            key = "%s|%s|%s" % (root.name if root else g.name, axis, fmt(cond)[:60])
            if nc is None:
                rep.unk(rule, key, c.at, "exit condition %s not of the form `e op 0`" % fmt(cond)[:80])
                continue
            e, op = nc
            e2 = subst(e, mapping)
            s = sign(e2, nf)
            if _int_cond(cond):
                # an integer size: decided by the caller's guard, or by the validated crop box
                if not (s & SAT[op]):
                    rep.ok(rule, key, c.at, "excluded by the caller's guard on %s" % fmt(e2)[:60])
                elif _source_size(e2) and any(op2 == "Gt" and fe[0] == "field" and fe[2] in ("width", "height")
                                              for fe, op2 in nf if isinstance(fe, tuple) and len(fe) > 2):
                    rep.ok(rule, key, c.at, "%s is a size of the source of a validated crop box with "
                           "positive width and height: the box lies inside the source (C04.crop-f64), "
                           "so the source is not empty" % fmt(e2)[:60])
                else:
                    rep.unk(rule, key, c.at, "no guard excludes %s == 0" % fmt(e2)[:60])
                continue
            if not (s & SAT[op]):
                rep.ok(rule, key, c.at, "%s %s 0 is excluded: sign of %s is in {%s}" % (
                    fmt(e)[:40], op, fmt(e2)[:80], ",".join(sorted(s))))
            elif s != ALL:
                rep.bad(rule, key + "|empty-table-reachable", c.at,
                        "%s reaches the exit `%s %s 0` of precompute_coefficients that returns an empty "
                        "table: with the call's arguments the value %s has sign in {%s} under the "
                        "caller's guards (a + w == a is possible for w > 0), and the passes index "
                        "bounds[0] / expect one Bound per destination pixel: a panic in the safe API for "
                        "a valid sub-pixel crop box (e.g. crop(1.0, 0.0, 1e-300, 4.0))" % (
                            root.name if root else g.name, fmt(e)[:40], op, fmt(e2)[:100],
                            ",".join(sorted(s))))
            else:
                rep.unk(rule, key, c.at, "sign of %s not determined" % fmt(e2)[:100])
