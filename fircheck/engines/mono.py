"""E6 — piecewise monotonicity and sign of scalar functions of one argument (DESIGN §3/E6).
Abstract domain: (monotonicity in {C, I, D, ?}, interval [lo, hi] over the extended reals).
The input range is partitioned at the constants the argument is compared with; inside a piece
branch conditions are evaluated on intervals to select the definitions that apply."""
import math

from ..sym import Sym, fmt

INF = float("inf")
C, I, D, U = "C", "I", "D", "?"

TYPE_RANGE = {
    "u8": (0.0, 255.0), "u16": (0.0, 65535.0), "u32": (0.0, 2.0**32 - 1), "u64": (0.0, 2.0**64 - 1),
    "usize": (0.0, 2.0**64 - 1), "i8": (-128.0, 127.0), "i16": (-32768.0, 32767.0),
    "i32": (-2.0**31, 2.0**31 - 1), "i64": (-2.0**63, 2.0**63 - 1), "f32": (-INF, INF),
    "f64": (-INF, INF),
}


def neg(m):
    return {I: D, D: I}.get(m, m)


def add_m(a, b):
    if a == C:
        return b
    if b == C:
        return a
    if a == b and a in (I, D):
        return a
    return U


def scale_m(m, lo, hi):
    """monotonicity of m * k for k in [lo, hi] constant-in-x"""
    if lo >= 0:
        return m
    if hi <= 0:
        return neg(m)
    return U if m != C else C


def mul_iv(a, b):
    c = []
    for x in a:
        for y in b:
            if (x == 0 and abs(y) == INF) or (y == 0 and abs(x) == INF):
                c.append(0.0)
            else:
                c.append(x * y)
    return (min(c), max(c))


class Piece:
    def __init__(self, lo, hi, lo_open=False, hi_open=False):
        self.lo, self.hi, self.lo_open, self.hi_open = lo, hi, lo_open, hi_open

    def degenerate(self):
        return self.lo == self.hi

    def __repr__(self):
        return "%s%g, %g%s" % ("(" if self.lo_open else "[", self.lo, self.hi,
                               ")" if self.hi_open else "]")


class MonoEval:
    def __init__(self, prog, fn, arg_local=1, assume=None):
        self.prog = prog
        self.fn = fn
        self.sym = Sym(fn)
        self.arg = arg_local
        self.assume = assume or {}
        self.notes = []

    # ---- pieces
    def cut_points(self):
        pts = set()
        for (p, s, cond, val) in self.sym.edge_facts():
            self._cuts(cond, pts)
        for c in self.fn.calls():
            if c.name.endswith("::contains") and c.args:
                r = self.sym.operand(c.args[0])
                if r[0] == "agg" and len(r[4]) == 2:
                    for e in r[4]:
                        v = self.const(e)
                        if v is not None:
                            pts.add(v)
        return sorted(pts)

    def _cuts(self, cond, pts):
        if cond[0] == "bin" and cond[1] in ("Lt", "Le", "Gt", "Ge", "Eq", "Ne"):
            for x, y in ((cond[2], cond[3]), (cond[3], cond[2])):
                v = self.const(y)
                if v is not None and self.mentions_arg(x):
                    if self._is_abs(x):
                        pts.add(v)
                        pts.add(-v)
                    else:
                        pts.add(v)

    def _is_abs(self, e):
        return "abs(" in fmt(e)

    def mentions_arg(self, e):
        if not isinstance(e, tuple):
            return False
        if e[0] == "param" and e[1] == self.arg:
            return True
        if e[0] == "local" and e[1] == self.arg:
            return True
        return any(self.mentions_arg(x) for x in e if isinstance(x, tuple))

    def const(self, e):
        if e[0] == "const" and isinstance(e[1], (int, float)) and not isinstance(e[1], bool):
            return float(e[1])
        if e[0] == "cast":
            return self.const(e[2])
        if e[0] == "un" and e[1] == "Neg":
            v = self.const(e[2])
            return -v if v is not None else None
        if e[0] == "bin" and e[1] in ("Mul", "Div", "Add", "Sub", "Shl"):
            a, b = self.const(e[2]), self.const(e[3])
            if a is None or b is None:
                return None
            try:
                return {"Mul": a * b, "Div": a / b, "Add": a + b, "Sub": a - b,
                        "Shl": a * (2.0 ** b)}[e[1]]
            except ZeroDivisionError:
                return None
        if e[0] == "static":
            st = self.prog.statics.get(e[1])
            if st and "value" in st:
                v = st["value"]
                if isinstance(v, list) and v and v[0] == "f":
                    return float(v[1])
                if isinstance(v, (int, float)) and not isinstance(v, bool):
                    return float(v)
        return None

    def pieces(self, lo, hi):
        pts = [p for p in self.cut_points() if lo < p < hi]
        out = []
        cur = lo
        for p in pts:
            out.append(Piece(cur, p, False, True))
            out.append(Piece(p, p))
            cur = p
        # merge: represent as [cur, p) and [p, next) pieces (point pieces are kept to decide
        # equality branches)
        res = []
        bounds = [lo] + pts + [hi]
        for i in range(len(bounds) - 1):
            a, b = bounds[i], bounds[i + 1]
            res.append(Piece(a, a))
            res.append(Piece(a, b, True, i + 1 < len(bounds) - 1 or True))
        res.append(Piece(hi, hi))
        # open pieces exclude their end points
        for r in res:
            if not r.degenerate():
                r.lo_open = True
                r.hi_open = True
        return res

    # ---- evaluation
    def eval_fn(self, piece):
        """(mono, interval) of the return value for x in piece, or (U, None)"""
        self.piece = piece
        self._busy = set()
        return self._eval_local(0, None)

    def _cond(self, cond, val):
        """is the fact (cond == val) possible / certain for x in the piece? -> True (certain),
        False (impossible), None"""
        if cond[0] == "bin" and cond[1] in ("Lt", "Le", "Gt", "Ge", "Eq", "Ne"):
            a = self.ev(cond[2])
            b = self.ev(cond[3])
            if a[1] is None or b[1] is None:
                return None
            (alo, ahi), (blo, bhi) = a[1], b[1]
            op = cond[1]
            res = None
            if op == "Lt":
                res = True if ahi < blo else (False if alo >= bhi else None)
            elif op == "Le":
                res = True if ahi <= blo else (False if alo > bhi else None)
            elif op == "Gt":
                res = True if alo > bhi else (False if ahi <= blo else None)
            elif op == "Ge":
                res = True if alo >= bhi else (False if ahi < blo else None)
            elif op == "Eq":
                res = True if (alo == ahi == blo == bhi) else (False if (ahi < blo or alo > bhi) else None)
            elif op == "Ne":
                res = False if (alo == ahi == blo == bhi) else (True if (ahi < blo or alo > bhi) else None)
            if res is None:
                # open pieces: strict comparisons at the boundary
                if not self.piece.degenerate() and self.mentions_arg(cond[2]) and blo == bhi \
                        and self.const(cond[3]) is not None:
                    c = blo
                    if self.piece.hi_open and ahi == c and op == "Lt" and not self._is_abs(cond[2]):
                        res = True
                    if self.piece.hi_open and ahi == c and op == "Ge" and not self._is_abs(cond[2]):
                        res = False
                    if self.piece.lo_open and alo == c and op == "Gt" and not self._is_abs(cond[2]):
                        res = True
                    if self.piece.lo_open and alo == c and op == "Le" and not self._is_abs(cond[2]):
                        res = False
                    if self._is_abs(cond[2]) and ahi == c and op in ("Lt", "Ge") and \
                            (self.piece.hi_open and self.piece.lo_open):
                        res = (op == "Lt")
                    if self._is_abs(cond[2]) and alo == c and op in ("Gt", "Le") and \
                            (self.piece.hi_open and self.piece.lo_open):
                        res = (op == "Gt")
                    if op in ("Eq", "Ne") and (self.piece.lo_open and self.piece.hi_open) and \
                            (alo == c or ahi == c) and not (alo < c < ahi):
                        res = (op == "Ne")
            if res is None:
                return None
            return res == bool(val) if isinstance(val, bool) else None
        if cond[0] in ("callat", "call") and (cond[2] if cond[0] == "callat" else cond[1]) == "contains":
            args = cond[3] if cond[0] == "callat" else cond[2]
            r, x = args[0], args[1]
            if r[0] == "agg" and len(r[4]) == 2:
                lo, hi = self.const(r[4][0]), self.const(r[4][1])
                xv = self.ev(x)[1]
                if lo is None or hi is None or xv is None:
                    return None
                inside = None
                if xv[0] >= lo and (xv[1] < hi or (xv[1] == hi and self.piece.hi_open
                                                   and not self.piece.degenerate())):
                    inside = True
                elif xv[1] < lo or xv[0] >= hi or (xv[0] == hi) or \
                        (xv[1] == lo and self.piece.hi_open and not self.piece.degenerate()):
                    inside = False
                if inside is None:
                    return None
                return inside == bool(val)
        return None

    def _eval_local(self, l, at):
        key = (l,)
        if key in self._busy:
            return (U, None)
        self._busy.add(key)
        try:
            defs = self.sym.defs.get(l, [])
            if at is not None:
                r = self.sym.reaching(l, at) if self.sym._rd_eligible(l) else None
                if r is not None and -1 not in r:
                    defs = [defs[k] for k in sorted(r)]
            cands = []
            for (bb, j, rv, whole) in defs:
                if not whole:
                    return (U, None)
                facts = self.sym.facts_at(bb)
                possible = True
                for cond, val in facts:
                    r = self._cond(cond, val)
                    if r is False:
                        possible = False
                        break
                if possible:
                    cands.append((bb, j, rv))
            if not cands:
                return (U, None)
            res = None
            for (bb, j, rv) in cands:
                e = self.sym.rvalue(rv, bb, (bb, j))
                v = self.ev(e)
                if res is None:
                    res = v
                else:
                    m = res[0] if res[0] == v[0] else U
                    iv = None
                    if res[1] is not None and v[1] is not None:
                        iv = (min(res[1][0], v[1][0]), max(res[1][1], v[1][1]))
                    res = (m, iv)
            return res
        finally:
            self._busy.discard(key)

    def ev(self, e):
        if not isinstance(e, tuple) or not e:
            return (U, None)
        k = e[0]
        if k == "param" and e[1] == self.arg:
            return (I, (self.piece.lo, self.piece.hi))
        if k == "local":
            if e[1] == self.arg:
                # re-assigned argument (`x = x.abs()`): union of reaching definitions
                return self._eval_local(e[1], None)
            return self._eval_local(e[1], None)
        cv = self.const(e)
        if cv is not None:
            return (C, (cv, cv))
        if k == "param":
            fx = getattr(self, "fixed", None)
            if fx and e[1] in fx:
                return (C, (fx[e[1]], fx[e[1]]))
            return (U, None)
        if k == "cast":
            m, iv = self.ev(e[2])
            kind = e[1]
            tr = TYPE_RANGE.get(e[3])
            if iv is None:
                return (m if kind in ("IntToFloat", "FloatToFloat") else U, tr)
            if kind in ("IntToFloat", "FloatToFloat"):
                return (m, iv)
            if kind == "FloatToInt":
                if tr is None:
                    return (U, None)
                lo = max(tr[0], min(tr[1], math.floor(iv[0]) if iv[0] not in (INF, -INF) else iv[0]))
                hi = max(tr[0], min(tr[1], iv[1]))
                return (m, (lo, hi))           # saturating, truncating: monotone
            if kind == "IntToInt":
                if tr and tr[0] <= iv[0] and iv[1] <= tr[1]:
                    return (m, iv)
                if tr and m in (I, D) and iv[1] - iv[0] >= 1 and \
                        (iv[0] < tr[0] or iv[1] > tr[1]) and abs(iv[0]) != INF and abs(iv[1]) != INF:
                    # a wrapping narrowing of a monotone value that leaves the target range
                    self.notes.append("wrapping cast to %s of a value in [%g, %g]" % (e[3], iv[0], iv[1]))
                    return ("W", tr)
                return (U, tr)
            return (U, tr)
        if k == "un":
            m, iv = self.ev(e[2])
            if e[1] == "Neg":
                return (neg(m), (-iv[1], -iv[0]) if iv else None)
            return (U, None)
        if k == "ovf":
            return self.ev(e[1])
        if k == "bin":
            op = e[1]
            (ma, ia), (mb, ib) = self.ev(e[2]), self.ev(e[3])
            if op == "Add":
                iv = (ia[0] + ib[0], ia[1] + ib[1]) if ia and ib else None
                return (add_m(ma, mb), iv)
            if op == "Sub":
                iv = (ia[0] - ib[1], ia[1] - ib[0]) if ia and ib else None
                return (add_m(ma, neg(mb)), iv)
            if op == "Mul":
                if ia is None or ib is None:
                    return (U, None)
                iv = mul_iv(ia, ib)
                if mb == C:
                    return (scale_m(ma, ib[0], ib[1]), iv)
                if ma == C:
                    return (scale_m(mb, ia[0], ia[1]), iv)
                # product of two monotone non-negative (or non-positive) factors
                if ia[0] >= 0 and ib[0] >= 0 and ma == mb and ma in (I, D):
                    return (ma, iv)
                return (U, iv)
            if op == "Div":
                if ia is None or ib is None:
                    return (U, None)
                if mb == C and (ib[0] > 0 or ib[1] < 0):
                    c = [ia[0] / ib[0], ia[0] / ib[1], ia[1] / ib[0], ia[1] / ib[1]]
                    return (scale_m(ma, 1.0 / ib[1] if ib[0] > 0 else -1.0,
                                    1.0 / ib[0] if ib[0] > 0 else -1.0), (min(c), max(c)))
                if ib[0] > 0 and ia[0] >= 0:
                    # non-negative / positive: monotone only if numerator I and denominator D/C
                    m = ma if mb == C else (ma if (ma in (I, C) and mb == D) else U)
                    return (m, (ia[0] / ib[1], ia[1] / ib[0] if ib[0] > 0 else INF))
                if ib[0] >= 0 and ia[0] >= 0:
                    return (U, (0.0, INF))      # sign only: non-negative / non-negative
                return (U, None)
            if op in ("Shl",):
                if mb == C and ia and ib and ib[0] == ib[1] and ib[0] >= 0:
                    f = 2.0 ** ib[0]
                    return (ma, (ia[0] * f, ia[1] * f))
                return (U, None)
            if op in ("Shr",):
                if mb == C and ia and ib and ib[0] == ib[1] and ib[0] >= 0:
                    f = 2.0 ** ib[0]
                    return (ma, (math.floor(ia[0] / f), math.floor(ia[1] / f)))
                return (U, None)
            return (U, None)
        if k == "index":
            # to_le_bytes(x)[1] == x >> 8 ; from_le_bytes handled below
            b = e[1]
            if b[0] in ("call", "callat") and (b[1] if b[0] == "call" else b[2]) == "to_le_bytes":
                args = b[2] if b[0] == "call" else b[3]
                idx = self.const(e[2])
                m, iv = self.ev(args[0])
                if idx is not None and iv and iv[0] >= 0:
                    f = 256.0 ** idx
                    if idx == 0 and m in (I, D) and iv[1] - iv[0] >= 256:
                        self.notes.append("low byte of a value in [%g, %g]" % iv)
                        return ("W", (0.0, 255.0))
                    return (m if idx == 1 and iv[1] < 65536 else U,
                            (math.floor(iv[0] / f) % 256 if False else math.floor(iv[0] / f),
                             math.floor(iv[1] / f)))
            return (U, None)
        if k in ("call", "callat"):
            name = e[1] if k == "call" else e[2]
            args = e[2] if k == "call" else e[3]
            vals = [self.ev(a) for a in args]
            if name in self.assume:
                return self.assume[name](vals)
            if name == "from_le_bytes" and args and args[0][0] == "agg" and len(args[0][4]) == 2:
                a, b = args[0][4]
                if a == b:
                    m, iv = self.ev(a)
                    return (m, (iv[0] * 257, iv[1] * 257) if iv else None)
                return (U, None)
            if name in ("max", "min") and len(vals) == 2:
                (ma, ia), (mb, ib) = vals
                f = max if name == "max" else min
                iv = (f(ia[0], ib[0]), f(ia[1], ib[1])) if ia and ib else None
                m = ma if mb == C else (mb if ma == C else (ma if ma == mb else U))
                return (m, iv)
            if name == "clamp" and len(vals) == 3:
                (m, iv), (_, lo), (_, hi) = vals
                if iv and lo and hi:
                    return (m, (min(max(iv[0], lo[0]), hi[1]), min(max(iv[1], lo[0]), hi[1])))
                return (m, (lo[0], hi[1]) if lo and hi else None)
            if name in ("saturating_add", "wrapping_add") and len(vals) == 2:
                (ma, ia), (mb, ib) = vals
                iv = (ia[0] + ib[0], ia[1] + ib[1]) if ia and ib else None
                if name == "saturating_add":
                    if iv and ia:
                        for tr in ((0.0, 255.0), (0.0, 65535.0), (-2.0**31, 2.0**31 - 1),
                                   (0.0, 2.0**32 - 1), (-2.0**63, 2.0**63 - 1)):
                            if tr[0] <= ia[0] and ia[1] <= tr[1] and tr[0] <= ib[0] and ib[1] <= tr[1]:
                                iv = (max(iv[0], tr[0]), min(iv[1], tr[1]))
                                break
                    return (add_m(ma, mb), iv)
                return (U, iv)
            if name in ("round", "floor", "ceil", "trunc") and vals:
                m, iv = vals[0]
                if iv:
                    f = {"round": lambda v: v if abs(v) == INF else float(round(v)),
                         "floor": lambda v: v if abs(v) == INF else math.floor(v),
                         "ceil": lambda v: v if abs(v) == INF else math.ceil(v),
                         "trunc": lambda v: v if abs(v) == INF else float(int(v))}[name]
                    return (m, (f(iv[0]), f(iv[1])))
                return (m, None)
            if name == "abs" and vals:
                m, iv = vals[0]
                if iv is None:
                    return (U, None)
                if iv[0] >= 0:
                    return (m, iv)
                if iv[1] <= 0:
                    return (neg(m), (-iv[1], -iv[0]))
                return (U, (0.0, max(-iv[0], iv[1])))
            if name in ("powf", "powi") and len(vals) == 2:
                (m, iv), (mc, ic) = vals
                if iv and ic and mc == C and ic[0] == ic[1]:
                    p = ic[0]
                    if iv[0] >= 0 and p > 0:
                        return (m, (iv[0] ** p, iv[1] ** p if iv[1] != INF else INF))
                    if name == "powi" and p == 2:
                        a, b = iv
                        hi = max(a * a, b * b)
                        lo = 0.0 if a <= 0 <= b else min(a * a, b * b)
                        mm = m if a >= 0 else (neg(m) if b <= 0 else U)
                        return (mm, (lo, hi))
                return (U, None)
            if name == "exp" and vals:
                m, iv = vals[0]
                if iv:
                    f = lambda v: 0.0 if v == -INF else (INF if v == INF or v > 700 else math.exp(v))
                    return (m, (f(iv[0]), f(iv[1])))
                return (m, (0.0, INF))
            if name == "sqrt" and vals:
                m, iv = vals[0]
                if iv and iv[0] >= 0:
                    return (m, (math.sqrt(iv[0]), math.sqrt(iv[1]) if iv[1] != INF else INF))
                return (U, None)
            if name == "recip" and vals:
                m, iv = vals[0]
                if iv and iv[0] > 0:
                    return (neg(m), (1.0 / iv[1] if iv[1] != INF else 0.0, 1.0 / iv[0]))
                return (U, None)
            if name == "cos" and vals:
                return (U, (-1.0, 1.0))
            if name == "sin" and vals:
                m, iv = vals[0]
                if iv and iv[0] >= 0 and iv[1] <= math.pi + 1e-9:
                    return (U, (0.0, 1.0))
                return (U, (-1.0, 1.0))
            # local helper function of one or more scalar arguments: inline
            res = e[3] if k == "call" else e[4]
            tgt = self.prog.fns.get(res) if isinstance(res, str) else None
            if tgt is not None and len(args) <= 2:
                sub = MonoEval(self.prog, tgt, 1, self.assume)
                # evaluate callee with its first argument ranging over our value's interval;
                # valid when the callee's other arguments are constants
                m0, iv0 = vals[0]
                if iv0 is None or any(v[0] != C for v in vals[1:]):
                    return (U, None)
                sub_consts = {i + 1: vals[i][1][0] for i in range(1, len(vals))}
                sub.fixed = sub_consts
                worst_m, lo, hi = None, None, None
                for pc in sub.pieces(iv0[0], iv0[1]):
                    if pc.degenerate() and not (iv0[0] == iv0[1]):
                        continue
                    mm, ii = sub.eval_fn(pc)
                    if ii is None:
                        return (U, None)
                    lo = ii[0] if lo is None else min(lo, ii[0])
                    hi = ii[1] if hi is None else max(hi, ii[1])
                    worst_m = mm if worst_m is None else (worst_m if worst_m == mm else U)
                comp = {C: C, I: m0, D: neg(m0), U: U}.get(worst_m, U)
                return (comp, (lo, hi) if lo is not None else None)
            return (U, None)
        if k == "field":
            return (U, None)
        return (U, None)


def analyse(prog, fn, lo, hi, arg_local=1, assume=None):
    """per-piece results [(piece, mono, interval)] over the input range [lo, hi]"""
    me = MonoEval(prog, fn, arg_local, assume)
    out = []
    oty = (fn.d.get("output") or "").strip()
    tr = TYPE_RANGE.get(oty) if oty and oty[0] in "iu" else None
    for pc in me.pieces(lo, hi):
        m, iv = me.eval_fn(pc)
        if tr is not None and iv is not None and m != U and (iv[0] < tr[0] or iv[1] > tr[1]) \
                and abs(iv[0]) != INF and abs(iv[1]) != INF:
            # the computed value leaves the integer type of the result: an unchecked operation
            # (a left shift that loses bits, wrapping arithmetic) wrapped on the way
            span = tr[1] - tr[0] + 1
            if iv[0] == iv[1]:
                w = (iv[0] - tr[0]) % span + tr[0]
                me.notes.append("the value %g leaves %s and wraps to %g" % (iv[0], oty, w))
                m, iv = C, (w, w)
            else:
                me.notes.append("values in [%g, %g] leave %s" % (iv[0], iv[1], oty))
                m, iv = "W", tr
        out.append((pc, m, iv))
    return out


def verdicts(results):
    """list of (kind, text) with kind in ok/bad/unk from per-piece results"""
    out = []
    prev = None
    for (pc, m, iv) in results:
        if m == "W" and not pc.degenerate():
            out.append(("bad", "on the input piece %r the result wraps around (a narrowing that "
                        "discards high bits of a monotone value): not monotone" % (pc,)))
        elif iv is None or m == U:
            if not pc.degenerate():
                out.append(("unk", "piece %r: monotonicity %s, range %s" % (pc, m, iv)))
        elif not pc.degenerate() and m == "W":
            out.append(("bad", "on the input piece %r the result wraps around (a narrowing that "
                        "discards high bits of a monotone value): not monotone" % (pc,)))
        elif not pc.degenerate():
            if m == D and iv[0] < iv[1]:
                out.append(("bad", "on the input piece %r the result is non-increasing and "
                            "spans [%g, %g]: larger inputs give smaller outputs" % (pc, iv[0], iv[1])))
            else:
                out.append(("ok", "piece %r: %s, range [%g, %g]" % (pc, m, iv[0], iv[1])))
        if prev is not None and iv is not None and prev[2] is not None:
            if prev[2][0] > iv[1]:
                out.append(("bad", "outputs on %r lie in [%g, %g], strictly above the outputs "
                            "[%g, %g] on the following piece %r" % (
                                prev[0], prev[2][0], prev[2][1], iv[0], iv[1], pc)))
        if iv is not None:
            prev = (pc, m, iv)
    return out
