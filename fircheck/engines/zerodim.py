"""When a dimension is zero the destination is untouched (C05, last clause).

The passes of the pipeline return at a zero-size guard without writing -- which is right -- but
some functions post-process the destination *in place* after such a pass (the division by alpha
after the convolution of the premultiplied image). That step touches a destination nothing was
written to unless the zero-size cases were excluded before. The rule propagates this as a
*demand* up the call graph, the way T-feature propagates feature demands:

  demand(g) = the zero-size conditions (over g's parameters) under which g would post-process an
              unwritten destination.

* own demands: for an in-place call IW(dst) in g, every call W(dst) that dominates it and whose
  callee has zero-size exits contributes those exits' conditions, with the callee's parameters
  replaced by the arguments (getters on freshly constructed views are resolved through the
  constructor: crop_box(crop_unchecked(v, b)) = b);
* inherited demands: a call of a function with a demand contributes that demand, substituted;
* a condition is dropped where the branch facts at the call site refute it (x == 0 is false;
  x <= 0 is false; x >= 0 holds and x == 0 is false -- also from the Ok path of a validator);
* what remains must be a condition over g's own parameters and is handed to g's callers; a
  condition that cannot be expressed or decided (the size of an intermediate image that comes out
  of a float computation) is an UNDECIDED instance and is not propagated;
* a function reachable from outside the crate that is left with a demand is a VIOLATION.
"""
from ..cfg import Dom
from ..sym import Sym, fmt, _subst, project
from . import flow

IN_PLACE = ("divide_alpha_inplace_typed", "multiply_alpha_inplace_typed")
FILES = ("src/resizer.rs",)
CROPBOX_FIELDS = ("left", "top", "width", "height")


def _strip(e):
    while isinstance(e, tuple) and e and e[0] in ("cast", "ref", "deref", "reborrow"):
        e = e[2] if e[0] == "cast" else e[1]
    return e


def _name(e):
    return e[1] if e[0] == "call" else e[2]


def _args(e):
    return e[2] if e[0] == "call" else e[3]


class Resolver:
    """getters on views that were just constructed"""

    def __init__(self, prog):
        self.prog = prog
        self.ctor = {}           # fn id -> {"crop_box": expr over params, ..}
        adt = prog.adt_ids("CroppedSrcImageView")
        if adt:
            fields = [x[0] for x in prog.adts[adt[0]]["variants"][0]["fields"]]
            for f in prog.fns.values():
                if f.kind == "closure":
                    continue
                s = None
                for b, blk in enumerate(f.blocks):
                    if blk["c"]:
                        continue
                    for j, st in enumerate(blk["s"]):
                        if st[0] == "a" and st[2][0] == "agg" and st[2][1] == "adt" and st[2][2] == adt[0]:
                            s = s or Sym(f)
                            self.ctor[f.id] = {fields[i]: s.operand(o, (b, j))
                                               for i, o in enumerate(st[2][4]) if i < len(fields)}

    def norm(self, e, depth=0):
        """rewrite getter(constructor(..)) to the constructor's argument, bottom-up"""
        if not isinstance(e, tuple) or not e or depth > 20:
            return e
        if isinstance(e[0], tuple):
            return tuple(self.norm(x, depth + 1) for x in e)
        e = tuple(self.norm(x, depth + 1) if isinstance(x, tuple) else x for x in e)
        if e[0] in ("call", "callat") and _name(e) in ("crop_box", "image_view") and _args(e):
            x = _strip(_args(e)[0])
            # payload of `ctor(..)?`
            if x[0] == "field" and isinstance(x[1], tuple) and x[1][0] == "variant" and \
                    x[1][2] in ("Continue", "Ok") and x[2] in ("0", 0):
                x = x[1][1]
                if x[0] in ("call", "callat") and _name(x) == "branch" and _args(x):
                    x = _strip(_args(x)[0])
            if x[0] in ("call", "callat"):
                rid = x[4] if x[0] == "callat" else x[3]
                g = self.prog.fns.get(rid) if isinstance(rid, str) else None
                if g is not None and g.id in self.ctor and _name(e) in self.ctor[g.id]:
                    mapping = {("param", i + 1, g.local_name(i + 1)): a for i, a in enumerate(_args(x))}
                    return self.norm(project(_subst(self.ctor[g.id][_name(e)], mapping)), depth + 1)
        if e[0] == "field" and isinstance(e[1], tuple) and e[1] and e[1][0] == "agg" and \
                str(e[1][2]).endswith("CropBox") and e[2] in CROPBOX_FIELDS:
            ops = e[1][4]
            k = CROPBOX_FIELDS.index(e[2])
            if k < len(ops):
                return ops[k]
        if e[0] in ("call", "callat") and _name(e) in ("width", "height") and _args(e):
            x = _strip(_args(e)[0])
            if x[0] in ("call", "callat") and _name(x).startswith("get_temp_image_from_buffer") and len(_args(x)) == 3:
                return _args(x)[1 if _name(e) == "width" else 2]
        return e


def _cmp0(cond):
    """(op, x) for a comparison of x with the constant 0 (x on the left), else None"""
    if cond[0] != "bin" or cond[1] not in ("Eq", "Ne", "Lt", "Le", "Gt", "Ge"):
        return None
    a, b = cond[2], cond[3]
    flip = {"Lt": "Gt", "Gt": "Lt", "Le": "Ge", "Ge": "Le", "Eq": "Eq", "Ne": "Ne"}
    if flow._zero(b):
        return cond[1], _unfloat(a)
    if flow._zero(a):
        return flip[cond[1]], _unfloat(b)
    return None


def _unfloat(e):
    while isinstance(e, tuple) and e and e[0] == "cast" and e[1] in ("IntToFloat", "IntToInt", "FloatToFloat"):
        e = e[2]
    return e


def known_about(x, facts):
    """the comparisons of x with 0 that the facts state (as operators that hold)"""
    known = set()
    for (fc, fv) in facts:
        k = _cmp0(fc)
        if k is None or not isinstance(fv, bool) or k[1] != x:
            continue
        o = k[0] if fv else {"Eq": "Ne", "Ne": "Eq", "Lt": "Ge", "Ge": "Lt", "Le": "Gt", "Gt": "Le"}[k[0]]
        known.add(o)
    return known


def refuted(cond, val, facts):
    """is `cond == val` (x == 0 or x <= 0) excluded by the branch facts?"""
    c = _cmp0(cond)
    if c is None or not isinstance(val, bool):
        return False
    op, x = c
    if not val:
        op = {"Eq": "Ne", "Ne": "Eq", "Lt": "Ge", "Ge": "Lt", "Le": "Gt", "Gt": "Le"}[op]
    # the condition says: x `op` 0
    known = known_about(x, facts)
    pos = "Gt" in known or ("Ge" in known and "Ne" in known)
    if op == "Eq":
        return "Ne" in known or "Gt" in known or "Lt" in known
    if op == "Le":
        return pos
    if op == "Lt":
        return pos or "Ge" in known
    return False


def _expressible(e, f):
    """only parameters of f, getters on them, fields, constants and comparisons"""
    if not isinstance(e, tuple) or not e:
        return True
    if isinstance(e[0], tuple):
        return all(_expressible(x, f) for x in e)
    if e[0] == "param":
        return True
    if e[0] == "local" or e[0] == "callat" and _name(e) not in ("width", "height", "crop_box", "image_view"):
        return False
    if e[0] == "call" and _name(e) not in ("width", "height", "crop_box", "image_view"):
        return False
    if e[0] == "cast" and e[1] == "FloatToInt":
        return False
    return all(_expressible(x, f) for x in e[1:] if isinstance(x, tuple))


def _caller_value(e, g):
    """does the expression depend on a parameter of g (through calls and fields), on no local?"""
    found = [False]

    def walk(x):
        if not isinstance(x, tuple) or not x:
            return True
        if isinstance(x[0], tuple):
            return all(walk(y) for y in x)
        if x[0] == "local":
            return False
        if x[0] == "param":
            found[0] = True
            return True
        return all(walk(y) for y in x[1:] if isinstance(y, tuple))
    return walk(e) and found[0]


def _short(cc):
    """position-free short form of a condition for keys: the last getter / field names"""
    import re
    s = fmt(cc)
    names = re.findall(r"\.(left|top|width|height)\b|\b(width|height)\(", s)
    flat = [a or b for a, b in names]
    return "%s %s" % ("/".join(flat[-2:]) or s[:40], cc[1] if cc[0] == "bin" else "")


def zero_untouched(rep, prog, rule):
    rep.rule(rule, "no in-place post-processing of the destination (division by alpha after the "
             "convolution of the premultiplied image) is reached when the pass before it returned "
             "at a zero-size guard without writing: the zero-size conditions of that pass are "
             "excluded by branch facts at its call (or at the calls of the enclosing function, up "
             "to the public entry points; getters on freshly constructed views are resolved "
             "through the constructor, the Ok path of the crop validator contributes width >= 0). "
             "A public function left with such a condition modifies a destination it did not "
             "write although a dimension is zero: violation; conditions that cannot be expressed "
             "over the caller's parameters (sizes of intermediate images) are undecided")
    res = Resolver(prog)
    fns = [f for f in prog.fns.values() if f.file in FILES and f.kind != "closure"]
    memo = {}
    busy = set()
    n_sites = [0]

    def zero_conditions(k):
        """leaf zero-size conditions of the exits of k, over k's parameters"""
        ks = Sym(k)
        de = flow.degenerate_edges(k, ks, prog)
        out = []
        for (p, q, cond, val) in ks.edge_facts():
            if (p, q) not in de:
                continue
            if flow._degenerate_fact(cond, val):
                out.append((cond, val))
            elif cond[0] in ("call", "callat") and isinstance(val, bool):
                from ..sym import call_alternatives
                alts = call_alternatives(prog, cond, val) or []
                for alt in alts:
                    for (c2, v2) in alt:
                        if flow._degenerate_fact(c2, v2) and (c2, v2) not in out:
                            out.append((c2, v2))
        return out

    def demand(g):
        if g.id in memo:
            return memo[g.id]
        if g.id in busy:
            return []
        busy.add(g.id)
        gs = Sym(g)
        dom = Dom(g)
        out = []            # (cond, val, why)
        calls = list(g.calls())

        def subst_call(c, k, conds):
            mapping = {("param", i + 1, k.local_name(i + 1)): gs.operand(a, (c.bb, "term"))
                       for i, a in enumerate(c.args) if i < k.arg_count}
            return [(res.norm(project(_subst(cc, mapping))), vv, why) for (cc, vv, why) in conds]

        def settle(c, conds):
            facts = [(res.norm(fc), fv) for fc, fv in gs.facts_at(c.bb)]
            for (cc, vv, why) in conds:
                n_sites[0] += 1
                if refuted(cc, vv, facts):
                    rep.ok(rule, "%s|%s" % (g.name, fmt(cc)[:60]), c.at,
                           "%s is excluded before %s" % (fmt(cc)[:80], why))
                elif _cmp0(cc) is None or not _expressible(cc, g):
                    adm = _cmp0(cc) is not None and "Ge" in known_about(_cmp0(cc)[1], facts) \
                        and _caller_value(cc, g)
                    if adm and g.reachable:
                        # the value comes from the caller, the code on the way has accepted zero
                        # explicitly (a validator's `>= 0`) and nothing excludes it afterwards
                        rep.bad(rule, "public|%s|%s" % (g.name, _short(cc)), c.at,
                                "%s can run %s while %s: the value is the caller's, validation "
                                "accepts 0 for it (`>= 0` holds here, `!= 0` does not), so a "
                                "destination that was not written is modified in place although a "
                                "dimension is zero" % (g.name, why, fmt(cc)[:100]))
                    else:
                        rep.unk(rule, "%s|%s" % (g.name, fmt(cc)[:60]), c.at,
                                "zero-size condition %s of %s is not decided here" % (fmt(cc)[:100], why))
                elif (cc, vv) not in [(a, b) for a, b, _ in out]:
                    out.append((cc, vv, why))
        # own demands
        for iw in calls:
            nm = iw.method or iw.name.rsplit("::", 1)[-1]
            if nm not in IN_PLACE:
                continue
            rep.touch(g)
            dst = _strip(gs.operand(iw.args[-1], (iw.bb, "term")))
            writers = 0
            for w in calls:
                if w is iw or w.bb == iw.bb or not dom.dominates(w.bb, iw.bb):
                    continue
                tg = prog.call_targets(w)
                if len(tg) != 1 or tg[0].file not in FILES:
                    continue
                if not any(_strip(gs.operand(a, (w.bb, "term"))) == dst for a in w.args):
                    continue
                zc = zero_conditions(tg[0])
                if not zc:
                    continue
                writers += 1
                why = "%s (which returns without writing when it holds), followed by %s" % (
                    tg[0].name.rsplit("::", 1)[-1], nm)
                settle(w, subst_call(w, tg[0], [(a, b, why) for a, b in zc]))
        # inherited demands
        for c in calls:
            tg = prog.call_targets(c)
            if len(tg) != 1 or tg[0].file not in FILES or tg[0].id == g.id:
                continue
            d = demand(tg[0])
            if d:
                settle(c, subst_call(c, tg[0], d))
        busy.discard(g.id)
        memo[g.id] = out
        return out

    for g in sorted(fns, key=lambda x: x.id):
        demand(g)
    for g in sorted(fns, key=lambda x: x.id):
        if not g.reachable:
            continue
        for (cc, vv, why) in demand(g):
            rep.bad(rule, "public|%s|%s" % (g.name, fmt(cc)[:60]), g.loc,
                    "%s can run %s while %s: a destination that was not written is modified in "
                    "place although a dimension is zero" % (g.name, why, fmt(cc)[:100]))
    rep.floor(rule, "zero-size conditions settled at call sites", n_sites[0], 4)
