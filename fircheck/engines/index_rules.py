"""Index / unwrap obligations of the geometry layer (C03.index, C03.table-index, C03.unwrap,
C11.index, C13.view-offsets)."""
import re

from ..facts import CheckError
from ..sym import Sym, atoms, fmt, short
from ..ir import op_local
from .ranges import Ctx, FLIP, NEG, GETTER_RANGES, strip_widen
from .validators import closure_return, norm, subst


def strip_all(e):
    while isinstance(e, tuple) and e and e[0] == "cast":
        e = e[2]
    return e


def iter_source(fn, sym, e, depth=0):
    """follow an iterator item back to what produces it.
    returns ('vec-of-closure', closure_id, captured_exprs, range_expr) | ('rows', call_expr) |
    ('unknown', e)"""
    if depth > 14:
        return ("unknown", e)
    k = e[0]
    if k == "field":
        base = e[1]
        # (next(iter) as Some).0  [.i for zip tuples]
        if base[0] == "variant" and base[2] == "Some":
            return iter_source(fn, sym, base[1], depth + 1)
        if base[0] == "field":
            src = iter_source(fn, sym, base, depth + 1)
            if src[0] == "zip" and isinstance(e[2], int) and e[2] < len(src[1]):
                return iter_source(fn, sym, src[1][e[2]], depth + 1)
            return src
        src = iter_source(fn, sym, base, depth + 1)
        if src[0] == "zip" and isinstance(e[2], int) and e[2] < len(src[1]):
            return iter_source(fn, sym, src[1][e[2]], depth + 1)
        return src
    if k == "variant":
        return iter_source(fn, sym, e[1], depth + 1)
    if k in ("callat", "call"):
        name = e[2] if k == "callat" else e[1]
        args = e[3] if k == "callat" else e[2]
        if name in ("next", "into_iter", "iter", "iter_mut", "deref", "deref_mut", "as_slice",
                    "by_ref", "copied", "cloned", "rev", "enumerate", "take", "skip") and args:
            return iter_source(fn, sym, args[0], depth + 1)
        if name == "zip" and len(args) == 2:
            return ("zip", [args[0], args[1]])
        if name == "collect" and args:
            return iter_source(fn, sym, args[0], depth + 1)
        if name == "map" and len(args) == 2 and args[1][0] == "agg" and args[1][1] == "closure":
            return ("map", args[1][2], list(args[1][4]), args[0])
        return ("call", e)
    if k == "local":
        defs = [d for d in sym.defs.get(e[1], []) if d[3]]
        if len(defs) == 1:
            return iter_source(fn, sym, sym.rvalue(defs[0][2], defs[0][0]), depth + 1)
        return ("unknown", e)
    return ("unknown", e)


def _table_touches(f, sym):
    """methods called on `&mut` of the pretabulated Vec<usize> of resample_nearest after it was
    collected ([] = none, None = the table local was not found)"""
    tabs = [l for l in range(len(f.locals)) if (f.local_ty(l) or "") == "std::vec::Vec<usize>"]
    if len(tabs) != 1:
        return None
    t = tabs[0]
    refs = set()
    for blk in f.blocks:
        if blk["c"]:
            continue
        for st in blk["s"]:
            if st[0] == "a" and st[2][0] == "ref" and st[2][1] in ("mut", "two_phase") and st[2][2][0] == t:
                refs.add(st[1][0])
    # reborrows
    changed = True
    while changed:
        changed = False
        for blk in f.blocks:
            if blk["c"]:
                continue
            for st in blk["s"]:
                if st[0] == "a" and st[2][0] == "ref" and st[2][1] in ("mut", "two_phase") \
                        and st[2][2][0] in refs and st[1][0] not in refs:
                    refs.add(st[1][0])
                    changed = True
    out = []
    for c in f.calls():
        if c.args and c.args[0][0] in ("c", "m") and c.args[0][1] and c.args[0][1][0] in refs:
            if c.method in ("deref_mut", "as_mut_slice", "as_mut"):
                if c.dest and len(c.dest) == 1:
                    refs.add(c.dest[0])
                continue
            out.append(c.method or c.name)
    # a second pass: methods on what deref_mut returned
    for c in f.calls():
        if c.args and c.args[0][0] in ("c", "m") and c.args[0][1] and c.args[0][1][0] in refs \
                and (c.method or c.name) not in out and c.method not in ("deref_mut", "as_mut_slice", "as_mut"):
            out.append(c.method or c.name)
    return out


def nearest_index(rep, prog, rule, strict=False):
    rep.rule(rule, "in resample_nearest the column index used with get_unchecked on a source row "
             "is an element of a table whose entries are min(.., B)/clamp(..) with B = "
             "width(src_view) - 1 for the view whose rows are read (clamp adequacy: a bound equal "
             "to the row length is the author's statement that the index can reach it)")
    f = prog.fn_by_name("resizer::resample_nearest")
    rep.touch(f)
    sym = Sym(f)
    sites = [c for c in f.calls() if "get_unchecked" in c.name]
    rep.floor(rule, "unchecked row accesses in resample_nearest", len(sites), 1)
    for c in sites:
        idx = sym.operand(c.args[1])
        row = sym.operand(c.args[0])
        src = iter_source(f, sym, idx)
        key = "x_in"
        if src[0] != "map":
            core = idx
            while isinstance(core, tuple) and core and core[0] in ("cast",):
                core = core[2]
            if strict and core[0] in ("bin", "call", "callat") and "next@" in fmt(idx):
                rep.bad(rule, key + "|arith", c.at, "the column index %s is computed from the "
                        "pretabulated entry instead of being the entry itself: another source "
                        "pixel is picked (and the clamp no longer bounds it)" % fmt(idx)[:120])
            else:
                rep.unk(rule, key, c.at, "index %s not traced to a pretabulated table (%s)"
                        % (fmt(idx)[:80], src[0]))
            continue
        r = closure_return(prog, src[1], [("elem",)], src[2])
        if r is None:
            rep.unk(rule, key, c.at, "table closure has no single return expression")
            continue
        rs = strip_widen(r)
        bound = None
        if rs[0] == "call" and rs[1] == "min" and len(rs[2]) == 2:
            bound = rs[2][1]
        elif rs[0] == "call" and rs[1] == "clamp" and len(rs[2]) == 3:
            bound = rs[2][2]
        if bound is None:
            # no clamp where the entries are made: is the table repaired afterwards?
            touch = _table_touches(f, sym)
            if touch is None:
                rep.unk(rule, key, c.at, "table entries %s are not clamped" % fmt(r)[:120])
            elif not touch or all(m in ("last_mut", "first_mut", "get_mut", "index_mut", "last", "swap")
                                  for m in touch):
                rep.bad(rule, key + "|unclamped", c.at,
                        "the table entries %s are not clamped to the last column of the row (%s): the "
                        "position left + (x + 0.5) * scale is rounded in f64 and can land exactly on "
                        "the right border for SEVERAL trailing destination pixels when the step is "
                        "smaller than the spacing of doubles there, so an index equal to the row "
                        "length reaches get_unchecked" % (
                            fmt(r)[:100], "only single entries are adjusted afterwards: %s" %
                            ", ".join(sorted(set(touch))) if touch else "nothing adjusts the table afterwards"))
            else:
                rep.unk(rule, key, c.at, "table entries %s are not clamped where they are made; the "
                        "table is changed through %s afterwards" % (fmt(r)[:80], ", ".join(sorted(set(touch)))))
            continue
        b = strip_all(bound)
        # which view do the rows come from?
        rsrc = iter_source(f, sym, row)
        view = None
        if rsrc[0] == "call":
            ce = rsrc[1]
            args = ce[3] if ce[0] == "callat" else ce[2]
            nm = ce[2] if ce[0] == "callat" else ce[1]
            if nm in ("iter_rows_with_step", "iter_rows") and args:
                view = args[0]

        def width_of(e):
            e = strip_all(e)
            return e[0] == "call" and e[1] == "width" and (view is None or e[2][0] == view)
        if b[0] == "call" and b[1] == "saturating_sub" and width_of(b[2][0]) and \
                b[2][1][0] == "const" and b[2][1][1] >= 1:
            rep.ok(rule, key, c.at, "index <= %s" % fmt(bound))
        elif b[0] == "bin" and b[1] == "Sub" and width_of(b[2]) and b[3][0] == "const" \
                and b[3][1] >= 1:
            rep.ok(rule, key, c.at, "index <= %s" % fmt(bound))
        elif strict and re.search(r"crop_box\([^)]*\)\.(left|width|top|height)", fmt(bound)):
            rep.bad(rule, key + "|crop-dependent", c.at, "the column clamp %s depends on the crop "
                    "box: the documented index floor(left + (x+0.5)*scale) needs no clamp except "
                    "against the row length, so a tighter, crop-dependent bound changes which "
                    "source pixel is picked (e.g. for a fractional right edge)" % fmt(bound)[:160])
        elif width_of(b):
            rep.bad(rule, key, c.at, "column index is clamped with min(.., %s): the bound equals "
                    "the row length, so index == width is possible and get_unchecked reads one "
                    "pixel past the row (sub-pixel crop box flush against the right edge)"
                    % fmt(bound))
        else:
            rep.unk(rule, key, c.at, "clamp bound %s not related to the width of the source view"
                    % fmt(bound))


def cropped_row_slices(rep, prog, rule):
    rep.rule(rule, "every unchecked column slice of a cropped view is row[left .. left+width] of "
             "the view's own fields (C04.constructors ties them to the wrapped image's width), the "
             "rows come from inner.iter_rows*(top (+) start_row) bounded by height (-) start_row; "
             "iter_cropped_rows slices [left .. left+width] of rows top.., take(height)")
    n = 0
    for f in sorted(prog.fns.values(), key=lambda x: x.id):
        if f.kind != "closure":
            continue
        sites = [c for c in f.calls() if "get_unchecked" in c.name or
                 ((c.name.endswith("Index::index") or c.name.endswith("IndexMut::index_mut"))
                  and len(c.args) == 2 and "ops::Range" in (f.local_ty(c.args[1][1][0])
                                                             if c.args[1][0] in ("c", "m") else ""))]
        if not sites or not (f.file.endswith("typed_cropped_image.rs") or
                             "iter_cropped_rows" in f.name):
            continue
        parent = prog.fns.get(f.d.get("parent"))
        if parent is None:
            continue
        rep.touch(parent)
        psym = Sym(parent)
        # captured operands: the closure aggregate in the parent
        cap = None
        for blk in parent.blocks:
            for st in blk["s"]:
                if st[0] == "a" and st[2][0] == "agg" and st[2][1] == "closure" and st[2][2] == f.id:
                    cap = [psym.operand(o) for o in st[2][4]]
        sym = Sym(f)
        for c in sites:
            n += 1
            key = "%s" % parent.name
            rng = sym.operand(c.args[1])
            if rng[0] == "agg" and str(rng[2]).endswith("ops::range::RangeFrom"):
                # row[left..]: the slice runs to the end of the parent's row
                rep.bad(rule, key + "|open-ended", c.at,
                        "column slice row[%s ..] has no upper bound: the row handed out is the rest of "
                        "the parent's row, longer than the view's width unless the crop is flush "
                        "right (kernels that take their tails from the source row then process "
                        "other pixels than for an owned copy)" % fmt(rng[4][0])[:60])
                continue
            if cap is None or rng[0] != "agg" or not rng[2].endswith("ops::range::Range"):
                rep.unk(rule, key, c.at, "slice argument %s" % fmt(rng)[:100])
                continue
            p1 = ("param", 1, f.local_name(1))
            mapping = {("field", p1, i): cexp for i, cexp in enumerate(cap)}
            lo, hi = subst(rng[4][0], mapping), subst(rng[4][1], mapping)
            # bounds that travel in a helper's struct (`ColumnSpan::of(&crop_box)`): the helper is
            # inlined and the field projected
            from .validators import resolve_helpers
            lo, hi = resolve_helpers(prog, lo), resolve_helpers(prog, hi)
            lo_s, hi_s = strip_all(lo), strip_widen(hi)

            def fieldname(e):
                e = strip_all(e)
                if e[0] == "call" and e[1] == "max" and e[2] and e[2][1][0] == "const":
                    e = strip_all(e[2][0])
                return e[2] if e[0] == "field" else None
            okk = (fieldname(lo) == "left" and hi_s[0] == "bin" and hi_s[1] == "Add"
                   and strip_widen(hi_s[2]) == strip_widen(lo) and fieldname(hi_s[3]) == "width")
            if not okk:
                # other spellings of the same rectangle: the bounds mention only left / width
                flds_lo = set(re.findall(r"\.(left|top|width|height)\b", fmt(lo)))
                flds_hi = set(re.findall(r"\.(left|top|width|height)\b", fmt(hi)))
                if flds_lo == {"left"} and flds_hi == {"left", "width"}:
                    rep.unk(rule, key, c.at, "row[%s .. %s] (unrecognised spelling of "
                            "[left, left+width))" % (fmt(lo)[:60], fmt(hi)[:90]))
                    continue
            if okk:
                rep.ok(rule, key, c.at, "row[%s .. %s]" % (fmt(lo)[:60], fmt(hi)[:90]))
            elif _opaque_call(prog, lo) or _opaque_call(prog, hi):
                rep.unk(rule, key, c.at, "row[%s .. %s]: the bounds come from a helper that was not "
                        "resolved to an expression" % (fmt(lo)[:60], fmt(hi)[:60]))
            else:
                rep.bad(rule, key, c.at, "unchecked column slice is row[%s .. %s], expected "
                        "[left .. left + width] of the view's own fields" % (fmt(lo)[:80],
                                                                            fmt(hi)[:120]))
    rep.floor(rule, "unchecked column slices of cropped views", n, 4)
    # row ranges of the cropped views
    m = 0
    for f in sorted(prog.fns.values(), key=lambda x: x.id):
        if f.d.get("method") not in ("iter_rows", "iter_rows_mut"):
            continue
        if "TypedCroppedImage" not in f.d.get("self_ty", ""):
            continue
        rep.touch(f)
        sym = Sym(f)
        inner = [c for c in f.calls() if c.method in ("iter_rows", "iter_rows_mut")]
        take = [c for c in f.calls() if c.name.endswith("Iterator::take")]
        key = f.name
        m += 1
        if len(inner) != 1 or len(take) != 1:
            rep.unk(rule, key + "|rows", f.loc, "inner iter_rows=%d take=%d" % (len(inner), len(take)))
            continue
        start = strip_all(sym.operand(inner[0].args[1]))
        cnt = strip_all(sym.operand(take[0].args[1]))

        def is_self_field(e, name):
            e = strip_all(e)
            return e[0] == "field" and e[2] == name and e[1][0] == "param" and e[1][1] == 1

        def is_param(e, name):
            # the start row is the first argument after self (whatever it is called)
            e = strip_all(e)
            return e[0] == "param" and e[1] == 2
        self_ty = re.sub(r"<.*$", "", (f.d.get("self_ty") or ""))
        adt_f = [set(x[0] for x in a["variants"][0]["fields"]) for k, a in prog.adts.items()
                 if (k.endswith("::" + self_ty.rsplit("::", 1)[-1])) and len(a["variants"]) == 1]
        if adt_f and not {"top", "height"} <= adt_f[0]:
            rep.unk(rule, key + "|rows", f.loc, "the view has no fields `top` / `height` (fields: %s)"
                    % sorted(adt_f[0]))
            continue
        s_ok = ((start[0] == "call" and start[1] == "saturating_add") or
                (start[0] == "bin" and start[1] == "Add"))
        if s_ok:
            a, b = (start[2] if start[0] == "call" else (start[2], start[3]))
            s_ok = (is_self_field(a, "top") and is_param(b, "start_row")) or \
                   (is_self_field(b, "top") and is_param(a, "start_row"))
        c_ok = ((cnt[0] == "call" and cnt[1] == "saturating_sub") or
                (cnt[0] == "bin" and cnt[1] == "Sub"))
        if c_ok:
            a, b = (cnt[2] if cnt[0] == "call" else (cnt[2], cnt[3]))
            c_ok = is_self_field(a, "height") and is_param(b, "start_row")
        if s_ok and c_ok:
            rep.ok(rule, key + "|rows", f.loc, "rows %s, count %s" % (fmt(start), fmt(cnt)))
        else:
            rep.bad(rule, key + "|rows", f.loc, "rows start at %s and are limited by %s; expected "
                    "top + start_row and height - start_row" % (fmt(start), fmt(cnt)))
    rep.floor(rule, "cropped row iterators", m, 3)
    # any other row iterator a cropped view overrides
    def float_offset(e):
        """a floating-point value that has one of the view's integer offsets mixed in"""
        def has_off(x):
            if not isinstance(x, tuple) or not x:
                return False
            if x[0] == "field" and x[2] in ("top", "left") and strip_all(x[1])[0] == "param":
                return True
            return any(has_off(y) for y in x if isinstance(y, tuple))

        def walk(x):
            if not isinstance(x, tuple) or not x:
                return False
            if x[0] == "cast" and x[1] in ("IntToFloat",) and has_off(x[2]):
                return True
            return any(walk(y) for y in x if isinstance(y, tuple))
        return walk(e)
    probe = ("bin", "Add", ("cast", "IntToFloat", ("field", ("param", 1, "self"), "top"), "f64"),
             ("param", 2, "start_y"))
    if not float_offset(probe) or float_offset(("param", 2, "start_y")):
        raise CheckError("float-offset matcher self-test failed")
    for f in sorted(prog.fns.values(), key=lambda x: x.id):
        meth = f.d.get("method") or ""
        if not meth.startswith("iter_") or meth in ("iter_rows", "iter_rows_mut"):
            continue
        if "TypedCroppedImage" not in f.d.get("self_ty", ""):
            continue
        rep.touch(f)
        sym = Sym(f)
        key = f.name + "|override"
        inner = [c for c in f.calls() if (c.method or "").startswith("iter_")]
        bad = None
        for c in inner:
            for a in c.args[1:]:
                e = sym.operand(a)
                if float_offset(e):
                    bad = (c, e)
        if bad:
            rep.bad(rule, key + "|float-offset", bad[0].at, "%s passes %s to the wrapped view's "
                    "%s: the view's integer row offset is added in floating point, so the row "
                    "positions are accumulated from a different start value and "
                    "floor(top + y) can differ from top + floor(y) by one row; a cropped view "
                    "then picks other source rows than an owned copy of the same pixels" % (
                        f.name, fmt(bad[1])[:80], bad[0].method))
        else:
            rep.unk(rule, key, f.loc, "cropped view overrides %s; its row selection is not "
                    "modelled" % meth)


def table_index(rep, prog, rule):
    rep.rule(rule, "every get_unchecked on a static table uses an index that is derived through "
             "clamp/min/mask with constant bounds inside the table, or is interval-bounded")
    n = 0
    for f in sorted(prog.fns.values(), key=lambda x: x.id):
        sites = [c for c in f.calls() if "get_unchecked" in c.name]
        if not sites:
            continue
        ctx = None
        for c in sites:
            ctx = ctx or Ctx(prog, f)
            recv = strip_all(ctx.sym.operand(c.args[0]))
            if recv[0] != "static":
                continue
            n += 1
            rep.touch(f)
            st = prog.statics.get(recv[1])
            idx = ctx.sym.operand(c.args[1])
            key = "%s|%s" % (f.name, recv[1].rsplit("::", 1)[-1])
            iv = ctx.iv.eval(idx)
            if st is None or "len" not in st:
                rep.unk(rule, key, c.at, "table %s not evaluated" % recv[1])
            elif iv is not None and 0 <= iv[0] and iv[1] < st["len"]:
                rep.ok(rule, key, c.at, "index %s in %s, table length %d" % (
                    fmt(idx)[:80], list(iv), st["len"]))
            else:
                rep.bad(rule, key, c.at, "unchecked index %s into %s (length %d) is not bounded: "
                        "interval %s" % (fmt(idx)[:100], recv[1].rsplit("::", 1)[-1], st["len"],
                                          list(iv) if iv else "unknown"))
    rep.floor(rule, "unchecked static-table reads", n, 1)


# ---------------------------------------------------------------------------------------------
# unwrap sites

def _check_crop_box_errs(prog):
    """Err conditions of check_crop_box over its parameters: list of (op, a, b) that lead to Err"""
    f = prog.fn_by_name("images::typed_cropped_image::check_crop_box")
    sym = Sym(f)
    errs = []
    from .flow import error_return_blocks
    eb = error_return_blocks(f)
    for (p, s, cond, val) in sym.edge_facts():
        if cond[0] == "bin" and cond[1] in FLIP and isinstance(val, bool):
            # does edge (p->s) lead to an error block without another decision?
            b = s
            seen = set()
            while b not in seen:
                seen.add(b)
                if b in eb:
                    errs.append((cond[1] if val else NEG[cond[1]], cond[2], cond[3]))
                    break
                t = f.term(b)
                if t[0] == "goto":
                    b = t[1]
                else:
                    break
    return f, errs


CTOR_NAMES = ("TypedCroppedImage::<'a, V>::new", "TypedCroppedImage::<'a, V>::from_ref",
              "TypedCroppedImageMut::<'a, V>::new", "TypedCroppedImageMut::<'a, V>::from_ref")


def _atoms_of(e, acc):
    """values the caller / the environment controls: parameters, getters on them, results of
    calls that are not integer arithmetic"""
    if not isinstance(e, tuple) or not e:
        return
    k = e[0]
    if k in ("param", "local"):
        acc.add(e)
        return
    if k in ("call", "callat"):
        nm = e[1] if k == "call" else e[2]
        if nm in ("max", "min", "saturating_sub", "saturating_mul", "div_ceil", "get", "from", "into"):
            for a in (e[2] if k == "call" else e[3]):
                _atoms_of(a, acc)
            return
        acc.add(e)
        return
    for x_ in e:
        if isinstance(x_, tuple):
            _atoms_of(x_, acc)


class _UnknownNode(Exception):
    pass


def _eval_atoms(e, asg):
    """value under the assignment; None = this assignment makes the expression meaningless
    (division by zero, a wrapping product); _UnknownNode = a construct that is not understood"""
    if not isinstance(e, tuple) or not e:
        raise _UnknownNode()
    if e in asg:
        return asg[e]
    k = e[0]
    if k == "const":
        if isinstance(e[1], (int, bool)) and not isinstance(e[1], float):
            return e[1]
        raise _UnknownNode()
    if k in ("ovf", "exact", "copy", "deref", "ref"):
        return _eval_atoms(e[1], asg)
    if k == "cast":
        v = _eval_atoms(e[2], asg)
        if v is None:
            return None
        ty = str(e[3]) if len(e) > 3 else ""
        bits = {"u8": 8, "u16": 16, "u32": 32, "u64": 64, "usize": 64}.get(ty)
        return v % (1 << bits) if bits and isinstance(v, int) and not isinstance(v, bool) else v
    if k == "field" and str(e[2]) == "0":
        return _eval_atoms(e[1], asg)
    if k == "bin":
        a, b = _eval_atoms(e[2], asg), _eval_atoms(e[3], asg)
        if a is None or b is None:
            return None
        op = e[1].replace("WithOverflow", "").replace("Unchecked", "")
        try:
            r = {"Add": lambda: a + b, "Sub": lambda: a - b if a >= b else None, "Mul": lambda: a * b,
                 "Div": lambda: a // b if b else None, "Rem": lambda: a % b if b else None,
                 "Shl": lambda: a << b if 0 <= b < 64 else None, "Shr": lambda: a >> b if 0 <= b < 64 else None,
                 "Lt": lambda: a < b, "Le": lambda: a <= b, "Gt": lambda: a > b, "Ge": lambda: a >= b,
                 "Eq": lambda: a == b, "Ne": lambda: a != b}
            if op not in r:
                raise _UnknownNode()
            r = r[op]()
        except _UnknownNode:
            raise
        except Exception:
            return None
        if isinstance(r, int) and not isinstance(r, bool) and r >= 1 << 64:
            return None        # would wrap: not a witness we want to argue with
        return r
    if k in ("call", "callat"):
        nm = e[1] if k == "call" else e[2]
        args = e[2] if k == "call" else e[3]
        vals = [_eval_atoms(a, asg) for a in args]
        if any(v is None for v in vals):
            return None
        if nm == "max" and len(vals) == 2:
            return max(vals)
        if nm == "min" and len(vals) == 2:
            return min(vals)
        if nm in ("get", "from", "into") and len(vals) == 1:
            return vals[0]
        if nm == "saturating_sub" and len(vals) == 2:
            return max(0, vals[0] - vals[1])
        if nm == "div_ceil" and len(vals) == 2:
            return -(-vals[0] // vals[1]) if vals[1] else None
    raise _UnknownNode()


def _zero_witness(x, facts, ctx=None):
    """an assignment of the free values (parameters, getters, opaque call results: unsigned) under
    which every fact holds and x == 0; all facts must be evaluable -- otherwise no claim (None)"""
    import itertools
    atoms = set()
    _atoms_of(strip_all(x), atoms)
    for fc, fv in facts:
        _atoms_of(fc, atoms)
    atoms = sorted(atoms, key=repr)
    if not atoms or len(atoms) > 4:
        return None
    # the result of a crate-local function is only a free value here if what it implies about
    # its arguments is among the facts: a condition on such a call that the fact expansion could
    # not open (loops, too many paths) may hide a relation that excludes the witness
    if ctx is not None:
        for a in atoms:
            if a[0] not in ("call", "callat"):
                continue
            res = a[4] if a[0] == "callat" else a[3]
            if not (isinstance(res, str) and res in ctx.prog.fns):
                continue
            args = a[3] if a[0] == "callat" else a[2]
            inner = set()
            for y in args:
                _atoms_of(y, inner)
            if not (inner & set(atoms)):
                continue
            about = [(fc, fv) for fc, fv in facts if _mentions(fc, a)]
            if not about:
                return None
            for fc, fv in about:
                try:
                    opened = ctx.sym._expand_facts([(fc, fv)], [(fc, fv)])
                except Exception:
                    opened = None
                if not opened:
                    return None
    grid = [0, 1, 2, 3, 5, 7, 8, 9, 16, 255, 256, 1000, 3000, 9000, 16384, 65536, 1 << 20]
    try:
        for vals in itertools.product(grid, repeat=len(atoms)):
            asg = dict(zip(atoms, vals))
            xv = _eval_atoms(strip_all(x), asg)
            if xv is None or xv != 0:
                continue
            ok = True
            for fc, fv in facts:
                if not isinstance(fv, bool):
                    raise _UnknownNode()
                r = _eval_atoms(fc, asg)
                if r is None or bool(r) != bool(fv):
                    ok = False
                    break
            if ok:
                return ", ".join("%s = %d" % (fmt(a)[:40], v) for a, v in asg.items())
    except _UnknownNode:
        return None
    return None


def _opaque_call(prog, e):
    if not isinstance(e, tuple) or not e:
        return False
    if e[0] in ("call", "callat"):
        res = e[4] if e[0] == "callat" else e[3]
        if isinstance(res, str) and res in prog.fns:
            return True
    return any(_opaque_call(prog, x) for x in e if isinstance(x, tuple))


def _min_operands(e):
    """operands of a (nested) `min`: a.min(b).min(c) -> [a, b, c]"""
    e = strip_all(e)
    if isinstance(e, tuple) and e and e[0] in ("call", "callat"):
        nm = e[1] if e[0] == "call" else e[2]
        args = e[2] if e[0] == "call" else e[3]
        if nm == "min" and len(args) == 2:
            return _min_operands(args[0]) + _min_operands(args[1])
    return [e]


def _mentions(cond, sub):
    if cond == sub:
        return True
    if isinstance(cond, tuple):
        return any(_mentions(x, sub) for x in cond if isinstance(x, tuple))
    return False


def unwraps(rep, prog, rule, only=None, floor=20):
    rep.rule(rule, "every unwrap/expect of the geometry layer: the receiver's failure condition "
             "is refuted by guards/intervals (DISCHARGED), is satisfiable for caller-controlled "
             "or object-state values with no guard (VIOLATION: e.g. check_crop_box rejects "
             "`0 >= image.height()` for a zero-height view), or is left UNDECIDED")
    vf, errs = _check_crop_box_errs(prog)
    pnames = [vf.local_name(i) for i in range(1, vf.arg_count + 1)]
    n = 0
    from .ranges import in_scope
    for f in sorted(prog.fns.values(), key=lambda x: x.id):
        if not in_scope(f) or (only and not only(f)):
            continue
        sites = [c for c in f.calls() if c.name.endswith("::unwrap") or c.name.endswith("::expect")]
        if not sites:
            continue
        rep.touch(f)
        ctx = Ctx(prog, f)
        for c in sites:
            n += 1
            recv = ctx.sym.operand(c.args[0])
            key = "%s|%s" % (f.name, fmt(recv)[:70])
            facts = ctx.facts(c.bb)
            nf = norm(facts)
            r = strip_all(recv)
            nm = r[2] if r[0] == "callat" else (r[1] if r[0] == "call" else None)
            full = r[5] if r[0] == "callat" and len(r) > 5 else (r[4] if r[0] == "call" and len(r) > 4 else "")
            args = r[3] if r[0] == "callat" else (r[2] if r[0] == "call" else ())
            if nm in ("new", "from_ref") and any(full.endswith(x) for x in CTOR_NAMES):
                view = args[0]
                actual = {pnames[0]: ("call", "width", (view,), None, ""),
                          pnames[1]: ("call", "height", (view,), None, ""),
                          pnames[2]: args[1], pnames[3]: args[2],
                          pnames[4]: args[3], pnames[5]: args[4]}
                mapping = {("param", i + 1, pn): actual[pn] for i, pn in enumerate(pnames)}
                verdicts = []
                for (op, a, b) in errs:
                    ia, ib = _norm_getters(subst(a, mapping)), _norm_getters(subst(b, mapping))
                    verdicts.append(_refute(ctx, f, nf, op, ia, ib))
                bad = [v for v in verdicts if v[0] == "sat"]
                unk = [v for v in verdicts if v[0] == "unk"]
                if bad:
                    for v in bad:
                        rep.bad(rule, "%s|%s" % (f.name, v[2]), c.at,
                                "%s(..).unwrap(): check_crop_box fails when %s, and nothing "
                                "before the call excludes it (%s)" % (nm, v[1], f.name))
                elif unk:
                    rep.unk(rule, key, c.at, "not refuted: %s" % "; ".join(v[1] for v in unk)[:200])
                else:
                    rep.ok(rule, key, c.at, "all %d rejection conditions of check_crop_box refuted"
                           % len(verdicts))
                continue
            if nm == "new" and "NonZero" in full:
                x = args[0]
                iv = _eval_with_facts(ctx, x, nf)
                if iv is not None and iv[0] >= 1:
                    rep.ok(rule, key, c.at, "argument in %s" % (list(iv),))
                else:
                    # a minimum is positive when each operand is: where the author guarded some
                    # operands (`a > 1 && b > 1`) and the minimum has one more operand that no
                    # guard speaks about and that is a quotient / difference reaching 0 for small
                    # values, the unwrap's argument for safety no longer covers the expression
                    ops = _min_operands(strip_all(x))
                    loose = []
                    guarded = 0
                    for o in ops:
                        oiv = _eval_with_facts(ctx, o, nf)
                        if oiv is not None and oiv[0] >= 1:
                            guarded += 1
                            continue
                        so = strip_all(o)
                        if so[0] == "bin" and so[1] in ("Div", "Sub", "Shr", "Rem") and \
                                not any(_mentions(fc, so) or _mentions(fc, strip_all(so[2])) for fc, fv in facts):
                            loose.append(o)
                    wit = _zero_witness(x, facts, ctx)
                    if wit is not None:
                        rep.bad(rule, key + "|zero-reachable", c.at,
                                "NonZero::new(%s).unwrap() panics: the argument is 0 and every condition "
                                "before the call holds for %s" % (fmt(x)[:90], wit))
                    elif len(ops) >= 2 and guarded >= 1 and loose and guarded + len(loose) == len(ops):
                        rep.bad(rule, key + "|unguarded-operand", c.at,
                                "NonZero::new(min(..)).unwrap(): %d operand(s) of the minimum are guarded "
                                "positive, but %s is not -- no condition before the call mentions it and it "
                                "is 0 for small values: the unwrap panics there (e.g. a band count capped "
                                "by `height / 8` for an image of fewer than 8 rows)" % (
                                    guarded, fmt(loose[0])[:60]))
                    else:
                        rep.unk(rule, key, c.at, "NonZero::new(%s): lower bound not shown" % fmt(x)[:80])
                continue
            if nm == "divide_alpha_inplace_typed":
                sup = any(cc[0] == "call" and cc[1] == "is_supported" and v is True
                          for cc, v in facts)
                via = None
                if not sup and f.kind == "closure":
                    # the guard may dominate the place where the closure is made
                    g, depth = f, 0
                    while g is not None and g.kind == "closure" and depth < 3 and not sup:
                        par = prog.fns.get(g.d.get("parent"))
                        if par is None:
                            break
                        ps = Sym(par)
                        for b2, blk2 in enumerate(par.blocks):
                            if blk2["c"]:
                                continue
                            for st2 in blk2["s"]:
                                if st2[0] == "a" and st2[2][0] == "agg" and st2[2][1] == "closure" and st2[2][2] == g.id:
                                    if any(cc[0] == "call" and cc[1] == "is_supported" and v is True
                                           for cc, v in ps.facts_at(b2)):
                                        sup = True
                        g, depth = par, depth + 1
                if not sup and not f.d.get("pub"):
                    # a private helper: the guard may sit at its call sites
                    sites = prog.callers().get(f.id, [])
                    if sites:
                        okc = 0
                        for c2 in sites:
                            s2 = Sym(c2.fn)
                            if any(cc[0] == "call" and cc[1] == "is_supported" and v is True
                                   for cc, v in s2.facts_at(c2.bb)):
                                okc += 1
                        if okc == len(sites):
                            via = len(sites)
                if sup:
                    rep.ok(rule, key, c.at, "dominated by is_supported(P::pixel_type()) "
                           "(the impl set equals the supported set: rule alpha-set)")
                elif via:
                    rep.ok(rule, key, c.at, "every call site of %s (%d) is dominated by "
                           "is_supported(P::pixel_type())" % (f.name.rsplit("::", 1)[-1], via))
                else:
                    rep.bad(rule, "%s|divide-unwrap" % f.name, c.at,
                            "divide_alpha_inplace_typed(..).unwrap() is reachable without "
                            "is_supported(P::pixel_type()): panics for pixel types without alpha")
                continue
            rep.unk(rule, key, c.at, "receiver %s" % fmt(recv)[:100])
    rep.floor(rule, "unwrap sites in scope", n, floor)


def _norm_getters(e):
    """width(x) / height(x) written as plain getter calls irrespective of call metadata"""
    if not isinstance(e, tuple):
        return e
    if e and e[0] == "call" and e[1] in ("width", "height"):
        return ("call", e[1], tuple(_norm_getters(a) for a in e[2]))
    return tuple(_norm_getters(x) if isinstance(x, tuple) else x for x in e)


def _eval_with_facts(ctx, e, nf):
    """interval of e, with lower bounds of atoms refined by guards against constants"""
    e = strip_all(e)
    if e[0] == "call" and e[1] in ("min", "max") and len(e[2]) == 2:
        a, b = _eval_with_facts(ctx, e[2][0], nf), _eval_with_facts(ctx, e[2][1], nf)
        if a and b:
            f = min if e[1] == "min" else max
            return (f(a[0], b[0]), f(a[1], b[1]))
        return None
    iv = ctx.iv.eval(e)
    lo = iv[0] if iv else None
    hi = iv[1] if iv else None
    for (op, x, y) in nf:
        for (o, l, r) in ((op, x, y), (FLIP[op], y, x)):
            if strip_all(l) == e and r[0] == "const" and isinstance(r[1], int):
                if o == "Gt":
                    lo = max(lo, r[1] + 1) if lo is not None else r[1] + 1
                elif o == "Ge":
                    lo = max(lo, r[1]) if lo is not None else r[1]
                elif o == "Ne" and r[1] == 0 and (lo is None or lo == 0):
                    lo = 1
    if lo is None:
        return None
    return (lo, hi if hi is not None else 2**64)


def _refute(ctx, f, nf, op, a, b):
    """is the failure condition `a op b` excluded? ('ref', why) | ('sat', text, key) |
    ('unk', text)"""
    txt = "%s %s %s" % (fmt(a), {"Ge": ">=", "Gt": ">", "Le": "<=", "Lt": "<", "Eq": "==",
                                  "Ne": "!="}.get(op, op), fmt(b))
    # guards stating the negation
    for (o2, x, y) in nf:
        for (o, l, r) in ((o2, x, y), (FLIP[o2], y, x)):
            if _norm_getters(strip_all(l)) == strip_all(a) and \
                    _norm_getters(strip_all(r)) == strip_all(b) and o == NEG[op]:
                return ("ref", "guard")
    ia, ib = _eval_with_facts(ctx, a, nf), _eval_with_facts(ctx, b, nf)
    if ia and ib:
        if op == "Ge" and ia[1] < ib[0]:
            return ("ref", "interval")
        if op == "Gt" and ia[1] <= ib[0]:
            return ("ref", "interval")
    # satisfiable with state/free atoms only?
    ats = atoms(a) + atoms(b)
    if not ats:
        return ("unk", txt)

    def state_or_free(x):
        x = strip_all(x)
        if x[0] == "call" and x[1] in ("width", "height") and x[2] and x[2][0][0] == "param":
            return True
        if x[0] == "param":
            return True
        return False
    if f.kind != "closure" and all(state_or_free(x) for x in ats):
        # a constant on one side and a getter on the other: `0 >= height(self)`
        if strip_all(a)[0] == "const" and op in ("Ge", "Gt") and ib and ib[0] <= strip_all(a)[1]:
            return ("sat", txt, "check_crop_box:%s" % txt)
    return ("unk", txt)


def unchecked_sites(rep, prog, rule):
    rep.rule(rule, "every get_unchecked / get_unchecked_mut outside the SIMD kernel modules is one "
             "of the sites another rule justifies (column slices of the cropped views, the "
             "pretabulated nearest-neighbour column, static tables, the vendored ArrayChunks "
             "guard); any other unchecked access is listed, and one whose index is truncated from "
             "a floating-point value without a clamp against the length is a violation (rounding "
             "can put an accumulated position exactly on the end: defect #5 of DESIGN §5)")
    n = new = 0
    for f in sorted(prog.fns.values(), key=lambda x: x.id):
        if re.match(r"^(convolution|alpha)::\w+::(sse4|avx2|neon|wasm32|native)::", f.name) or \
                f.file.startswith(("src/simd_utils", "src/neon_utils", "src/wasm32_utils")) or \
                not f.file.startswith("src/"):
            continue
        sites = [c for c in f.calls() if "get_unchecked" in c.name and len(c.args) >= 2]
        if not sites:
            continue
        sym = Sym(f)
        for c in sites:
            n += 1
            recv = strip_all(sym.operand(c.args[0], (c.bb, "term")))
            idx = sym.operand(c.args[1], (c.bb, "term"))
            key = "%s|%s" % (f.name, fmt(idx)[:40])
            covered = None
            if recv[0] == "static":
                covered = "static table (table-index rule)"
            elif f.file.endswith("array_chunks.rs"):
                covered = "vendored core::array::ArrayChunks guard"
            elif f.file.endswith("typed_cropped_image.rs") or "iter_cropped_rows" in f.name:
                covered = "column slice of a cropped view (view-rectangle rule)"
            elif f.name.endswith("resample_nearest"):
                covered = "pretabulated nearest-neighbour column (index-nearest rule)"
            if covered:
                rep.ok(rule, key, c.at, covered, nontrivial=False)
                continue
            new += 1
            rep.touch(f)
            # index derived from a float -> int truncation without a clamp?
            parent = prog.fns.get(f.d.get("parent")) if f.kind == "closure" else None

            def float_trunc(e, depth=0, clamped=False):
                if not isinstance(e, tuple) or not e or depth > 30:
                    return False
                if e[0] in ("call", "callat"):
                    nm = e[1] if e[0] == "call" else e[2]
                    if nm in ("min", "clamp"):
                        return False
                if e[0] == "cast" and e[1] == "FloatToInt":
                    return True
                if e[0] == "local":
                    return any(float_trunc(sym.rvalue(rv, bb, (bb, j)), depth + 1)
                               for (bb, j, rv, w) in sym.defs.get(e[1], []))
                return any(float_trunc(x, depth + 1) for x in e if isinstance(x, tuple))
            if float_trunc(idx):
                rep.bad(rule, key + "|float-index", c.at, "%s indexes %s unchecked with %s, which is "
                        "truncated from a floating-point position and not clamped against the "
                        "length: an accumulated position can land exactly on the end of the image "
                        "(y += step reaches `height` for a sub-pixel crop flush with the border), "
                        "so a whole row / pixel outside the buffer is read" % (
                            f.name, fmt(recv)[:40], fmt(idx)[:80]))
            else:
                rep.unk(rule, key, c.at, "unchecked access %s[%s] is not covered by any rule" % (
                    fmt(recv)[:40], fmt(idx)[:80]))
    rep.floor(rule, "unchecked accesses outside the kernels", n, 6)


def scratch_grow(rep, prog, rule):
    """C03/C09: a scratch Vec that is sliced up to `n` elements after `if <test> { v.resize(n, _) }`
    has n elements only if the test is on the *length*; the capacity of a Vec that grew by
    amortised doubling exceeds its length."""
    rep.rule(rule, "a conditional Vec::resize(v, n, _) that a later slice of v relies on is guarded by "
             "len(v) < n for the same n: a guard on capacity(v) (or any other quantity that can be "
             ">= n while len(v) < n) leaves the vector shorter than the slice taken from it on a reused "
             "Resizer; the call is a violation, an unrecognised guard is undecided")
    n = 0
    for f in sorted(prog.fns.values(), key=lambda x: x.id):
        calls = [c for c in f.calls() if (c.method or short(c.name)) == "resize"
                 and "vec::Vec" in (c.name + " " + (c.fn.local_ty(op_local(c.args[0])) or "") if c.args else "")]
        if not calls:
            continue
        sym = Sym(f)
        for c in calls:
            if len(c.args) < 2:
                continue
            v = fmt(sym.operand(c.args[0], (c.bb, "term")))
            want = fmt(sym.operand(c.args[1], (c.bb, "term")))
            v = re.sub(r"^&mut |^&|^\(|\)$", "", v)
            facts = [(cond, val) for (cond, val) in sym.facts_at(c.bb)
                     if re.search(r"\b%s\b" % re.escape(v.split(".")[-1]), fmt(cond))]
            key = "%s|resize(%s, %s)" % (f.name, v[:30], want[:40])
            if not facts:
                continue            # unconditional growth
            n += 1
            rep.touch(f)
            verdict = None
            for cond, val in facts:
                s = fmt(cond)
                if "capacity(" in s or "is_empty(" in s:
                    verdict = ("bad", s)
                    break
                if cond[0] == "bin" and cond[1] in ("Lt", "Gt", "Le", "Ge") and "len(" in s and want in s:
                    lhs, rhs = fmt(cond[2]), fmt(cond[3])
                    lt = (cond[1] == "Lt" and "len(" in lhs and want in rhs and val is True) or \
                         (cond[1] == "Gt" and "len(" in rhs and want in lhs and val is True) or \
                         (cond[1] == "Ge" and "len(" in lhs and want in rhs and val is False) or \
                         (cond[1] == "Le" and "len(" in rhs and want in lhs and val is False)
                    if lt:
                        verdict = ("ok", s)
            if verdict is None:
                # len(v) < X guards a growth to X + g: lengths in [X, X + g) are left as they are
                want_e = sym.operand(c.args[1], (c.bb, "term"))
                w0 = want_e
                while isinstance(w0, tuple) and w0 and w0[0] in ("ovf", "cast"):
                    w0 = w0[1] if w0[0] == "ovf" else w0[2]
                for cond, val in facts:
                    if cond[0] != "bin" or cond[1] not in ("Lt", "Gt", "Le", "Ge"):
                        continue
                    sides = [(cond[2], cond[3]), (cond[3], cond[2])]
                    for ln, x in sides:
                        if "len(" not in fmt(ln) or "len(" in fmt(x):
                            continue
                        x0 = x
                        while isinstance(x0, tuple) and x0 and x0[0] in ("ovf", "cast"):
                            x0 = x0[1] if x0[0] == "ovf" else x0[2]
                        if w0[0] == "bin" and w0[1] == "Add" and (fmt(w0[2]) == fmt(x0) or fmt(w0[3]) == fmt(x0)):
                            verdict = ("weaker", fmt(cond))
                if verdict is not None:
                    rep.bad(rule, key + "|smaller-than-grown", c.at,
                            "%s grows %s to %s but only when %s: a buffer whose length lies between the "
                            "tested size and the grown size is left as it is, although the extra bytes "
                            "are needed (the alignment gap of the pixel type): the slice taken afterwards "
                            "can be one pixel short on a reused Resizer" % (f.name, v, want[:60], verdict[1][:80]))
                    continue
                rep.unk(rule, key, c.at, "growth guarded by %s" % "; ".join(fmt(c_)[:60] for c_, _ in facts))
            elif verdict[0] == "bad":
                rep.bad(rule, key + "|capacity", c.at,
                        "%s grows %s only when %s: that does not imply len >= %s afterwards (a Vec that "
                        "grew by doubling has a capacity above its length; a non-empty Vec can be "
                        "shorter), so the slice taken afterwards is shorter than requested (panic on a "
                        "reused Resizer)" % (f.name, v, verdict[1][:80], want))
            else:
                rep.ok(rule, key, c.at, "grown when %s" % verdict[1][:80])
    rep.floor(rule, "conditional scratch-buffer growth sites", n, 1)


def bounds_trim(rep, prog, rule):
    """C03 / C01: the bookkeeping of the window bounds in precompute_coefficients. Every kernel
    load relies on  start + size <= in_size  of the pushed Bound, and `size = bound_end -
    bound_start` is an unsigned subtraction."""
    rep.rule(rule, "in precompute_coefficients bound_end only moves down from x_max and bound_start only "
             "up from x_min, and every step keeps bound_start <= bound_end: each decrement of bound_end "
             "happens on an edge where bound_end > bound_start was tested (or by a count taken over the "
             "coefficients pushed for the current pixel only, coeffs[cur_index..]); a decrement by a count "
             "taken over the whole coefficient vector (which also holds the padding zeros of the previous "
             "pixels) is a violation: for a window of zero weights bound_end drops below bound_start and "
             "`size` wraps (debug: panic; release: the kernels read out of bounds); other unguarded "
             "updates are undecided")
    fs = [f for f in prog.fns.values() if f.name == "convolution::precompute_coefficients"]
    if len(fs) != 1:
        rep.unk(rule, "precompute_coefficients|anchor", "", "%d functions named precompute_coefficients" % len(fs))
        return
    f = fs[0]
    rep.touch(f)
    sym = Sym(f)
    names = {f.local_name(l): l for l in sym.defs}
    if "bound_end" not in names or "bound_start" not in names:
        rep.unk(rule, "precompute_coefficients|locals", f.loc, "bound_start / bound_end not found")
        return
    n = 0
    for nm, sign in (("bound_end", "Sub"), ("bound_start", "Add")):
        l = names[nm]
        for (bb, j, rv, whole) in sym.defs[l]:
            # the update as written: the MIR right-hand side of this statement only
            e = sym.rvalue(rv, bb, (bb, j))
            s = fmt(e)
            me = ("local", l, nm)
            is_update = rv[0] == "bin" or (e[0] in ("bin", "ovf") and nm in s and not s.startswith("(min(") and not s.startswith("(max("))
            raw = rv
            step = None
            if raw[0] in ("bin", "ovf_bin", "checked") or (isinstance(raw, list) and raw and raw[0] == "bin"):
                step = raw
            if not (e[0] == "bin" and e[1] in ("Add", "Sub")) and not (e[0] == "ovf"):
                continue        # the initial value
            ee = e[1] if e[0] == "ovf" else e
            if not (ee[0] == "bin" and ee[1] in ("Add", "Sub")):
                continue
            n += 1
            amount = ee[3]
            key = "precompute_coefficients|%s %s %s" % (nm, "-=" if ee[1] == "Sub" else "+=",
                                                          re.sub(r"@bb\d+", "", fmt(amount))[:50])
            loc = f.blocks[bb]["s"][j][3] if j != "term" else f.loc
            if ee[1] != sign:
                rep.bad(rule, key + "|direction", loc, "%s moves in the wrong direction (%s)" % (nm, fmt(ee)[:80]))
                continue
            # guards on edges that dominate the update with no other update of the two cursors in
            # between (the generic fact engine drops facts about variables that change in the loop)
            from ..cfg import Dom
            dom = Dom(f)
            others = {d[0] for nm2 in ("bound_end", "bound_start") for d in sym.defs[names[nm2]]
                      if (d[0], d[1]) != (bb, j)}
            facts = []
            for (p_, s_, cond, val) in sym.edge_facts():
                if f.pred[s_] != [p_] or not dom.dominates(s_, bb):
                    continue
                if any(dom.dominates(s_, d) and dom.dominates(d, bb) and d != bb for d in others):
                    continue
                facts.append((cond, val))
            guarded = False
            for cond, val in facts:
                t_ = fmt(cond)
                if cond[0] == "bin" and "bound_end" in t_ and "bound_start" in t_:
                    a_, b_ = fmt(cond[2]), fmt(cond[3])
                    lt = (cond[1], val) in (("Le", False), ("Gt", True)) and "bound_end" in a_ and "bound_start" in b_
                    lt = lt or ((cond[1], val) in (("Ge", False), ("Lt", True)) and "bound_start" in a_ and "bound_end" in b_)
                    if lt:
                        guarded = True
                if nm == "bound_start" and cond[0] == "bin" and cond[1] == "Eq" and val is True and "bound_start" in t_:
                    guarded = True      # x == bound_start for an x of the range x_min..x_max
            am = fmt(amount)
            if guarded:
                rep.ok(rule, key, loc, "step taken only where bound_start < bound_end (or x == bound_start)")
            elif "count" in am and re.search(r"iter(@bb\d+)?\((deref(@bb\d+)?\()?\(?&?coeffs\b", am) and "cur_index" not in am:
                rep.bad(rule, key + "|whole-vector", loc,
                        "bound_end is lowered by %s: a count over the whole coefficient vector, which also "
                        "holds the padding of the previous pixels; with a window of zero weights it exceeds "
                        "bound_end - bound_start and `size` wraps" % am[:100])
            else:
                rep.unk(rule, key, loc, "update without a test of bound_start against bound_end on the path")
    rep.floor(rule, "updates of the window bounds", n, 2)
