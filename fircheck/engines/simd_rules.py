"""Lane discipline of the SIMD convolution kernels (C02.saturate / C18.saturate,
C02.zero-extend / C18.zero-extend)."""
import re

from ..sym import Sym, fmt, short
from . import deps
from .lanes import mask_bytes

KERNEL_RE = re.compile(r"^convolution::(\w+)::(sse4|avx2|neon|wasm32)::")

SEXT = re.compile(r"^(_mm(256)?_cvtepi(8|16)_epi(16|32|64)|_mm(256)?_cvtepi32_epi64|"
                  r"vmovl_s(8|16|32)|vmovl_high_s(8|16|32)|"
                  r"i16x8_extend_(low|high)_i8x16|i32x4_extend_(low|high)_i16x8|"
                  r"i64x2_extend_(low|high)_i32x4)$")

SINK_FLOOR = {"x86": 40, "x86-rayon": 40, "arm": 20, "wasm": 20}


def kernels(prog):
    out = []
    for f in prog.fns.values():
        m = KERNEL_RE.match(f.name)
        if m:
            out.append((f, m.group(1), m.group(2)))
    return sorted(out, key=lambda x: x[0].id)


def root_type(fn, sym, e, depth=0):
    """type of the local / parameter a pointer expression is rooted at"""
    while isinstance(e, tuple) and e and depth < 30:
        depth += 1
        k = e[0]
        if k in ("param", "local"):
            return fn.local_ty(e[1])
        if k == "cast":
            e = e[2]
        elif k in ("field", "variant", "index", "proj"):
            e = e[1]
        elif k in ("call", "callat"):
            args = e[2] if k == "call" else e[3]
            if not args:
                return None
            e = args[0]
        else:
            return None
    return None


def is_dst_type(ty):
    if ty is None:
        return False
    if re.search(r"(i32|i64|__m\d+|f32|f64|int\d+x\d+|v128)", ty) and "Pixel<" not in ty:
        return False
    return ty.startswith("&mut [") or ty.startswith("&mut pixels::Pixel<") or \
        ty.startswith("*mut u") or ty.startswith("&mut u") or "IterMut" in ty or \
        "ChunksExactMut" in ty or ty.startswith("[&mut [")


def conv_saturate(rep, prog, rule):
    rep.rule(rule, "in every SIMD convolution kernel for 8/16-bit formats each value written to "
             "destination pixels is derived from the accumulator through a saturating narrowing of "
             "the component width (packus / vqmovun / *_narrow_* / clip table / Normalizer32::clip); "
             "cutting the dependence DAG at such nodes no multiply-add remains reachable")
    n = 0
    for f, ty, be in kernels(prog):
        width = deps.component_width(f.name)
        if width is None:
            continue
        owners = [f] + f.closures()
        for g in owners:
            sym = None
            sinks = []
            for (c, ai) in deps.store_sinks(g):
                sym = sym or Sym(g)
                ptr = sym.operand(c.args[0], (c.bb, "term"))
                if is_dst_type(root_type(g, sym, ptr)):
                    sinks.append(("call", c, ai))
            for b, blk in enumerate(g.blocks):
                if blk["c"]:
                    continue
                for j, st in enumerate(blk["s"]):
                    if st[0] == "a" and "*" in st[1][1:]:
                        bt = g.local_ty(st[1][0])
                        if bt.startswith("&mut pixels::Pixel<") or re.match(r"^(&mut|\*mut) u(8|16)$", bt):
                            sinks.append(("store", (b, j, st), None))
            if not sinks:
                continue
            rep.touch(g)
            tr = deps.Tracer(prog, width, inline_depth=2)
            sym = tr.sym(g)
            for kind, obj, ai in sinks:
                n += 1
                if kind == "call":
                    val = sym.operand(obj.args[ai], (obj.bb, "term"))
                    at = obj.at
                    what = short(obj.name)
                else:
                    b, j, st = obj
                    val = sym.rvalue(st[2], b, (b, j))
                    at = st[3]
                    what = "pixel store"
                path = tr.unsaturated(g, val)
                key = "%s|%s" % (g.name, what)
                if path is None:
                    rep.ok(rule, key, at, "saturated to %d bits" % width)
                elif path and path[0].startswith("<"):
                    rep.unk(rule, key, at, path[0])
                else:
                    rep.bad(rule, key + "|unsaturated", at, "%s writes a destination value that "
                            "reaches `%s` without a saturating narrowing to %d bits: %s" % (
                                g.name, path[-1], width, " <- ".join(path[-8:])))
    rep.floor(rule, "destination stores in SIMD convolution kernels", n, SINK_FLOOR.get(rep.cfg, 20))


ACCUM_RE = re.compile(r"(madd|maddubs|_mul_ep|_mullo_|_mulhi_|mulhrs|vmlal|vmull|vmla|extmul|dot_|"
                      r"i32x4_mul|i64x2_mul)")
LOGICAL_SHR_RE = re.compile(r"(^|::)(_mm(256|512)?_(mask_)?srl(i|v)?_epi(16|32|64)|"
                            r"vshrq?_n_u(8|16|32|64)|vrshrq?_n_u(8|16|32|64)|"
                            r"u(8x16|16x8|32x4|64x2)_shr)$")
ARITH_SHR_RE = re.compile(r"(^|::)(_mm(256|512)?_(mask_)?sra(i|v)?_epi(16|32|64)|"
                          r"vshrq?_n_s(8|16|32|64)|vrshrq?_n_s(8|16|32|64)|"
                          r"i(8x16|16x8|32x4|64x2)_shr)$")
assert LOGICAL_SHR_RE.search("core::core_arch::x86::sse2::_mm_srl_epi64")
assert LOGICAL_SHR_RE.search("_mm256_srli_epi32") and not LOGICAL_SHR_RE.search("_mm_srli_si128")
assert ARITH_SHR_RE.search("_mm_srai_epi32") and ARITH_SHR_RE.search("vshrq_n_s64")


def arith_shift(rep, prog, rule, floor=10):
    rep.rule(rule, "in the SIMD convolution kernels a right shift applied to a value that was "
             "accumulated from products (madd / mul / mlal ... , traced flow-insensitively through "
             "locals, arrays and helper calls) is ARITHMETIC (srai / sra / vshr_n_s / iNxM_shr): the "
             "sums are signed -- kernels with negative lobes undershoot next to an edge -- and a "
             "logical shift (srl / srli / vshr_n_u / uNxM_shr) turns a small negative sum into a huge "
             "positive one that the following unsigned saturation clips to the MAXIMUM instead of 0. "
             "(`a negative value keeps its sign bit in the low half` only holds for precision <= 32)")
    from ..props.c14 import _taint
    n = 0
    for f, ty, be in kernels(prog):
        for g in [f] + f.closures():
            seeds = set()
            for c in g.calls():
                if c.dest and (ACCUM_RE.search(c.name or "") or _multiplies(prog, c)):
                    seeds.add(c.dest[0])
            if not seeds:
                continue
            tset, op_t = _taint(prog, g, seeds)
            for c in g.calls():
                nm = c.name or ""
                lg, ar = LOGICAL_SHR_RE.search(nm), ARITH_SHR_RE.search(nm)
                if not (lg or ar) or not c.args:
                    continue
                if not op_t(c.args[0]):
                    continue
                n += 1
                rep.touch(g)
                key = "%s|%s" % (g.name, short(nm))
                if ar:
                    rep.ok(rule, key, c.at, "arithmetic shift of the accumulator")
                else:
                    rep.bad(rule, key + "|logical", c.at,
                            "%s shifts an accumulated (signed) sum with the logical %s: a negative sum "
                            "becomes a large positive value and is saturated to the maximum of the "
                            "component range instead of 0" % (g.name, short(nm)))
    rep.floor(rule, "right shifts of accumulators in SIMD convolution kernels", n, floor)


PIXEL_LOAD_RE = re.compile(r"(^|::)(loadu_si128|loadu_si256|loadl_epi64|loadl_epi32|loadl_epi16|"
                           r"_mm(256)?_loadu_si(128|256)|_mm_loadl_epi64|mm_cvtepu8_epi32\w*|"
                           r"mm_cvtsi32_si128_from_u8|vld1q?_u(8|16)\w*|load_v128|v128_load\w*)$")


def _multiplies(prog, c, depth=0):
    """the callee is a crate-local function whose body (two levels deep) contains a multiply(-add):
    what it returns is a product / an accumulator, not raw pixel data"""
    if depth > 2:
        return False
    for t in prog.call_targets(c):
        for c2 in t.calls():
            if ACCUM_RE.search(c2.name or "") or _multiplies(prog, c2, depth + 1):
                return True
    return False


def pixel_sign(rep, prog, rule, floor=20):
    rep.rule(rule, "in the SIMD convolution kernels a vector that holds SOURCE PIXELS (loaded from a row "
             "of pixels and not yet multiplied) is never shifted right ARITHMETICALLY: pixel components "
             "are unsigned, `_mm_srai_epi32::<16>(source)` to bring the odd 16-bit pixels down sign-extends "
             "every component >= 0x8000 into a negative factor, so bright pixels enter the sum with a "
             "negative weight (result below the smallest source value, not monotone). The arithmetic "
             "shifts of the kernels belong to the accumulators (C18.arith-shift)")
    from ..props.c14 import _taint
    n = 0
    for f, ty, be in kernels(prog):
        for g in [f] + f.closures():
            pix, acc = set(), set()
            for c in g.calls():
                nm = c.name or ""
                if ACCUM_RE.search(nm) and c.dest:
                    acc.add(c.dest[0])
                elif c.dest and _multiplies(prog, c):
                    acc.add(c.dest[0])          # a crate-local helper that multiplies-and-adds
                if PIXEL_LOAD_RE.search(nm) and c.dest and c.args:
                    a0 = c.args[0]
                    t0 = g.local_ty(a0[1][0]) if a0[0] in ("c", "m") and a0[1] else ""
                    if "Pixel<" in (t0 or "") or re.search(r"\[u(8|16)\]|\*const u(8|16)|__m(128|256)i", t0 or ""):
                        if "i16" in (t0 or "") or "i32" in (t0 or ""):
                            continue            # coefficient buffers
                        pix.add(c.dest[0])
            if not pix:
                continue
            pt, p_op = _taint(prog, g, pix)
            at, a_op = _taint(prog, g, acc) if acc else (set(), lambda o: False)
            for c in g.calls():
                nm = c.name or ""
                if not c.args:
                    continue
                lg, ar = LOGICAL_SHR_RE.search(nm), ARITH_SHR_RE.search(nm)
                if not (lg or ar):
                    continue
                if not p_op(c.args[0]) or a_op(c.args[0]):
                    continue
                n += 1
                rep.touch(g)
                key = "%s|%s" % (g.name, short(nm))
                if ar:
                    rep.bad(rule, key + "|sign-extended", c.at,
                            "%s shifts a vector of source pixels with the arithmetic %s: components >= "
                            "half of the range become negative factors of the multiply-add" % (g.name, short(nm)))
                else:
                    rep.ok(rule, key, c.at, "logical shift of pixel data")
    rep.note("%s: %d right shifts of unmultiplied pixel vectors seen" % (rule, n))


def zero_extend(rep, prog, rule):
    rep.rule(rule, "pixel data is never sign-extended on its way to the multiply-add: no "
             "sign-extending widening intrinsic is applied in a convolution or alpha kernel, and "
             "in every constant byte-shuffle mask applied before madd_epi16 (8-bit formats) the "
             "high byte of each 16-bit lane is a zeroing index (>= 0x80)")
    n_sext = 0
    n_calls = 0
    for f in sorted(prog.fns.values(), key=lambda x: x.id):
        if not (KERNEL_RE.match(f.name) or re.match(r"^alpha::\w+::(sse4|avx2|neon|wasm32)::", f.name)
                or f.name.startswith(("simd_utils::", "neon_utils::", "wasm32_utils::"))):
            continue
        for c in f.calls():
            nm = short(c.name)
            n_calls += 1
            if SEXT.match(nm):
                n_sext += 1
                rep.touch(f)
                sym = Sym(f)
                arg = sym.operand(c.args[0], (c.bb, "term"))
                rt = root_type(f, sym, arg)
                coef = rt is not None and re.search(r"\[i(16|32)\]|CoefficientsI", rt)
                if coef:
                    rep.ok(rule, "%s|%s" % (f.name, nm), c.at, "sign extension of coefficients")
                else:
                    rep.bad(rule, "%s|%s" % (f.name, nm), c.at, "%s sign-extends %s (%s): pixel "
                            "components >= 0x80 become negative in the multiply-add" % (
                                nm, fmt(arg)[:80], rt))
    rep.ok(rule, "sign-extending intrinsics", "", "%d calls to sign-extending widenings among %d "
           "intrinsic/helper calls in kernel modules" % (n_sext, n_calls), nontrivial=True)
    rep.floor(rule, "calls scanned in kernel modules", n_calls, 500)
    # constant shuffle masks feeding madd_epi16 in the 8-bit kernels (x86)
    m = 0
    for f, ty, be in kernels(prog):
        if be not in ("sse4", "avx2") or deps.component_width(f.name) != 8:
            continue
        sym = None
        for c in f.calls():
            nm = short(c.name)
            if nm not in ("_mm_madd_epi16", "_mm256_madd_epi16"):
                continue
            sym = sym or Sym(f)
            for a in c.args:
                e = sym.operand(a, (c.bb, "term"))
                while e[0] == "cast":
                    e = e[2]
                if e[0] in ("callat", "call") and (e[2] if e[0] == "callat" else e[1]) in (
                        "_mm_shuffle_epi8", "_mm256_shuffle_epi8"):
                    args = e[3] if e[0] == "callat" else e[2]
                    mb = mask_bytes(_resolve_mask(sym, args[1]))
                    src_t = root_type(f, sym, args[0])
                    if mb is None:
                        continue
                    # is this a pixel shuffle? (index bytes only in even positions) or a
                    # coefficient shuffle (pairs of bytes)
                    m += 1
                    rep.touch(f)
                    odd_idx = [b for i, b in enumerate(mb) if i % 2 == 1 and b >= 0]
                    even_idx = [b for i, b in enumerate(mb) if i % 2 == 0 and b >= 0]
                    key = "%s|mask%s" % (f.name, "".join("%x" % (b & 0xf) if b >= 0 else "-" for b in mb[:16]))
                    if not odd_idx:
                        rep.ok(rule, key, c.at, "16-bit lanes = zero-extended bytes")
                    elif len(odd_idx) == len(even_idx) and all(
                            o == ev + 1 for o, ev in zip(odd_idx, even_idx)):
                        rep.ok(rule, key, c.at, "16-bit values copied whole (coefficients)",
                               nontrivial=False)
                    else:
                        rep.bad(rule, key, c.at, "a byte shuffle feeding madd_epi16 places source "
                                "bytes %s in the HIGH byte of 16-bit lanes (mask %s): the lane is "
                                "not a zero-extended component" % (odd_idx[:4], mb[:16]))
    rep.floor(rule, "constant shuffle masks feeding madd_epi16", m, 20 if rep.cfg.startswith("x86") else 0)


def _resolve_mask(sym, e):
    """a mask held in a local: use its (single) definition"""
    seen = 0
    while isinstance(e, tuple) and e and e[0] == "local" and seen < 4:
        seen += 1
        ds = [d for d in sym.defs.get(e[1], []) if d[3]]
        if len(ds) != 1:
            return e
        e = sym.rvalue(ds[0][2], ds[0][0], (ds[0][0], ds[0][1]))
    return e


# ---------------------------------------------------------------------------------------------
# lane bypass: an early return of the unmodified input vector in a per-lane primitive

EXISTS, FORALL, NONE_ = "exists", "forall", "none"


def _quantifier(cond, val):
    """classify a branch condition over a SIMD mask: does it state something about ALL lanes,
    about SOME lane, or about NO lane?"""
    s = fmt(cond)
    if cond[0] != "bin" or cond[1] not in ("Eq", "Ne"):
        return None
    eq = (cond[1] == "Eq") == bool(val)
    a, b = cond[2], cond[3]
    if b[0] != "const":
        a, b = b, a
    if b[0] != "const":
        return None
    k = b[1]
    name = a[2] if a[0] == "callat" else (a[1] if a[0] == "call" else None)
    if name is None:
        return None
    if re.match(r"^_mm(256)?_testz_si(128|256)$", name):
        same_ops = len(a[3]) == 2 and a[3][0] == a[3][1]
        if not same_ops:
            return None
        # testz(m, m) == 1  <=>  m == 0 (no lane set)
        if (k == 1 and eq) or (k == 0 and not eq):
            return NONE_
        return EXISTS
    if re.match(r"^_mm_test_all_ones$", name):
        return FORALL if ((k == 1 and eq) or (k == 0 and not eq)) else EXISTS
    if re.match(r"^_mm(256)?_movemask_(epi8|ps|pd)$", name):
        if k == 0:
            return NONE_ if eq else EXISTS
        if k in (0xffff, 0xffffffff, -1, 0xf, 0xff, 0x3):
            return FORALL if eq else EXISTS
        return None
    if re.match(r"^(v128_any_true|[iu]\d+x\d+_bitmask)$", name):
        return EXISTS if ((k != 0) == eq or (k == 0 and not eq)) else NONE_
    if re.match(r"^[iu]\d+x\d+_all_true$", name):
        return FORALL if ((k != 0) == eq or (k == 0 and not eq)) else EXISTS
    if re.match(r"^vmaxvq?_u\d+$", name):
        return NONE_ if (k == 0 and eq) else (EXISTS if k == 0 else None)
    if re.match(r"^vminvq?_u\d+$", name):
        return None
    return None


def lane_bypass(rep, prog, rule):
    rep.rule(rule, "a per-lane SIMD primitive of the alpha kernels (vector in, vector out) "
             "returns its input unmodified only under a condition that speaks about ALL lanes "
             "(test_all_ones, movemask == full, all_true); an early return guarded by an "
             "'any lane' test (testz(m,m)==0, movemask != 0, any_true) leaves the other lanes "
             "unprocessed")
    n = 0
    for f in sorted(prog.fns.values(), key=lambda x: x.id):
        if not re.match(r"^alpha::\w+::(sse4|avx2|neon|wasm32)::", f.name) or f.kind == "closure":
            continue
        out = f.d.get("output", "")
        if not re.search(r"__m\d+|v128|int\d+x\d+(x\d)?_t", out):
            continue
        if f.arg_count < 1 or f.local_ty(1) != out:
            continue
        n += 1
        rep.touch(f)
        sym = Sym(f)
        p1 = ("param", 1, f.local_name(1))
        bypass = []
        for (bb, j, rv, whole) in f.defs().get(0, []):
            e = sym.rvalue(rv, bb, (bb, j))
            if e == p1:
                bypass.append(bb)
        key = f.name
        if not bypass:
            rep.ok(rule, key, f.loc, "no identity return path", nontrivial=False)
            continue
        for bb in bypass:
            qs = [(_quantifier(c, v), c) for c, v in sym.facts_at(bb)]
            qs = [q for q in qs if q[0]]
            if any(q[0] == FORALL for q in qs):
                rep.ok(rule, key, f.loc, "identity path under an all-lanes condition")
            elif any(q[0] == EXISTS for q in qs):
                c = [q[1] for q in qs if q[0] == EXISTS][0]
                rep.bad(rule, key + "|any-lane", f.loc, "%s returns its input unchanged when "
                        "`%s` holds, which is true as soon as ONE lane matches: the remaining "
                        "lanes are not processed" % (f.name, fmt(c)[:120]))
            elif not sym.facts_at(bb):
                rep.bad(rule, key + "|identity", f.loc, "%s returns its input unchanged "
                        "unconditionally" % f.name)
            else:
                rep.unk(rule, key, f.loc, "identity return under a condition that is not "
                        "classified: %s" % [fmt(c)[:80] for c, v in sym.facts_at(bb)][:2])
    rep.floor(rule, "vector-to-vector alpha primitives", n, 8)


def f64_accumulate(rep, prog, rule, floor=20):
    """C01 / C02 / C18: float kernels accumulate in double precision."""
    import re
    from ..cfg import Dom, loop_blocks
    rep.rule(rule, "every floating-point multiply / add of the f32 convolution kernels (convolution::f32xN, "
             "vertical_f32, all back-ends) is done in double precision (`*_pd` intrinsics, f64 scalars): "
             "each source value is widened, the window is summed in f64 and rounded to f32 once. A "
             "single-precision multiply or add inside the loop over the window rounds once per tap, the "
             "error grows with the window (tens of ulp for strong reductions) and the back-end differs "
             "from the others: violation; single-precision arithmetic outside a loop is undecided")
    n = 0
    for f in sorted(prog.fns.values(), key=lambda x: x.id):
        if not re.match(r"^convolution::(f32x\d|vertical_f32)::", f.name):
            continue
        loops = None
        sites = []
        for c in f.calls():
            nm = c.method or c.name.rsplit("::", 1)[-1]
            if re.search(r"(mul|add|sub|fmadd|fmsub|fma|hadd|dp|mla|madd)", nm) and \
                    re.search(r"(_p[sd]$|_s[sd]$|f32x\d|f64x\d|_f32$|_f64$)", nm):
                single = bool(re.search(r"(_ps$|_ss$|f32x\d|_f32$)", nm))
                sites.append((nm, single, c.bb, c.at))
        for b, blk in enumerate(f.blocks):
            if blk["c"]:
                continue
            for st in blk["s"]:
                if st[0] == "a" and st[2][0] == "bin" and st[2][1] in ("Mul", "Add", "Sub") and len(st[1]) == 1:
                    ty = f.local_ty(st[1][0])
                    if ty in ("f32", "f64"):
                        sites.append(("scalar %s" % st[2][1], ty == "f32", b, st[3]))
        if not sites:
            continue
        rep.touch(f)
        seen = {}
        for nm, single, bb, at in sites:
            n += 1
            k0 = "%s|%s" % (f.name, nm)
            seen[k0] = seen.get(k0, 0) + 1
            key = k0 if seen[k0] == 1 else "%s #%d" % (k0, seen[k0])
            if not single:
                rep.ok(rule, key, at, "double precision")
                continue
            if loops is None:
                loops = loop_blocks(f, Dom(f))
            if any(bb in body for body in loops.values()):
                rep.bad(rule, key + "|single-precision", at,
                        "%s: %s works in single precision inside the loop over the window; the other paths "
                        "widen to f64, accumulate there and round once" % (f.name, nm))
            else:
                rep.unk(rule, key, at, "%s in single precision outside a loop" % nm)
    rep.floor(rule, "floating-point operations in the f32 kernels", n, floor)


def native_clip(rep, prog, rule, floor=10):
    rep.rule(rule, "in the portable 8 / 16-bit convolution kernels every value stored into a destination "
             "component is the result of the normaliser's clip(..) (shift by the precision and clamp to "
             "[0, max]): a narrowing built from the shifted sum in another way -- `u8::try_from(ss >> p)"
             ".unwrap_or(u8::MAX)` -- turns a NEGATIVE sum (undershoot of a filter with negative lobes) "
             "into the maximum instead of 0. The scalar tails of the SIMD kernels call these functions")
    n = 0
    for f in sorted(prog.fns.values(), key=lambda x: x.id):
        if not re.match(r"^convolution::(u8|u16|vertical_u8|vertical_u16)\w*::native::", f.name):
            continue
        sym = None
        for b, blk in enumerate(f.blocks):
            if blk["c"]:
                continue
            for j, st in enumerate(blk["s"]):
                if not (st[0] == "a" and "*" in st[1][1:]):
                    continue
                ty = f.local_ty(st[1][0]) or ""
                if not (re.match(r"^(&mut|\*mut) u(8|16)$", ty) or ty.startswith("&mut pixels::Pixel<")
                        or re.match(r"^&mut \[u(8|16)", ty)):
                    continue
                sym = sym or Sym(f)
                e = sym.rvalue(st[2], b, (b, j))
                s_ = fmt(e)
                n += 1
                rep.touch(f)
                key = "%s|store" % f.name
                if re.search(r"\bclip\b", s_) or re.search(r"\bclip@", s_):
                    rep.ok(rule, key, st[3], "clip(..)")
                elif re.search(r"unwrap_or|try_from|try_into|as u8|as u16|IntToInt", s_) and \
                        re.search(r"Shr|>>", s_):
                    rep.bad(rule, key + "|not-clip", st[3],
                            "%s stores %s: the shifted sum is narrowed without the normaliser's clip; a "
                            "negative sum does not become 0" % (f.name, s_[:100]))
                else:
                    rep.unk(rule, key, st[3], "stored value %s" % s_[:100])
    rep.floor(rule, "destination stores in the portable kernels", n, floor)


def tail_initial(rep, prog, rule, floor=4):
    """the rounding constant handed to the portable tail routines is half a unit"""
    rep.rule(rule, "every call of a crate-local convolution routine that takes the accumulator's start value "
             "as a parameter named `initial` (the portable column routines convolution_by_u8 / _u16 that "
             "the SIMD vertical kernels use for the last components of a row) passes HALF A UNIT of the "
             "fixed-point scale, `1 << (precision - 1)`, or the caller's own `initial` parameter: the sum "
             "is shifted right by the precision afterwards, so any other start value (the shift amount "
             "itself, 0) turns round-to-nearest into truncation for those components -- a flat image "
             "whose quantised weights sum to 2^p - 1 comes out one level BELOW its value")
    n = 0
    for f in sorted(prog.fns.values(), key=lambda x: x.id):
        if not f.name.startswith("convolution::"):
            continue
        sym = None
        for c in f.calls():
            for t in prog.call_targets(c):
                if not t.name.startswith("convolution::"):
                    continue
                idx = [i for i in range(1, t.arg_count + 1) if t.local_name(i) == "initial"]
                if not idx or idx[0] - 1 >= len(c.args):
                    continue
                sym = sym or Sym(f)
                e = sym.operand(c.args[idx[0] - 1], (c.bb, "term"))
                s_ = fmt(e)
                n += 1
                rep.touch(f)
                key = "%s|%s|initial" % (f.name, short(t.name))
                e0 = e
                while isinstance(e0, tuple) and e0 and e0[0] in ("cast", "copy"):
                    e0 = e0[2] if e0[0] == "cast" else e0[1]
                if isinstance(e0, tuple) and e0 and e0[0] == "bin" and e0[1] == "Shl" and \
                        e0[2][0] == "const" and e0[2][1] == 1 and re.search(r"Sub", fmt(e0[3])):
                    rep.ok(rule, key, c.at, "initial = %s" % s_[:80])
                elif isinstance(e0, tuple) and e0 and e0[0] in ("param", "local") and "initial" in s_:
                    rep.ok(rule, key, c.at, "the caller's own `initial` is passed on")
                elif "Shl" not in s_ and "initial" not in s_ and "@bb" not in s_:
                    rep.bad(rule, key + "|not-half-unit", c.at,
                            "%s passes `%s` as the start value `initial` of %s: not 1 << (precision - 1), "
                            "so the components this call computes are not rounded to nearest (they are "
                            "truncated: up to one level below the SIMD columns next to them and below the "
                            "smallest source value of a flat image)" % (f.name, s_[:80], t.name))
                else:
                    rep.unk(rule, key, c.at, "initial = %s" % s_[:100])
                break
    rep.floor(rule, "calls that pass a start value `initial`", n, floor)


MOVEMASK_LANES = {"_mm_movemask_ps": 4, "_mm256_movemask_ps": 8, "_mm_movemask_pd": 2,
                  "_mm256_movemask_pd": 4, "_mm_movemask_epi8": 16, "_mm256_movemask_epi8": 32}


def movemask_const(rep, prog, rule):
    rep.rule(rule, "the result of a movemask intrinsic is compared only with 0 ('no lane') or with the "
             "constant that has one bit per lane of THAT intrinsic ('all lanes': 0xf for _mm_movemask_ps, "
             "0xff for _mm256_movemask_ps, ...): `_mm256_movemask_ps(x) == 0xf` in the widened copy of an "
             "SSE4.1 fast path fires when the low four lanes match and the high four do not")
    n = 0
    for f in sorted(prog.fns.values(), key=lambda x: x.id):
        hits = [c for c in f.calls() if short(c.name or "") in MOVEMASK_LANES]
        if not hits:
            continue
        sym = Sym(f)
        for c in hits:
            lanes = MOVEMASK_LANES[short(c.name)]
            full = (1 << lanes) - 1
            ok_consts = {0, full, full - (1 << 32) if lanes == 32 else full}
            d = c.dest[0] if c.dest else None
            for (p_, s_, cond, v_) in sym.edge_facts():
                cs = cond
                while isinstance(cs, tuple) and cs and cs[0] in ("copy", "ref", "deref"):
                    cs = cs[1]
                if not (isinstance(cs, tuple) and cs and cs[0] == "bin" and cs[1] in ("Eq", "Ne")):
                    continue
                for x, k in ((cs[2], cs[3]), (cs[3], cs[2])):
                    if isinstance(x, tuple) and x and x[0] == "callat" and x[1] == c.bb and \
                            isinstance(k, tuple) and k and k[0] == "const" and isinstance(k[1], int):
                        n += 1
                        rep.touch(f)
                        key = "%s|%s" % (f.name, short(c.name))
                        if k[1] in ok_consts:
                            rep.ok(rule, key, c.at, "compared with %#x" % k[1])
                        else:
                            rep.bad(rule, key + "|partial-mask", c.at,
                                    "%s compares %s (%d lanes) with %#x: neither 0 nor the all-lanes "
                                    "constant %#x" % (f.name, short(c.name), lanes, k[1], full))
    rep.note("%s: %d movemask comparisons seen" % (rule, n))


FLOAT_SAT_RE = re.compile(r"(^|::)(_mm(256|512)?_(min|max)_ps|_mm(256|512)?_(min|max)_pd|vminq?_f32|vmaxq?_f32|"
                          r"f32x4_(p?min|p?max)|min|max|clamp)$")


def float_alpha_unsaturated(rep, prog, rule, floor=6):
    rep.rule(rule, "the alpha kernels of the f32 pixel types compute c * a and c / a and nothing else: no "
             "minimum / maximum / clamp is applied to a float component (float pixels are never clipped: "
             "a quotient above 1 -- overshoot of a filter, HDR data -- must survive, or the result of an "
             "alpha-aware resize of an opaque image differs from the one without alpha handling)")
    n = 0
    for f in sorted(prog.fns.values(), key=lambda x: x.id):
        root = f
        while root is not None and root.kind == "closure":
            root = prog.fns.get(root.d.get("parent"))
        if root is None or not re.match(r"^alpha::f32x\d::", root.name):
            continue
        n += 1
        rep.touch(f)
        bad = []
        for c in f.calls():
            nm = c.name or ""
            if not FLOAT_SAT_RE.search(nm):
                continue
            m = short(nm)
            if m in ("min", "max", "clamp"):
                # only the float ones (usize::min for lengths is not our business)
                t0 = f.local_ty(c.args[0][1][0]) if c.args and c.args[0][0] in ("c", "m") else ""
                if "f32" not in (t0 or "") and "f32" not in nm:
                    continue
            bad.append(c)
        key = "%s|unsaturated" % f.name
        if bad:
            rep.bad(rule, "%s|%s" % (f.name, short(bad[0].name)), bad[0].at,
                    "%s applies %s to a float component in an alpha kernel: float components are "
                    "saturated" % (f.name, short(bad[0].name)))
        else:
            rep.ok(rule, key, f.loc, "no min / max / clamp on float components")
    rep.floor(rule, "functions of the f32 alpha kernels", n, floor)
