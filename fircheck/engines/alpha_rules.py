"""T-alpha-set and lane rules for the alpha operations (C06/C07)."""
from ..facts import CheckError
from ..sym import Sym
from .tables import enum_variants


def pixel_type_of_impls(prog):
    """pixel self type string -> PixelType variant name, read from InnerPixel::pixel_type bodies"""
    tid = prog.trait_id("pixels::InnerPixel")
    out = {}
    for imp in prog.impls_of(tid):
        m = imp["methods"].get("pixel_type")
        if not m or m not in prog.fns:
            continue
        f = prog.fns[m]
        var = None
        for blk in f.blocks:
            for st in blk["s"]:
                if st[0] == "a" and st[1] == [0] and st[2][0] == "agg" and st[2][1] == "adt" \
                        and st[2][2].endswith("pixels::PixelType"):
                    var = st[2][3][1]
        out[imp["self_ty"]] = var
    return out


def switch_variants(fn, variants_by_discr):
    """set of PixelType variant names with an explicit arm in fn's first switch on a
    PixelType discriminant"""
    sym = Sym(fn)
    for b, blk in enumerate(fn.blocks):
        t = blk["t"]
        if blk["c"] or t[0] != "sw":
            continue
        e = sym.operand(t[1])
        if e[0] == "discr":
            for (bb, j, rv, w) in fn.defs().get(t[1][1][0], []):
                if rv[0] == "discr" and fn.local_ty(rv[1][0]).lstrip("&").replace(
                        "mut ", "") == "pixels::PixelType":
                    return {variants_by_discr.get(v, "?%s" % v) for v, _ in t[2]}, b
    return None, None


def alpha_set(rep, prog, rule):
    rep.rule(rule, "the pixel types handled by MulDiv::{multiply_alpha, multiply_alpha_inplace, "
             "divide_alpha, divide_alpha_inplace}, accepted by MulDiv::is_supported, and whose "
             "AlphaMulDiv impl overrides all four methods are one and the same set")
    variants = enum_variants(prog, "pixels::PixelType")
    if not variants:
        raise CheckError("enum PixelType not found")
    sets = {}
    for name in ("multiply_alpha", "multiply_alpha_inplace", "divide_alpha", "divide_alpha_inplace",
                 "is_supported"):
        f = prog.fn_by_name("mul_div::MulDiv::%s" % name)
        rep.touch(f)
        s, b = switch_variants(f, variants)
        if s is None:
            rep.unk(rule, name, f.loc, "no switch on PixelType found")
            return
        sets[name] = s
    # impl set
    tid = prog.trait_id("alpha::AlphaMulDiv")
    pt = pixel_type_of_impls(prog)
    impl_set = set()
    partial = []
    for imp in prog.impls_of(tid):
        ms = [m for m in ("multiply_alpha", "multiply_alpha_inplace", "divide_alpha",
                          "divide_alpha_inplace") if m in imp["methods"]]
        v = pt.get(imp["self_ty"])
        if len(ms) == 4:
            impl_set.add(v)
        elif ms:
            partial.append((imp["self_ty"], ms))
    sets["AlphaMulDiv impls"] = impl_set
    rep.floor(rule, "alpha pixel types", len(impl_set), 6)
    ref = sets["AlphaMulDiv impls"]
    for k, s in sorted(sets.items()):
        if s == ref:
            rep.ok(rule, k, "", "%s" % sorted(s))
        else:
            rep.bad(rule, k, "", "%s handles %s but the AlphaMulDiv impls that override all four "
                    "methods are %s (difference %s)" % (k, sorted(s), sorted(ref),
                                                         sorted(s ^ ref)))
    for st, ms in partial:
        rep.bad(rule, "partial|%s" % st, "", "AlphaMulDiv for %s overrides only %s" % (st, ms))


# ---------------------------------------------------------------------------------------------
# which pixels an alpha division treats as transparent
_EQ_IMM = {0, 4, 8, 12, 16, 20, 24, 28}        # _CMP_{EQ,NEQ}_{OQ,UQ,OS,US}


def _is_zero_vec(e):
    from .lanepair import strip
    e = strip(e)
    if e[0] in ("call", "callat"):
        n = e[1] if e[0] == "call" else e[2]
        a = e[2] if e[0] == "call" else e[3]
        if "setzero" in n:
            return True
        if ("set1" in n or "set_ps1" in n or "splat" in n or "vdup" in n) and len(a) == 1:
            c = strip(a[0])
            return c[0] == "const" and c[1] == 0
    return False


def zero_guard(rep, prog, rule):
    import re
    from ..sym import fmt, short
    from .lanepair import strip
    rep.rule(rule, "the only pixels an alpha division sets to colour 0 instead of dividing are those "
             "with alpha = 0: every data-dependent branch of the portable divide routines and every "
             "comparison intrinsic of the SIMD divide primitives is an exact test against zero "
             "(is_zero, == 0, != 0, cmpeq/cmpneq with a zero vector, vceqz); an ordering comparison "
             "or a comparison with another constant on floating-point alpha is a violation (it "
             "zeroes or divides a different set of pixels than the other back-ends), on integer "
             "lanes it is undecided")
    n = 0
    for f in sorted(prog.fns.values(), key=lambda x: x.id):
        m = re.match(r"^alpha::(u8|u16|f32)x(\d)::(native|sse4|avx2|neon|wasm32)::divide_alpha", f.name)
        if not m:
            continue
        is_float = m.group(1) == "f32"
        alpha_ix = int(m.group(2)) - 1
        sym = Sym(f)
        if m.group(3) == "native":
            seen = set()
            for (a, b, cond, v) in sym.edge_facts():
                c = strip(cond)
                t = fmt(c)
                if t in seen or c[0] == "discr" or "len(" in t or c[0] == "ovf":
                    continue
                seen.add(t)
                rep.touch(f)
                n += 1
                key = "%s|%s" % (f.name, re.sub(r"@bb\d+", "", t)[:60])
                loc = f.block_loc(a) if hasattr(f, "block_loc") else f.loc
                what = None
                if c[0] in ("call", "callat"):
                    nm = c[1] if c[0] == "call" else c[2]
                    args = c[2] if c[0] == "call" else c[3]
                    if nm == "is_zero" and len(args) == 1:
                        what = ("zero", args[0])
                elif c[0] == "bin" and c[1] in ("Eq", "Ne"):
                    k0 = strip(c[3])
                    if k0[0] == "const" and k0[1] == 0:
                        what = ("zero", c[2])
                    elif k0[0] == "const":
                        what = ("other", "alpha is compared with %r" % (k0[1],))
                elif c[0] == "bin" and c[1] in ("Lt", "Le", "Gt", "Ge"):
                    k0 = strip(c[3])
                    if not is_float and k0[0] == "const" and (c[1], k0[1]) in (("Lt", 1), ("Le", 0), ("Gt", 0), ("Ge", 1)):
                        what = ("zero", c[2])
                    elif is_float or (k0[0] == "const" and k0[1] > 1):
                        what = ("other", "the guard is the ordering test %s" % re.sub(r"@bb\d+", "", t)[:80])
                if what is None:
                    rep.unk(rule, key, loc, "data-dependent branch not recognised as a test of alpha: %s" % t[:100])
                elif what[0] == "other":
                    rep.bad(rule, key + "|not-zero-test", loc,
                            "%s: %s; only alpha = 0 may be treated as transparent" % (f.name, what[1]))
                else:
                    mm = re.search(r"\[(\d+)\]$", fmt(strip(what[1])))
                    if mm and int(mm.group(1)) != alpha_ix:
                        rep.bad(rule, key + "|component", loc,
                                "%s: the transparency test reads component %s, alpha is component %d"
                                % (f.name, mm.group(1), alpha_ix))
                    else:
                        rep.ok(rule, key, loc, "exact zero test of %s" % fmt(what[1])[:40])
            continue
        for c in f.calls():
            nm = c.method or short(c.name)
            kind = None
            if re.match(r"^_mm(256)?_cmp(eq|neq)_(ps|epi\d+)$", nm):
                kind = "eq"
            elif re.match(r"^_mm(256)?_cmp_ps$", nm):
                cg = [x for x in c.cargs() if isinstance(x, int)]
                kind = "eq" if cg and cg[0] in _EQ_IMM else ("ord-ps" if cg else None)
                if kind is None:
                    kind = "unknown"
            elif re.match(r"^_mm(256)?_cmp(lt|le|gt|ge|nlt|nle|ngt|nge|ord|unord)_ps$", nm):
                kind = "ord-ps"
            elif re.match(r"^_mm(256)?_cmp(gt|lt)_epi\d+$", nm):
                kind = "ord-int"
            elif re.match(r"^vceqzq?_[usf]\d+$", nm):
                kind = "eqz"
            elif re.match(r"^vceqq?_[usf]\d+$", nm) or re.match(r"^[iuf]\d+x\d+_(eq|ne)$", nm):
                kind = "eq"
            elif re.match(r"^vc(gt|ge|lt|le)z?q?_([usf])\d+$", nm) or re.match(r"^[iuf]\d+x\d+_(gt|ge|lt|le)$", nm):
                kind = "ord-ps" if (re.search(r"_f\d+$", nm) or nm.startswith("f")) else "ord-int"
            if kind is None:
                continue
            rep.touch(f)
            n += 1
            key = "%s|%s" % (f.name, nm)
            args = [sym.operand(a, (c.bb, "term")) for a in c.args]
            if kind == "eqz":
                rep.ok(rule, key, c.at, "compare-equal-to-zero")
            elif kind == "eq":
                if any(_is_zero_vec(a) for a in args):
                    rep.ok(rule, key, c.at, "equality comparison with a zero vector")
                else:
                    rep.unk(rule, key, c.at, "equality comparison, the other operand is not recognised as zero")
            elif kind == "ord-ps" and is_float:
                rep.bad(rule, key + "|not-zero-test", c.at,
                        "%s: %s is an ordering comparison on floating-point pixels; only alpha = 0 may "
                        "be treated as transparent (negative and tiny alphas are divided by the "
                        "portable code)" % (f.name, nm))
            else:
                rep.unk(rule, key, c.at, "ordering comparison %s on lanes that hold non-negative "
                        "integers; equivalence with != 0 is not decided" % nm)
    rep.floor(rule, "transparency tests in the divide routines", n, 4)
