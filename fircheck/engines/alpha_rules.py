"""T-alpha-set and lane rules for the alpha operations (C06/C07)."""
from ..facts import CheckError
from ..sym import Sym
from .tables import enum_variants


def pixel_type_of_impls(prog):
    """pixel self type string -> PixelType variant name, read from InnerPixel::pixel_type bodies"""
    tid = prog.trait_id("pixels::InnerPixel")
    out = {}
    for imp in prog.impls_of(tid):
        m = imp["methods"].get("pixel_type")
        if not m or m not in prog.fns:
            continue
        f = prog.fns[m]
        var = None
        for blk in f.blocks:
            for st in blk["s"]:
                if st[0] == "a" and st[1] == [0] and st[2][0] == "agg" and st[2][1] == "adt" \
                        and st[2][2].endswith("pixels::PixelType"):
                    var = st[2][3][1]
        out[imp["self_ty"]] = var
    return out


def switch_variants(fn, variants_by_discr):
    """set of PixelType variant names with an explicit arm in fn's first switch on a
    PixelType discriminant"""
    sym = Sym(fn)
    for b, blk in enumerate(fn.blocks):
        t = blk["t"]
        if blk["c"] or t[0] != "sw":
            continue
        e = sym.operand(t[1])
        if e[0] == "discr":
            for (bb, j, rv, w) in fn.defs().get(t[1][1][0], []):
                if rv[0] == "discr" and fn.local_ty(rv[1][0]).lstrip("&").replace(
                        "mut ", "") == "pixels::PixelType":
                    return {variants_by_discr.get(v, "?%s" % v) for v, _ in t[2]}, b
    return None, None


def alpha_set(rep, prog, rule):
    rep.rule(rule, "the pixel types handled by MulDiv::{multiply_alpha, multiply_alpha_inplace, "
             "divide_alpha, divide_alpha_inplace}, accepted by MulDiv::is_supported, and whose "
             "AlphaMulDiv impl overrides all four methods are one and the same set")
    variants = enum_variants(prog, "pixels::PixelType")
    if not variants:
        raise CheckError("enum PixelType not found")
    sets = {}
    for name in ("multiply_alpha", "multiply_alpha_inplace", "divide_alpha", "divide_alpha_inplace",
                 "is_supported"):
        f = prog.fn_by_name("mul_div::MulDiv::%s" % name)
        rep.touch(f)
        s, b = switch_variants(f, variants)
        if s is None:
            rep.unk(rule, name, f.loc, "no switch on PixelType found")
            return
        sets[name] = s
    # impl set
    tid = prog.trait_id("alpha::AlphaMulDiv")
    pt = pixel_type_of_impls(prog)
    impl_set = set()
    partial = []
    for imp in prog.impls_of(tid):
        ms = [m for m in ("multiply_alpha", "multiply_alpha_inplace", "divide_alpha",
                          "divide_alpha_inplace") if m in imp["methods"]]
        v = pt.get(imp["self_ty"])
        if len(ms) == 4:
            impl_set.add(v)
        elif ms:
            partial.append((imp["self_ty"], ms))
    sets["AlphaMulDiv impls"] = impl_set
    rep.floor(rule, "alpha pixel types", len(impl_set), 6)
    ref = sets["AlphaMulDiv impls"]
    for k, s in sorted(sets.items()):
        if s == ref:
            rep.ok(rule, k, "", "%s" % sorted(s))
        else:
            rep.bad(rule, k, "", "%s handles %s but the AlphaMulDiv impls that override all four "
                    "methods are %s (difference %s)" % (k, sorted(s), sorted(ref),
                                                         sorted(s ^ ref)))
    for st, ms in partial:
        rep.bad(rule, "partial|%s" % st, "", "AlphaMulDiv for %s overrides only %s" % (st, ms))
