"""Upper bounds of non-negative SIMD lane values in the x86 alpha-division primitives
(interval evaluation over intrinsic expression trees; no execution). Used for the rule
"the operand of a float->int conversion that wraps on overflow is bounded below 2^31"."""
import re

from .deps import const_of_splat

INF = float("inf")


def _args(e):
    return e[3] if e[0] == "callat" else e[2]


def _name(e):
    return e[2] if e[0] == "callat" else e[1]


def mask_bytes(e):
    """constant bytes of a _mm_set_epi8 / _mm256_set_epi8 / _mm256_set_m128i mask, low first"""
    if not isinstance(e, tuple) or e[0] not in ("callat", "call"):
        return None
    n = _name(e)
    a = _args(e)
    if n in ("_mm_set_epi8", "_mm256_set_epi8"):
        vals = []
        for x in a:
            c = const_of_splat(x)
            if c is None:
                return None
            vals.append(c)
        return vals[::-1]
    if n == "_mm256_set_m128i" and len(a) == 2:
        hi, lo = mask_bytes(a[0]), mask_bytes(a[1])
        if hi is None or lo is None:
            return None
        return lo + hi
    return None


class LaneEval:
    """upper bound of each (non-negative) 32-bit / float lane; None = unknown"""

    def __init__(self, tracer, fn, comp_bits):
        self.tr = tracer
        self.fn = fn
        self.comp_bits = comp_bits

    def static_bytes(self, e):
        while isinstance(e, tuple) and e and e[0] == "cast":
            e = e[2]
        if isinstance(e, tuple) and e and e[0] == "static":
            st = self.tr.prog.statics.get(e[1])
            if st and "bytes" in st:
                return st["bytes"]
        return None

    def hi(self, e, ctx=None, depth=0, lane_bits=32):
        ctx = ctx or self.fn
        if depth > 40 or not isinstance(e, tuple) or not e:
            return None
        k = e[0]
        if k == "const":
            return float(e[1]) if isinstance(e[1], (int, float)) else None
        if k == "param":
            return float((1 << lane_bits) - 1)        # raw pixel data fills the lane
        if k == "cast":
            return self.hi(e[2], ctx, depth + 1, lane_bits)
        if k == "local":
            outs = [self.hi(c, cx, depth + 1, lane_bits) for (_, c, cx, _) in
                    self.tr.children(ctx, e, 0, ctx)]
            if outs and all(o is not None for o in outs):
                return max(outs)
            return None
        if k not in ("callat", "call"):
            return None
        n, a = _name(e), _args(e)
        c = const_of_splat(e)
        if c is not None and isinstance(c, (int, float)):
            return float(abs(c)) if c >= 0 else float((1 << lane_bits) - 1)
        h = lambda x, lb=lane_bits: self.hi(x, ctx, depth + 1, lb)
        if re.match(r"^_mm(256)?_(loadu_si\d+|loadl_epi64)$", n):
            return float((1 << lane_bits) - 1)
        if re.match(r"^_mm(256)?_and_(si128|si256|ps)$", n):
            vals = [h(x) for x in a]
            vals = [v for v in vals if v is not None]
            return min(vals) if vals else None
        if re.match(r"^_mm(256)?_srli_epi32$", n):
            sh = e[-1] if False else None
            # const generic shift is not in the expression; bound by lane content
            v = h(a[0])
            return v
        if re.match(r"^_mm(256)?_shuffle_epi8$", n):
            mb = mask_bytes(a[1]) if len(a) > 1 else None
            if mb is None:
                return None
            # widest group of selected bytes inside one 32-bit lane
            best = 0
            for i in range(0, len(mb), 4):
                grp = mb[i:i + 4]
                top = max([j for j, b in enumerate(grp) if b >= 0], default=-1)
                best = max(best, top + 1)
            return float((1 << (8 * best)) - 1)
        if re.match(r"^_mm(256)?_unpack(lo|hi)_epi16$", n):
            z = const_of_splat(a[1]) if len(a) > 1 else None
            if len(a) > 1 and _is_zero(a[1]):
                return float((1 << 16) - 1)
            return None
        if re.match(r"^_mm(256)?_unpack(lo|hi)_epi8$", n):
            if len(a) > 1 and _is_zero(a[1]):
                return float((1 << 8) - 1)
            return None
        if re.match(r"^_mm(256)?_cvtepi32_ps$", n) or re.match(r"^_mm(256)?_cast", n):
            return h(a[0])
        if re.match(r"^_mm(256)?_mul_ps$", n):
            x, y = h(a[0]), h(a[1])
            return x * y if x is not None and y is not None else None
        if re.match(r"^_mm(256)?_div_ps$", n):
            x = h(a[0])
            # non-zero alpha is >= 1; a zero divisor yields inf/NaN, which the conversion maps
            # to the indefinite value (handled by the kernels separately)
            return x
        if re.match(r"^_mm(256)?_min_ps$", n):
            vals = [h(x) for x in a]
            vals = [v for v in vals if v is not None]
            return min(vals) if vals else None
        if re.match(r"^_mm(256)?_(cmp\w*_ps|cmp_ps)$", n):
            return float((1 << 32) - 1)
        # ---- wasm32 simd128
        if n == "v128_and":
            vals = [h(x) for x in a]
            vals = [v for v in vals if v is not None]
            return min(vals) if vals else None
        if n in ("u8x16_swizzle", "i8x16_swizzle") and len(a) == 2:
            mb = self.static_bytes(a[1])
            if mb is None:
                return None
            best = 0
            for i in range(0, len(mb), 4):
                grp = mb[i:i + 4]
                top = max([j for j, b in enumerate(grp) if b < 16], default=-1)
                best = max(best, top + 1)
            return float((1 << (8 * best)) - 1)
        if n == "i16x8_shuffle" and len(a) == 2 and _is_zero_or_static_zero(self, a[1]):
            cg = e[6] if e[0] == "callat" and len(e) > 6 else (e[5] if e[0] == "call" and len(e) > 5 else ())
            if len(cg) == 8:
                # 32-bit lane = (cg[2i], cg[2i+1]); indices >= 8 select the zero operand
                if all(cg[2 * i + 1] >= 8 for i in range(4)):
                    return float((1 << 16) - 1)
            return None
        if n in ("f32x4_convert_i32x4", "f32x4_convert_u32x4"):
            return h(a[0])
        if n in ("i32x4_extend_low_u16x8", "i32x4_extend_high_u16x8", "u32x4_extend_low_u16x8",
                 "u32x4_extend_high_u16x8"):
            return float((1 << 16) - 1)
        if n == "f32x4_mul":
            x, y = h(a[0]), h(a[1])
            return x * y if x is not None and y is not None else None
        if n == "f32x4_add":
            x, y = h(a[0]), h(a[1])
            return x + y if x is not None and y is not None else None
        if n == "f32x4_div":
            return h(a[0])
        if n in ("f32x4_min", "f32x4_pmin"):
            vals = [h(x) for x in a]
            vals = [v for v in vals if v is not None]
            return min(vals) if vals else None
        # inlined local helper
        kids = self.tr.children(ctx, e, 0, ctx)
        if kids and kids[0][0].startswith("inline:"):
            outs = [self.hi(c, cx, depth + 1, lane_bits) for (_, c, cx, _) in kids]
            if all(o is not None for o in outs):
                return max(outs)
        return None


def _is_zero_or_static_zero(le, e):
    if _is_zero(e):
        return True
    b = le.static_bytes(e)
    return b is not None and all(x == 0 for x in b)


def _is_zero(e):
    if not isinstance(e, tuple):
        return False
    if e[0] in ("callat", "call") and re.match(r"^_mm(256)?_setzero_", _name(e)):
        return True
    return const_of_splat(e) == 0


def conversions(tracer, fn, root):
    """all float->int conversion nodes (x86, wrapping) below root, with their context"""
    out = []
    seen = set()
    stack = [(root, fn, 0)]
    while stack:
        e, ctx, depth = stack.pop()
        if not isinstance(e, tuple) or not e:
            continue
        key = (id(ctx), e)
        if key in seen:
            continue
        seen.add(key)
        if e[0] in ("callat", "call") and re.match(r"^_mm(256)?_cvtt?ps_epi32$", _name(e)):
            out.append((e, ctx))
        # wasm: an unsigned-saturated conversion re-read as signed by a narrowing op
        if e[0] in ("callat", "call") and _name(e) in ("u16x8_narrow_i32x4", "i16x8_narrow_i32x4"):
            for a in _args(e):
                aa = a
                if isinstance(aa, tuple) and aa and aa[0] == "local":
                    for (_, c, cx, _) in tracer.children(ctx, aa, depth, ctx):
                        if isinstance(c, tuple) and c[0] in ("callat", "call") and \
                                _name(c) == "u32x4_trunc_sat_f32x4":
                            out.append((c, cx))
                if isinstance(aa, tuple) and aa and aa[0] in ("callat", "call") and \
                        _name(aa) == "u32x4_trunc_sat_f32x4":
                    out.append((aa, ctx))
        for (label, child, c2, d2) in tracer.children(ctx, e, depth, ctx):
            stack.append((child, c2, d2))
    return out
