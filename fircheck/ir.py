"""Python view of the facts written by firdrv (see DESIGN.md, Appendix A)."""
import re
from collections import defaultdict

from .facts import CheckError


class Call:
    __slots__ = ("bb", "callee", "args", "dest", "target", "unwind", "at", "macro", "fn")

    def __init__(self, fn, bb, t):
        self.fn = fn
        self.bb = bb
        self.callee = t[1]
        self.args = t[2]
        self.dest = t[3]
        self.target = t[4]
        self.unwind = t[5]
        self.at = t[6]
        self.macro = t[7]

    @property
    def id(self):
        return self.callee.get("id")

    @property
    def name(self):
        return self.callee.get("name", "<indirect>")

    @property
    def res(self):
        """resolved callee id (impl method when the trait call resolves), else id"""
        return self.callee.get("res") or self.callee.get("id")

    @property
    def method(self):
        return self.callee.get("method")

    @property
    def trait(self):
        return self.callee.get("trait")

    def targs(self):
        return [a[1] for a in self.callee.get("args", []) if a[0] == "t"]

    def cargs(self):
        return [a[1] for a in self.callee.get("args", []) if a[0] == "c"]

    def __repr__(self):
        return "Call(%s @%s bb%d)" % (self.name, self.at, self.bb)


class Fn:
    def __init__(self, prog, fid, d):
        self.prog = prog
        self.id = fid
        self.d = d
        self.name = d["name"]
        self.kind = d["kind"]
        self.file = d["file"]
        self.line = d["line"]
        b = d["body"]
        self.arg_count = b["arg_count"]
        self.locals = b["locals"]
        self.blocks = b["blocks"]
        self.upvars = b.get("upvars", [])
        self._succ = None
        self._pred = None
        self._calls = None
        self._defs = None
        self._promoted = None

    def promoted(self, idx):
        """the idx-th promoted constant body as a small Fn"""
        if self._promoted is None:
            self._promoted = {}
        if idx not in self._promoted:
            bodies = self.d.get("promoted", [])
            if idx >= len(bodies):
                return None
            d = dict(self.d)
            d["body"] = bodies[idx]
            d["kind"] = "promoted"
            d.pop("promoted", None)
            self._promoted[idx] = Fn(self.prog, "%s::promoted[%d]" % (self.id, idx), d)
        return self._promoted[idx]

    def __repr__(self):
        return "Fn(%s)" % self.id

    # ---- attributes
    @property
    def tf(self):
        return set(self.d.get("tf", []))

    @property
    def is_unsafe(self):
        return bool(self.d.get("unsafe"))

    @property
    def reachable(self):
        return bool(self.d.get("reachable"))

    @property
    def root(self):
        return self.d.get("root")

    @property
    def macro(self):
        return self.d.get("macro")

    def local_ty(self, l):
        return self.locals[l][0]

    def local_name(self, l):
        return self.locals[l][1]

    def local_size(self, l):
        return self.locals[l][2]

    ROLE_TYPES = {
        "dst_view": r"^&mut impl ([a-z_0-9]+::)*ImageViewMut<",
        "src_view": r"^&impl ([a-z_0-9]+::)*ImageView<",
        "cropped_src_view": r"CroppedSrcImageView<",
    }

    def param_by_role(self, role):
        """index of the parameter that plays `role`: the one of that name, else the only
        parameter whose type fits the role (names are the author's choice, types are not)"""
        i = self.param_index(role)
        if i is not None:
            return i
        pat = self.ROLE_TYPES.get(role)
        if pat:
            c = [i for i in range(1, self.arg_count + 1) if re.search(pat, self.locals[i][0] or "")]
            if len(c) == 1:
                return c[0]
        return None

    def param_index(self, name):
        for i in range(1, self.arg_count + 1):
            if self.locals[i][1] == name:
                return i
        return None

    @property
    def loc(self):
        return "%s:%s" % (self.file, self.line)

    # ---- CFG (normal edges only; cleanup blocks ignored)
    def term(self, b):
        return self.blocks[b]["t"]

    def stmts(self, b):
        return self.blocks[b]["s"]

    def is_cleanup(self, b):
        return self.blocks[b]["c"]

    def _build(self):
        succ = []
        for i, blk in enumerate(self.blocks):
            t = blk["t"]
            k = t[0]
            if blk["c"]:
                succ.append([])
                continue
            if k == "goto":
                s = [t[1]]
            elif k == "sw":
                s = [x[1] for x in t[2]] + [t[3]]
            elif k == "drop":
                s = [t[2]]
            elif k == "call":
                s = [t[4]] if t[4] is not None else []
            elif k == "assert":
                s = [t[5]]
            else:
                s = []
            # dedupe, keep order
            seen = []
            for x in s:
                if x not in seen:
                    seen.append(x)
            succ.append(seen)
        pred = [[] for _ in self.blocks]
        for i, ss in enumerate(succ):
            for s in ss:
                pred[s].append(i)
        self._succ, self._pred = succ, pred

    @property
    def succ(self):
        if self._succ is None:
            self._build()
        return self._succ

    @property
    def pred(self):
        if self._pred is None:
            self._build()
        return self._pred

    def calls(self):
        if self._calls is None:
            self._calls = []
            for i, blk in enumerate(self.blocks):
                if blk["c"]:
                    continue
                t = blk["t"]
                if t[0] == "call":
                    self._calls.append(Call(self, i, t))
        return self._calls

    def call_in(self, b):
        t = self.blocks[b]["t"]
        if t[0] == "call" and not self.blocks[b]["c"]:
            return Call(self, b, t)
        return None

    def returns(self):
        return [i for i, blk in enumerate(self.blocks) if blk["t"][0] == "ret" and not blk["c"]]

    def defs(self):
        """local -> list of (bb, stmt_index|'term', rvalue|call) for whole-local assignments"""
        if self._defs is None:
            d = defaultdict(list)
            for i, blk in enumerate(self.blocks):
                if blk["c"]:
                    continue
                for j, st in enumerate(blk["s"]):
                    if st[0] == "a":
                        pl = st[1]
                        if "*" in pl[1:]:
                            continue      # a store through a pointer: the local is unchanged
                        d[pl[0]].append((i, j, st[2], len(pl) == 1))
                    elif st[0] == "sd":
                        d[st[1][0]].append((i, j, ["setdiscr", st[2]], False))
                t = blk["t"]
                if t[0] == "call":
                    d[t[3][0]].append((i, "term", ["callret", Call(self, i, t)], len(t[3]) == 1))
            self._defs = d
        return self._defs

    def closures(self):
        return [f for f in self.prog.fns.values() if f.d.get("parent") == self.id]


# Parameter roles of the ImageView / ImageViewMut methods, by position: the signatures are fixed
# by the traits, the *names* an implementation gives its parameters are not. Rules speak about
# roles ("the start row"), so the names are normalised when the facts are loaded.
TRAIT_METHOD_PARAMS = {
    "iter_rows": ["start_row"], "iter_rows_mut": ["start_row"],
    "iter_2_rows": ["start_y", "max_rows"], "iter_4_rows": ["start_y", "max_rows"],
    "iter_rows_with_step": ["start_y", "step", "max_rows"],
    "split_by_height": ["start_row", "height", "num_parts"],
    "split_by_height_mut": ["start_row", "height", "num_parts"],
    "split_by_width": ["start_col", "width", "num_parts"],
    "split_by_width_mut": ["start_col", "width", "num_parts"],
}


_PUBLIC_FN_TAILS = {}

# public functions whose parameter order is part of the API
PUBLIC_FN_PARAMS = {
    "crop_box::CropBox::fit_src_into_dst_size":
        (["src_width", "src_height", "dst_width", "dst_height", "centering"], ["u32", "u32", "u32", "u32"]),
}


def _canonical_trait_params(data):
    global _PUBLIC_FN_TAILS
    _PUBLIC_FN_TAILS = {_item_tail(k): v for k, v in PUBLIC_FN_PARAMS.items()}
    for k, d in data["fns"].items():
        spec = PUBLIC_FN_PARAMS.get(d.get("name")) or _PUBLIC_FN_TAILS.get(_item_tail(d.get("name") or ""))
        if spec and d.get("pub"):
            b = d.get("body") or {}
            names, tys = spec
            if b.get("arg_count") == len(names) and all(b["locals"][i + 1][0] == t for i, t in enumerate(tys)):
                for i, r in enumerate(names):
                    b["locals"][i + 1][1] = r
            continue
        m = d.get("method")
        roles = TRAIT_METHOD_PARAMS.get(m)
        if not roles or d.get("kind") == "closure":
            continue
        tr = str(d.get("trait") or d.get("impl_of") or d.get("name") or "")
        if "ImageView" not in tr and "image_view" not in tr:
            continue
        b = d.get("body") or {}
        if b.get("arg_count") != len(roles) + 1:
            continue
        for i, r in enumerate(roles):
            loc = b["locals"][i + 2]
            if loc[1] != r:
                loc[1] = r


FILE_ANCHORS = {
    "src/crop_box.rs": "crop_box::CropBox::fit_src_into_dst_size",
    "src/image_view.rs": "image_view::ImageView::split_by_height",
    "src/threading.rs": "threading::split_h_two_images_for_threading",
    "src/convolution/optimisations.rs": "convolution::optimisations::Normalizer16::new",
    "src/alpha/common.rs": "alpha::common::div_and_clip",
}


def _item_tail(name):
    """def path without its leading module segments: `a::b::Type::<T>::method` -> `Type::<T>::method`,
    `a::b::func` -> `func`"""
    segs, depth, cur = [], 0, ""
    i = 0
    while i < len(name):
        ch = name[i]
        if ch in "<([":
            depth += 1
        elif ch in ">)]":
            depth -= 1
        if depth == 0 and name.startswith("::", i):
            segs.append(cur)
            cur = ""
            i += 2
            continue
        cur += ch
        i += 1
    segs.append(cur)
    k = 0
    while k < len(segs) - 1 and re.match(r"^[a-z_][a-z0-9_]*$", segs[k]):
        k += 1
    return "::".join(segs[k:])


class Program:
    def __init__(self, data):
        self.data = data
        self.config = data["config"]
        self.cfg_name = self.config.get("cfg_name")
        _canonical_trait_params(data)
        self.fns = {k: Fn(self, k, v) for k, v in data["fns"].items()}
        self.adts = data["adts"]
        self.statics = data["statics"]
        self.impls = data["impls"]
        self.traits = data["traits"]
        self._by_name = defaultdict(list)
        for f in self.fns.values():
            self._by_name[f.name].append(f)
        self._callers = None
        self._tails = None
        self._file_now = {}

    # -- lookup
    def file_now(self, legacy):
        """the file that plays the part of `legacy` today: the file itself while it exists, else
        the file its anchor item moved to (module layout is the author's choice)"""
        if legacy not in self._file_now:
            now = legacy
            if legacy in FILE_ANCHORS and not any(f.file == legacy for f in self.fns.values()):
                try:
                    now = self.fn_by_name(FILE_ANCHORS[legacy]).file
                except CheckError:
                    pass
            self._file_now[legacy] = now
        return self._file_now[legacy]

    def adt_ids(self, last):
        """ids of the crate's ADTs whose last path segment is `last`"""
        return [k for k in self.adts if k.rsplit("::", 1)[-1] == last]

    def fn_by_name(self, name):
        """exact def_path_str match; unique or CheckError"""
        v = self._by_name.get(name, [])
        if not v:
            v = self._by_tail(name)
        if len(v) != 1:
            raise CheckError("anchor function %r: %d matches" % (name, len(v)))
        return v[0]

    def _by_tail(self, name):
        """the item moved to another module: the module path is the author's choice, the
        type and function names are what the rules mean. Unique tail match or nothing."""
        tail = _item_tail(name)
        if self._tails is None:
            self._tails = defaultdict(list)
            for f in self.fns.values():
                if f.d.get("kind") != "closure":
                    self._tails[_item_tail(f.name)].append(f)
        return self._tails.get(tail, [])

    def fns_matching(self, regex):
        r = re.compile(regex)
        return sorted((f for f in self.fns.values() if r.search(f.name)), key=lambda f: f.id)

    def fns_id_matching(self, regex):
        r = re.compile(regex)
        return sorted((f for f in self.fns.values() if r.search(f.id)), key=lambda f: f.id)

    def static(self, suffix):
        v = [(k, s) for k, s in self.statics.items() if k.endswith(suffix)]
        if len(v) != 1:
            raise CheckError("anchor static/const %r: %d matches" % (suffix, len(v)))
        return v[0][1]

    # -- traits
    def trait_id(self, suffix):
        v = [k for k in self.traits if k.endswith(suffix)]
        if not v:
            last = suffix.rsplit("::", 1)[-1]
            v = [k for k in self.traits if k.rsplit("::", 1)[-1] == last]
        if len(v) != 1:
            raise CheckError("anchor trait %r: %d matches" % (suffix, len(v)))
        return v[0]

    def impls_of(self, trait_id):
        return [i for i in self.impls if i.get("trait") == trait_id]

    def method_impls(self, trait_id, method):
        """all bodies a call to Trait::method may reach (class hierarchy): every impl's
        override, plus the trait default if some impl does not override it."""
        out = []
        need_default = False
        for imp in self.impls_of(trait_id):
            m = imp["methods"].get(method)
            if m and m in self.fns:
                out.append(self.fns[m])
            else:
                need_default = True
        tr = self.traits.get(trait_id)
        if tr and method in tr["methods"]:
            tm = tr["methods"][method]
            if tm["default"] and (need_default or not self.impls_of(trait_id)):
                f = self.fns.get(tm["id"])
                if f:
                    out.append(f)
        return out

    def call_targets(self, call):
        """resolved local targets of a call (possibly several for unresolved trait calls)"""
        cid = call.callee.get("id")
        if cid is None:
            return []
        res = call.callee.get("res")
        if res and res in self.fns:
            return [self.fns[res]]
        tr = call.callee.get("trait")
        if tr and tr in self.traits:
            return self.method_impls(tr, call.callee["method"])
        if cid in self.fns:
            return [self.fns[cid]]
        return []

    def callers(self):
        if self._callers is None:
            c = defaultdict(list)
            for f in self.fns.values():
                for call in f.calls():
                    for t in self.call_targets(call):
                        c[t.id].append(call)
            self._callers = c
        return self._callers


# ---- operand / place helpers -------------------------------------------------------------

def op_place(op):
    """place of a copy/move operand, else None"""
    if op[0] in ("c", "m"):
        return op[1]
    return None


def op_local(op):
    """local of a copy/move operand with no projection, else None"""
    if op[0] in ("c", "m") and len(op[1]) == 1:
        return op[1][0]
    return None


def op_const(op):
    """python value of a scalar constant operand, else None"""
    if op[0] == "k":
        v = op[2]
        if isinstance(v, (int, bool)):
            return v
        if isinstance(v, list) and v and v[0] == "f":
            return float(v[1])
        if isinstance(v, str):
            try:
                return int(v)
            except ValueError:
                return None
    return None


def op_is_const(op):
    return op[0] == "k"


def op_fn(op):
    """callee dict if the operand is a zero-sized fn item constant"""
    if op[0] == "k" and isinstance(op[2], list) and op[2] and op[2][0] == "fn":
        return op[2][1]
    return None


def place_str(fn, pl):
    l = pl[0]
    nm = fn.local_name(l)
    s = nm if nm else "_%d" % l
    for p in pl[1:]:
        if p == "*":
            s = "(*%s)" % s
        elif isinstance(p, list):
            if p[0] == "f":
                s += ".%s" % (p[2] if p[2] is not None else p[1])
            elif p[0] == "i":
                s += "[_%d]" % p[1]
            elif p[0] == "ci":
                s += "[%s%d]" % ("-" if p[3] else "", p[1])
            elif p[0] == "dc":
                s += " as %s" % p[2]
            elif p[0] == "sub":
                s += "[%d..%s%d]" % (p[1], "-" if p[3] else "", p[2])
        else:
            s += ".%s" % p
    return s


def op_str(fn, op):
    if op[0] in ("c", "m"):
        return place_str(fn, op[1])
    if op[0] == "k":
        v = op[2]
        if isinstance(v, list):
            if v[0] == "f":
                return v[1]
            if v[0] == "fn":
                return v[1]["name"]
            return str(v[1])
        return str(v)
    return str(op)
