"""Human-readable MIR dump (development aid)."""
import re

from .ir import op_str, place_str


def rv_str(fn, rv):
    k = rv[0]
    if k == "use":
        return op_str(fn, rv[1])
    if k == "bin":
        return "%s(%s, %s)" % (rv[1], op_str(fn, rv[2]), op_str(fn, rv[3]))
    if k == "un":
        return "%s(%s)" % (rv[1], op_str(fn, rv[2]))
    if k == "cast":
        return "%s as %s [%s]" % (op_str(fn, rv[2]), rv[3], rv[1])
    if k == "ref":
        return "&%s %s" % (rv[1], place_str(fn, rv[2]))
    if k == "raw":
        return "&raw %s %s" % (rv[1], place_str(fn, rv[2]))
    if k == "agg":
        return "%s %s%s {%s}" % (rv[1], rv[2], rv[3] if rv[3] else "",
                                 ", ".join(op_str(fn, o) for o in rv[4]))
    if k == "discr":
        return "discr(%s)" % place_str(fn, rv[1])
    if k == "rep":
        return "[%s; %s]" % (op_str(fn, rv[1]), rv[2])
    return str(rv)


def dump_fn(fn):
    d = fn.d
    print("=" * 100)
    print("fn %s\n   id=%s  %s:%s kind=%s unsafe=%s tf=%s reachable=%s macro=%s" % (
        fn.name, fn.id, fn.file, fn.line, fn.kind, d.get("unsafe"), d.get("tf"),
        d.get("reachable"), d.get("macro")))
    if fn.kind == "closure":
        print("   captures:", d.get("captures"), "upvars:", fn.upvars)
    for i, l in enumerate(fn.locals):
        if i <= fn.arg_count or l[1]:
            print("   _%d: %s %s" % (i, l[0], "(%s)" % l[1] if l[1] else ""))
    for i, blk in enumerate(fn.blocks):
        if blk["c"]:
            continue
        print(" bb%d:" % i)
        for st in blk["s"]:
            if st[0] == "a":
                print("     %s = %s   ; %s %s" % (place_str(fn, st[1]), rv_str(fn, st[2]),
                                                  st[3].split("/")[-1], st[4] or ""))
            else:
                print("     %s" % st)
        t = blk["t"]
        if t[0] == "call":
            c = t[1]
            nm = c.get("name", "<indirect %s>" % c.get("op"))
            extra = ""
            if c.get("res"):
                extra = " =>" + c["res"]
            print("     %s = %s%s(%s) -> bb%s   ; %s %s" % (
                place_str(fn, t[3]), nm, extra, ", ".join(op_str(fn, o) for o in t[2]), t[4],
                t[6].split("/")[-1], t[7] or ""))
            if c.get("args"):
                print("          generic args: %s" % c["args"])
        elif t[0] == "sw":
            print("     switch %s : %s -> %s otherwise bb%d   ; %s" % (
                op_str(fn, t[1]), t[4], ["%s->bb%d" % (v, b) for v, b in t[2]], t[3],
                t[5].split("/")[-1]))
        elif t[0] == "assert":
            print("     assert %s == %s [%s](%s) -> bb%d  ; %s" % (
                op_str(fn, t[1]), t[2], t[3], ", ".join(op_str(fn, o) for o in t[4]), t[5],
                t[7].split("/")[-1]))
        elif t[0] == "drop":
            print("     drop(%s) -> bb%d" % (place_str(fn, t[1]), t[2]))
        else:
            print("     %s" % t)


def dump(prog, regex):
    r = re.compile(regex)
    for f in sorted(prog.fns.values(), key=lambda f: f.id):
        if r.search(f.name) or r.search(f.id):
            dump_fn(f)
