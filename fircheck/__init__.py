"""fircheck — static analyses over the facts extracted by firdrv (see /verif/DESIGN.md)."""
