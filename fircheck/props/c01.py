"""C01 — convolution equals the ideal separable filter: plumbing clauses only (DESIGN §4 C01)."""
from ..engines import axis, dispatch_rules, formulas
from ..engines.tables import Switch, enum_variants
from ..engines.validators import closure_return
from ..facts import CheckError
from ..progs import programs
from ..sym import Sym, fmt, short


def axis_rule(rep, prog, rule):
    rep.rule(rule, "in do_convolution every precompute_coefficients call gets inputs of one axis "
             "(in_size, in0, in1, out_size all horizontal or all vertical); coefficients of the "
             "horizontal axis flow only into horiz_convolution and vertical ones into "
             "vert_convolution; the pass offset is of the other axis (or 0); every temp image is "
             "requested as (horizontal extent, vertical extent)")
    f = prog.fn_by_name("resizer::Resizer::do_convolution")
    rep.touch(f)
    sym = Sym(f)
    K = axis.Kinds(prog, f, sym)
    n = 0
    # coefficient closures
    for g in f.closures():
        gs = Sym(g)
        for c in g.calls():
            if c.name.endswith("precompute_coefficients"):
                n += 1
                rep.touch(g)
                # captured operands from the parent
                cap = None
                for blk in f.blocks:
                    for st in blk["s"]:
                        if st[0] == "a" and st[2][0] == "agg" and st[2][1] == "closure" \
                                and st[2][2] == g.id:
                            cap = [sym.operand(o) for o in st[2][4]]
                from ..engines.validators import subst
                p1 = ("param", 1, g.local_name(1))
                mapping = {("field", p1, i): x for i, x in enumerate(cap or [])}
                kinds = []
                for a in c.args[:4]:
                    kinds.append(K.kind(subst(gs.operand(a), mapping)))
                pure = {k for k in kinds if k is not None}
                key = "precompute|%s" % ("X" if pure == {"X"} else "Y" if pure == {"Y"} else "mixed")
                if len(pure) == 1 and "T" not in pure:
                    rep.ok(rule, "precompute#%d" % n, c.at, "inputs %s" % kinds)
                elif not pure:
                    rep.unk(rule, "precompute#%d" % n, c.at, "the axis of the inputs is not recognised: %s"
                            % [fmt(subst(gs.operand(a), mapping))[:40] for a in c.args[:4]])
                else:
                    rep.bad(rule, "precompute|mixed#%d" % n, c.at, "precompute_coefficients(in_size, "
                            "in0, in1, out_size) receives kinds %s: %s" % (
                                kinds, [fmt(subst(gs.operand(a), mapping))[:50] for a in c.args[:4]]))
    rep.floor(rule, "precompute_coefficients calls", n, 2)
    m = 0
    for c in f.calls():
        nm = c.method or short(c.name)
        if nm in ("horiz_convolution", "vert_convolution") and c.trait:
            m += 1
            want_coeff = "X" if nm == "horiz_convolution" else "Y"
            want_off = "Y" if nm == "horiz_convolution" else "X"
            ck = K.kind(sym.operand(c.args[3]))
            ok_ = K.kind(sym.operand(c.args[2]))
            key = "%s#%d" % (nm, m)
            if ck == want_coeff and ok_ in (None, want_off):
                rep.ok(rule, key, c.at, "coeffs %s, offset %s" % (ck, ok_))
            elif ck not in (want_coeff,):
                rep.bad(rule, key + "|coeffs", c.at, "%s receives coefficients of kind %s (%s)" % (
                    nm, ck, fmt(sym.operand(c.args[3]))[:80]))
            else:
                rep.bad(rule, key + "|offset", c.at, "%s receives an offset of kind %s (%s); a "
                        "horizontal pass is offset along rows, a vertical pass along columns" % (
                            nm, ok_, fmt(sym.operand(c.args[2]))[:80]))
        if c.name.endswith("get_temp_image_from_buffer"):
            m += 1
            wk, hk = K.kind(sym.operand(c.args[1])), K.kind(sym.operand(c.args[2]))
            key = "temp#%d" % m
            if wk in ("X", None) and hk in ("Y", None) and (wk or hk):
                rep.ok(rule, key, c.at, "temp image (%s, %s)" % (wk, hk))
            else:
                rep.bad(rule, key, c.at, "temp image requested as (width: %s = %s, height: %s = %s)"
                        % (wk, fmt(sym.operand(c.args[1]))[:60], hk,
                           fmt(sym.operand(c.args[2]))[:60]))
    rep.floor(rule, "pass / temp-image calls", m, 8)


def alg_table(rep, prog, rule):
    rep.rule(rule, "resize_typed routes Nearest to resample_nearest, Convolution to "
             "resample_convolution(adaptive = true), Interpolation to resample_convolution("
             "adaptive = false), SuperSampling to resample_super_sampling, which itself convolves "
             "with adaptive = true; the use_alpha flag passed on is options.mul_div_alpha")
    from ..engines import flow as _flow
    f = _flow.pipeline_body(prog)
    rep.touch(f)
    sym = Sym(f)
    variants = enum_variants(prog, "resizer::ResizeAlg")
    sw = None
    for b, blk in enumerate(f.blocks):
        t = blk["t"]
        if blk["c"] or t[0] != "sw":
            continue
        e = sym.operand(t[1])
        if e[0] == "discr" and "algorithm" in fmt(e):
            sw = Switch(f, b)
    if sw is None or not variants:
        rep.unk(rule, "switch", f.loc, "switch on options.algorithm not found")
        return
    want = {"Nearest": ("resample_nearest", None), "Convolution": ("resample_convolution", True),
            "Interpolation": ("resample_convolution", False),
            "SuperSampling": ("resample_super_sampling", None)}
    seen = 0
    from ..cfg import reachable_from
    from ..engines.formulas import _locals_in, _project
    from ..engines.validators import subst as esubst
    RESAMPLERS = ("resample_nearest", "resample_convolution", "resample_super_sampling")
    for v, tgt in sw.arms:
        vn = variants.get(v)
        if vn not in want:
            continue
        seen += 1
        fn_want, adaptive = want[vn]
        key = vn
        # the resampler calls this arm can reach (its own blocks and whatever follows the match)
        reach = reachable_from(f, tgt, blocked={sw.bb})
        calls = [c for c in f.calls() if c.bb in reach and prog.call_targets(c)
                 and c.name.rsplit("::", 1)[-1] in RESAMPLERS]
        names = sorted({c.name.rsplit("::", 1)[-1] for c in calls})
        if names != [fn_want]:
            if len(names) == 1:
                rep.bad(rule, key + "|target", f.term(sw.bb)[5], "ResizeAlg::%s is routed to %s, "
                        "expected %s" % (vn, names, fn_want))
            else:
                rep.unk(rule, key, f.term(sw.bb)[5], "ResizeAlg::%s can reach %s" % (vn, names))
            continue
        if len(calls) != 1:
            rep.unk(rule, key, f.term(sw.bb)[5], "%d calls of %s reachable from the arm" % (len(calls), fn_want))
            continue
        c = calls[0]
        if adaptive is not None:
            a = _arg_named(prog, c, sym, "adaptive_kernel_size")
            if a is None:
                rep.unk(rule, key, c.at, "argument `adaptive_kernel_size` of %s not found (neither a "
                        "parameter nor a field of a struct argument)" % fn_want)
                continue
            arm = sw.arm_blocks(tgt) | {tgt}
            for _ in range(4):
                # a value selected by the match: take the definition made in this arm
                ls = [l for l in _locals_in(a) if len(f.defs().get(l[1], [])) > 1]
                if not ls:
                    break
                L = ls[0]
                ds = [d for d in f.defs()[L[1]] if d[0] in arm and d[3]]
                if len(ds) != 1:
                    break
                a = _project(esubst(a, {L: sym.rvalue(ds[0][2], ds[0][0], (ds[0][0], ds[0][1]))}))
            while a[0] == "cast":
                a = a[2]
            if a[0] != "const":
                rep.unk(rule, key, c.at, "adaptive_kernel_size = %s not resolved for ResizeAlg::%s" % (fmt(a)[:60], vn))
                continue
            if bool(a[1]) != adaptive:
                rep.bad(rule, key + "|adaptive", c.at, "ResizeAlg::%s passes adaptive_kernel_size "
                        "= %s, expected %s" % (vn, fmt(a), adaptive))
                continue
        ua = _arg_named(prog, c, sym, "use_alpha") if vn != "Nearest" else None
        if ua is None and vn != "Nearest":
            rep.unk(rule, key, c.at, "argument `use_alpha` of %s not found" % fn_want)
            continue
        if ua is not None and "mul_div_alpha" not in fmt(ua):
            rep.bad(rule, key + "|use_alpha", c.at, "use_alpha argument is %s" % fmt(ua))
            continue
        rep.ok(rule, key, c.at, "%s -> %s%s" % (vn, fn_want, "" if adaptive is None else
                                               " adaptive=%s" % adaptive))
    rep.floor(rule, "ResizeAlg arms", seen, 4)
    g = prog.fn_by_name("resizer::Resizer::resample_super_sampling")
    gs = Sym(g)
    rep.touch(g)
    for i, c in enumerate([c for c in g.calls() if c.name.endswith("resample_convolution")]):
        a = _arg_named(prog, c, gs, "adaptive_kernel_size")
        if a is None:
            rep.unk(rule, "supersampling#%d" % i, c.at, "argument `adaptive_kernel_size` not found")
        elif a == ("const", True, "bool"):
            rep.ok(rule, "supersampling#%d" % i, c.at, "adaptive = true")
        else:
            rep.bad(rule, "supersampling|adaptive#%d" % i, c.at, "SuperSampling convolves with "
                    "adaptive_kernel_size = %s" % fmt(a))


def _consts_compared(prog, fn, depth=0):
    """absolute values of the constants the (abs of the) first parameter is compared with,
    following local helper calls that receive the parameter"""
    out = []
    sym = Sym(fn)

    def is_arg(e):
        s = fmt(e)
        return e[0] in ("param", "local") or "abs(" in s or s.startswith("x")
    for blk in fn.blocks:
        if blk["c"]:
            continue
        for st in blk["s"]:
            if st[0] == "a" and st[2][0] == "bin" and st[2][1] in ("Lt", "Le", "Gt", "Ge", "Eq", "Ne"):
                a, b = sym.operand(st[2][2]), sym.operand(st[2][3])
                for x, y in ((a, b), (b, a)):
                    if y[0] == "const" and isinstance(y[1], (int, float)) and x[0] != "const":
                        out.append(abs(float(y[1])))
            if st[0] == "a" and st[2][0] == "agg" and st[2][1] == "adt" and \
                    st[2][2].endswith("ops::range::Range"):
                for o in st[2][4]:
                    e = sym.operand(o)
                    if e[0] == "const" and isinstance(e[1], (int, float)):
                        out.append(abs(float(e[1])))
    for c in fn.calls():
        if c.name.endswith("::contains") and c.args:
            r = sym.operand(c.args[0])
            if r[0] == "agg" and r[2].endswith("ops::range::Range"):
                for e in r[4]:
                    v = _fold(e)
                    if v is not None:
                        out.append(abs(v))
    return out


def _fold(e):
    if e[0] == "const" and isinstance(e[1], (int, float)):
        return float(e[1])
    if e[0] == "un" and e[1] == "Neg":
        v = _fold(e[2])
        return -v if v is not None else None
    return None


def support(rep, prog, rule):
    rep.rule(rule, "for each built-in row of get_filter_func the declared support is >= the "
             "largest |constant| the kernel function compares its argument with (its cut-off); a "
             "smaller support truncates the documented kernel")
    f = prog.fn_by_name("convolution::filters::get_filter_func")
    rep.touch(f)
    sym = Sym(f)
    n = 0
    for blk in f.blocks:
        if blk["c"]:
            continue
        for st in blk["s"]:
            if st[0] == "a" and st[2][0] == "agg" and st[2][1] == "tuple" and len(st[2][4]) == 2:
                a, b = sym.operand(st[2][4][0]), sym.operand(st[2][4][1])
                fa = a
                while fa[0] == "cast":
                    fa = fa[2]
                if fa[0] != "fnconst" or b[0] != "const":
                    continue
                kf = prog.fns.get(fa[1])
                if kf is None:
                    continue
                n += 1
                rep.touch(kf)
                cs = _consts_compared(prog, kf)
                key = kf.name.rsplit("::", 1)[-1]
                if not cs:
                    rep.unk(rule, key, st[3], "no cut-off constant found in %s" % kf.name)
                elif float(b[1]) >= max(cs):
                    rep.ok(rule, key, st[3], "support %s >= cut-off %s" % (b[1], max(cs)))
                else:
                    rep.bad(rule, key, st[3], "%s is declared with support %s but is non-zero up "
                            "to |x| < %s" % (key, b[1], max(cs)))
    rep.floor(rule, "built-in filter rows", n, 7)


def window_clamp(rep, prog, rule):
    rep.rule(rule, "in precompute_coefficients the first contributing pixel is derived through "
             "max(.., 0.) and the end of the window through min(.., in_size); the stored weights "
             "are divided by their sum")
    f = prog.fn_by_name("convolution::precompute_coefficients")
    rep.touch(f)
    sym = Sym(f)
    for name, fn_, bound in (("x_min", "max", "0"), ("x_max", "min", "in_size")):
        ls = [i for i, l in enumerate(f.locals) if l[1] == name]
        if len(ls) != 1:
            rep.unk(rule, name, f.loc, "local %s not found" % name)
            continue
        e = sym.local(ls[0])
        s = fmt(e)
        has = ("%s(" % fn_) in s and (bound == "0" and ", 0.0)" in s or bound in s)
        alt = "clamp(" in s or "saturating" in s or ("max(" in s and "min(" in s)
        if has:
            rep.ok(rule, name, f.loc, s[:120])
        elif alt:
            rep.unk(rule, name, f.loc, "%s is bounded in an unrecognised form: %s" % (name, s[:120]))
        else:
            rep.bad(rule, name, f.loc, "%s = %s is not clamped with %s(.., %s): the window can "
                    "start before / end after the source row" % (name, s[:160], fn_, bound))
    # normalisation
    found = False
    # the function, its closures and the helpers of the same file it calls (two levels)
    scope, frontier = [], [f]
    for _ in range(3):
        nxt = []
        for g in frontier:
            if g in scope:
                continue
            scope.append(g)
            nxt += list(g.closures())
            for c in g.calls():
                for tg in prog.call_targets(c):
                    if tg.file == f.file and tg.kind != "closure":
                        nxt.append(tg)
        frontier = nxt
    for g in scope:
        for blk in g.blocks:
            for st in blk["s"]:
                if not (st[0] == "a" and st[2][0] == "bin" and st[2][1] == "Div"):
                    continue
                through_ref = "*" in st[1][1:]          # `*w /= sum` on an element of the vector
                if g is f:
                    # the scale / window computations of the function itself divide too: there only
                    # an in-place division of an element counts
                    if through_ref:
                        found = True
                    continue
                if through_ref or (g.local_ty(st[1][0]) if len(st[1]) == 1 else "f64") in ("f64", None):
                    found = True
    if found:
        rep.ok(rule, "normalise", f.loc, "weights divided by their sum")
    else:
        rep.bad(rule, "normalise", f.loc, "no division of the weights by their sum found")


def _arg_named(prog, c, sym, name):
    """the value a call passes for the callee's parameter `name`, also when the options travel in
    a struct argument (then the field of the aggregate built at the call site)"""
    tg = prog.call_targets(c)
    if len(tg) == 1:
        g = tg[0]
        for i in range(1, g.arg_count + 1):
            if g.local_name(i) == name and i - 1 < len(c.args):
                return sym.operand(c.args[i - 1], (c.bb, "term"))
    for a in c.args:
        e = sym.operand(a, (c.bb, "term"))
        while isinstance(e, tuple) and e and e[0] in ("ref", "deref"):
            e = e[1]
        if isinstance(e, tuple) and e and e[0] == "agg" and e[1] == "adt":
            adt = prog.adts.get(e[2])
            if adt and len(adt["variants"]) == 1:
                fields = [x[0] for x in adt["variants"][0]["fields"]]
                if name in fields and fields.index(name) < len(e[4]):
                    return e[4][fields.index(name)]
    return None


def supersampling_size(rep, prog, rule):
    """the nearest-neighbour intermediate image of SuperSampling"""
    from ..sym import Sym, fmt
    rep.rule(rule, "the intermediate image of resample_super_sampling is the cropped source reduced "
             "by ONE factor on both axes: width = round(crop.width / f), height = "
             "round(crop.height / f) with the same f (the smaller of the two scale factors divided "
             "by the multiplicity), as documented; the second step is then the convolution of that "
             "image. Sizes that do not depend on the crop box, or two different divisors, reduce "
             "the axes by different factors (the less reduced axis of the documented image is "
             "sub-sampled more coarsely and convolved with another kernel width): violation; any "
             "other form is undecided")
    fs = [f for f in prog.fns.values() if f.name.endswith("Resizer::resample_super_sampling")]
    if len(fs) != 1:
        rep.unk(rule, "anchor", "", "%d candidates for resample_super_sampling" % len(fs))
        return
    f = fs[0]
    rep.touch(f)
    sym = Sym(f)
    sites = [c for c in f.calls() if c.name.rsplit("::", 1)[-1].startswith("get_temp_image_from_buffer")]
    rep.floor(rule, "intermediate images of resample_super_sampling", len(sites), 1)

    def core(e):
        while isinstance(e, tuple) and e:
            if e[0] == "cast":
                e = e[2]
            elif e[0] in ("call", "callat") and (e[1] if e[0] == "call" else e[2]) in ("round", "ceil", "floor", "max", "min") \
                    and len(e[2] if e[0] == "call" else e[3]) >= 1 and \
                    (e[1] if e[0] == "call" else e[2]) == "round":
                e = (e[2] if e[0] == "call" else e[3])[0]
            else:
                break
        return e
    for c in sites:
        w = core(sym.operand(c.args[1], (c.bb, "term")))
        h = core(sym.operand(c.args[2], (c.bb, "term")))
        key = "resample_super_sampling|intermediate-size"
        sw, sh = fmt(w), fmt(h)
        if "crop_box" not in sw and "crop" not in sw or ("crop_box" not in sh and "crop" not in sh):
            rep.bad(rule, key + "|not-from-crop", c.at,
                    "the intermediate image is %s x %s: not derived from the crop box, so the two axes "
                    "are not reduced by one common factor (only a resize that keeps the aspect ratio "
                    "gets the documented image)" % (sw[:90], sh[:90]))
            continue
        if w[0] == "bin" and w[1] == "Div" and h[0] == "bin" and h[1] == "Div":
            nw, nh = fmt(w[2]), fmt(h[2])
            if w[3] == h[3] and nw.endswith(".width") and nh.endswith(".height"):
                rep.ok(rule, key, c.at, "crop.width / f x crop.height / f with f = %s" % fmt(w[3])[:100])
            elif w[3] != h[3]:
                rep.bad(rule, key + "|two-factors", c.at,
                        "width is divided by %s, height by %s: the axes are reduced by different factors"
                        % (fmt(w[3])[:80], fmt(h[3])[:80]))
            else:
                rep.unk(rule, key, c.at, "numerators %s / %s" % (nw[:60], nh[:60]))
        else:
            rep.unk(rule, key, c.at, "sizes %s x %s" % (sw[:80], sh[:80]))


def run(rep, tier):
    cfgs = ["x86"] if tier == "quick" else ["x86", "x86-rayon", "arm", "wasm"]
    for cfg, prog in programs(cfgs):
        rep.set_cfg(cfg)
        rep.call(axis_rule, rep, prog, "C01.axis")
        rep.call(alg_table, rep, prog, "C01.alg-table")
        rep.call(support, rep, prog, "C01.support")
        rep.call(window_clamp, rep, prog, "C01.window-clamp")
        rep.call(formulas.coefficients_formula, rep, prog, "C01.formula")
        rep.call(formulas.quantise, rep, prog, "C01.quantise")
        rep.call(formulas.quantised_untouched, rep, prog, "C01.coefficients-untouched")
        rep.call(dispatch_rules.precision_reach, rep, prog, "C01.precision-reach")
        from ..engines import siblings
        rep.call(siblings.forwarded_args, rep, prog, "C01.forwarded-options")
        rep.call(supersampling_size, rep, prog, "C01.supersampling-size")
        from ..engines import loadwidth as _lw
        rep.call(_lw.cursor_advance, rep, prog, "C01.cursor-advance", {"x86": 16, "x86-rayon": 16, "wasm": 4}.get(cfg, 0))
        from ..engines import validators
        rep.call(validators.crop_passthrough, rep, prog, "C01.crop-passthrough")
        # every row of a pass is convolved: the rows after the last full group of four too
        from ..engines import row_coverage
        rep.call(row_coverage.group_tail, rep, prog, "C01.kernel-rows")
        from ..engines import simd_rules as _simd
        rep.call(_simd.native_clip, rep, prog, "C01.native-clip")
        rep.call(_simd.tail_initial, rep, prog, "C01.tail-initial", {"x86": 4}.get(cfg, 1))
        if cfg.startswith("x86"):
            from ..engines import lanepair
            rep.call(lanepair.pairing, rep, prog, "C01.lane-pairing")
        # "rounding is to nearest (single-pass results are within half a unit)": the rounding terms
        # that reach every final shift total exactly half an output unit
        from ..engines import roundbudget, simd_rules
        rep.call(simd_rules.f64_accumulate, rep, prog, "C01.f64-accumulate", {"x86": 100, "x86-rayon": 100}.get(cfg, 8))
        rep.call(simd_rules.arith_shift, rep, prog, "C01.arith-shift", {"x86": 30, "x86-rayon": 30, "arm": 20, "wasm": 5}.get(cfg, 5))
        rep.call(roundbudget.budget, rep, prog, "C01.round-budget", {"x86": 110, "arm": 60, "wasm": 55}.get(cfg, 40))
