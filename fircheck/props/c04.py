"""C04 — geometry validation accepts exactly the regions inside the image (DESIGN §4 C04)."""
from ..engines import ranges, validators, type_tables
from ..progs import programs
from . import c03

VALIDATOR_FILES = ("src/crop_box.rs", "src/images/")


def run(rep, tier):
    cfgs = ["x86"] if tier == "quick" else ["x86", "x86-rayon", "arm"]
    for cfg, prog in programs(cfgs):
        rep.set_cfg(cfg)
        rep.call(validators.crop_f64, rep, prog, "C04.crop-f64")
        rep.call(validators.crop_u32, rep, prog, "C04.crop-u32")
        rep.call(validators.buffer_validators, rep, prog, "C04.buffers")
        rep.call(validators.size_exact, rep, prog, "C04.size-exact")
        rep.call(validators.validators_no_panic, rep, prog, "C04.no-panic")
        rep.call(validators.align_reject, rep, prog, "C04.align-reject")
        rep.call(validators.crop_validated_first, rep, prog, "C04.crop-validated-first")
        rep.call(validators.constructors_validate, rep, prog, "C04.constructors")
        rep.call(validators.unchecked_crop, rep, prog, "C04.unchecked-crop")
        rep.call(validators.crop_route, rep, prog, "C04.crop-route")
        rep.call(type_tables.align_table, rep, prog, "C04.align-table")
        # "an accepted view only ever exposes rows of exactly its width"
        from ..engines import index_rules
        rep.call(index_rules.cropped_row_slices, rep, prog, "C04.row-width")
        n = c03.arith(rep, prog, "C04.arith", only=lambda f: any(
            f.file == prog.file_now(s) or f.file.startswith(s) for s in VALIDATOR_FILES))
        rep.floor("C04.arith", "arithmetic asserts in validators/containers", n, 30)
