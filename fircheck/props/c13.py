"""C13 — the result does not depend on the container or memory layout (clauses)."""
import re

from ..engines import flow, index_rules, witness, loadwidth
from ..progs import programs
from ..sym import Sym, fmt, short

CONTAINERS = ("TypedImage<", "TypedImageRef<", "TypedCroppedImage<", "TypedCroppedImageMut<",
              "images::image::Image<", "ImageRef<", "CroppedImage<", "CroppedImageMut<",
              "UnsafeImageMut<")
ALIGN = {"u8": 1, "i8": 1, "u16": 2, "i16": 2, "u32": 4, "i32": 4, "f32": 4, "u64": 8, "i64": 8,
         "f64": 8, "usize": 8, "u128": 16}


def parametric(rep, prog, rule):
    rep.rule(rule, "no kernel (convolution::*, alpha::*) and no *_typed entry point names a "
             "concrete image container in its signature: images are `impl ImageView / "
             "ImageViewMut`, so by parametricity a kernel observes a container only through the "
             "trait methods")
    n = 0
    bad = 0
    for f in sorted(prog.fns.values(), key=lambda x: x.id):
        if f.kind == "closure":
            continue
        is_kernel = f.name.startswith(("convolution::", "alpha::")) or f.name.endswith("_typed") \
            or f.name.startswith(("<pixels::", "threading::")) \
            or f.file == prog.file_now("src/threading.rs")
        if not is_kernel:
            continue
        n += 1
        for ty in f.d.get("inputs", []):
            if any(c in ty for c in CONTAINERS):
                bad += 1
                rep.touch(f)
                rep.bad(rule, f.name, f.loc, "%s takes the concrete container type %s: its "
                        "behaviour can depend on the container kind" % (f.name, ty))
    rep.floor(rule, "kernel / typed entry signatures", n, 300)
    if not bad:
        rep.ok(rule, "signatures", "", "%d kernel and typed-entry signatures mention no concrete "
               "container (positive control: the rule matches `TypedImage<` in "
               "get_temp_image_from_buffer's return type: %s)" % (
                   n, any("TypedImage<" in prog.fn_by_name(
                       "resizer::get_temp_image_from_buffer").d.get("output", "") for _ in [0])))


def typed_image_rows(rep, prog, rule):
    rep.rule(rule, "TypedImage/TypedImageRef rows are chunks of exactly self.width pixels "
             "starting at start_row * self.width; cropped views slice [left, left+width) of rows "
             "top + start_row .. (see C03.index-rows)")
    n = 0
    for f in sorted(prog.fns.values(), key=lambda x: x.id):
        if f.d.get("method") not in ("iter_rows", "iter_rows_mut"):
            continue
        st = f.d.get("self_ty", "")
        if not st.startswith(("images::typed_image::TypedImage", "images::typed_image::TypedImageRef")):
            continue
        n += 1
        rep.touch(f)
        sym = Sym(f)
        wfield = ("field", ("param", 1, "self"), "width")
        chunks = [c for c in f.calls() if short(c.name) in ("chunks_exact", "chunks_exact_mut")]
        gets = [c for c in f.calls() if short(c.name) in ("get", "get_mut")]
        key = f.name
        ok = True
        detail = []
        real = []
        for c in chunks:
            sz = sym.operand(c.args[1], (c.bb, "term"))
            base = sz
            while base[0] == "cast":
                base = base[2]
            if base == ("const", 1, "usize"):
                continue        # the empty-image branch
            real.append(c)
            if base != wfield:
                ok = False
                detail.append("rows are chunks of %s pixels" % fmt(sz))
        for c in gets:
            r = sym.operand(c.args[1], (c.bb, "term"))
            if r[0] == "agg" and r[4]:
                s = r[4][0]
                while s[0] == "cast":
                    s = s[2]
                good = s[0] == "bin" and s[1] == "Mul" and \
                    {fmt(_strip(s[2])), fmt(_strip(s[3]))} == {"start_row", "self.width"}
                if not good:
                    ok = False
                    detail.append("rows start at element %s" % fmt(s))
        if not real:
            rep.unk(rule, key, f.loc, "no chunks_exact(width) found")
        elif ok:
            rep.ok(rule, key, f.loc, "chunks of self.width from start_row * self.width")
        else:
            rep.bad(rule, key, f.loc, "; ".join(detail))
    rep.floor(rule, "contiguous row iterators", n, 3)


def _strip(e):
    while e[0] == "cast":
        e = e[2]
    return e


DYNAMIC = [
    ("resizer::Resizer::resize", "dst_image"),
    ("mul_div::MulDiv::multiply_alpha", "dst_image"), ("mul_div::MulDiv::multiply", "dst_image"),
    ("mul_div::MulDiv::multiply_alpha_inplace", "image"), ("mul_div::MulDiv::multiply_inplace", "image"),
    ("mul_div::MulDiv::divide_alpha", "dst_image"), ("mul_div::MulDiv::divide", "dst_image"),
    ("mul_div::MulDiv::divide_alpha_inplace", "image"), ("mul_div::MulDiv::divide_inplace", "image"),
    ("change_components_type::change_type_of_pixel_components", "dst_image"),
    ("change_components_type::change_components_type", "dst_image"),
    ("color::PixelComponentMapper::map", "dst_image"),
    ("color::PixelComponentMapper::map_inplace", "image"),
    ("color::MappingTable::<Out, SIZE>::map_image", "dst_image"),
    ("color::MappingTable::<Out, SIZE>::map_image_inplace", "image"),
]
ALLOWED_DYN = ("try_pixel_type", "pixel_type", "width", "height", "image_view_mut", "image_view",
               "typed_image_mut")


def dispatch_pure(rep, prog, rule):
    rep.rule(rule, "the dynamic entry points do no processing of their own: the destination is "
             "only queried (pixel_type/width/height), converted with image_view_mut, and handed to "
             "the typed counterpart / a generic helper; no row access and no kernel call")
    n = 0
    for name, pname in DYNAMIC:
        f = prog.fn_by_name(name)
        n += 1
        rep.touch(f)
        pi = f.param_index(pname)
        al = flow.Aliases(f, [pi])
        bad = []
        fwd = []
        for g in [f] + f.closures():
            for c in g.calls():
                if g is f and not al.arg_positions(c):
                    continue
                nm = c.method or short(c.name)
                if nm in flow.LEAF_WRITERS or c.name.startswith(("convolution::", "alpha::")) \
                        or (c.trait or "").endswith(("Convolution", "AlphaMulDiv")):
                    bad.append(c)
                elif prog.call_targets(c) and g is f:
                    fwd.append(c.name.rsplit("::", 1)[-1])
        if bad:
            rep.bad(rule, name, bad[0].at, "%s touches pixels itself: %s" % (name, bad[0].name))
        else:
            rep.ok(rule, name, f.loc, "forwards to %s" % sorted(set(fwd))[:4])
    rep.floor(rule, "dynamic entry points", n, len(DYNAMIC))


def no_address_dependence(rep, prog, rule):
    rep.rule(rule, "inside kernels every align_to{,_mut}::<U> on a row of T has align(U) <= "
             "align(T) (the prefix is provably empty, so the split does not depend on where the row "
             "lives); no pointer-to-integer cast, addr() or align_offset() in kernel modules")
    n = 0
    scanned = 0
    for f in sorted(prog.fns.values(), key=lambda x: x.id):
        if not f.name.startswith(("convolution::", "alpha::", "simd_utils::", "neon_utils::",
                                  "wasm32_utils::")):
            continue
        for c in f.calls():
            scanned += 1
            nm = short(c.name)
            if nm in ("align_to", "align_to_mut"):
                n += 1
                rep.touch(f)
                t, u = (c.targs() + [None, None])[:2]
                m = re.match(r"^\[(\w+); .*\]$", u or "")
                ue = m.group(1) if m else u
                key = "%s|%s->%s" % (f.name, t, u)
                if ue == t or (ALIGN.get(ue) is not None and ALIGN.get(t) is not None
                               and ALIGN[ue] <= ALIGN[t]):
                    rep.ok(rule, key, c.at, "align(%s) <= align(%s)" % (u, t))
                elif ALIGN.get(ue) is not None and ALIGN.get(t) is not None:
                    rep.bad(rule, key, c.at, "%s splits a row of %s with align_to::<%s>: the "
                            "length of the unaligned prefix depends on the address of the row, so "
                            "the same pixels are processed differently in different containers"
                            % (f.name, t, u))
                else:
                    rep.unk(rule, key, c.at, "alignments of %s / %s unknown" % (t, u))
            if nm in ("addr", "align_offset", "expose_provenance", "is_aligned", "is_aligned_to"):
                rep.bad(rule, "%s|%s" % (f.name, nm), c.at, "%s inspects a pointer value (%s)"
                        % (f.name, nm))
        for blk in f.blocks:
            for st in blk["s"]:
                if st[0] == "a" and st[2][0] == "cast" and "Expose" in st[2][1]:
                    rep.bad(rule, "%s|ptr-to-int" % f.name, st[3], "%s casts a pointer to an "
                            "integer" % f.name)
    rep.floor(rule, "calls scanned in kernel modules", scanned, 2500)
    rep.ok(rule, "kernel-scan", "", "%d calls scanned, %d align_to sites" % (scanned, n))


def _plain_rounding(p):
    """p is min(max_rows, trunc(R(q))) or min(max_rows, trunc(q)) with R in {round, floor} and nothing
    added: the count is the quotient rounded down / to nearest (floor(q) + 1 and the like are other
    functions and are not judged)"""
    def single(q):
        if len(q) == 1:
            (m, c), = q.items()
            if c == 1 and len(m) == 1:
                return m[0]
        return None
    a = single(p)
    if a is None or a[0] != "min":
        return False
    for arg in a[1:]:
        x = single(dict(arg))
        if x is None or x[0] != "trunc":
            continue
        inner = single(dict(x[1]))
        if inner is None:
            return False
        if inner[0] in ("round", "floor"):
            return True
        if inner[0] in ("max",):        # a bare truncation of the clamped quotient
            return True
    return False


def row_cursor(rep, prog, rule):
    """the stepped row iterator fetches the REQUESTED row"""
    rep.rule(rule, "an implementation of ImageView::iter_rows_with_step that walks a row iterator forward "
             "(the trait default used by typed images, cropped views and split parts) advances it to the "
             "row trunc(y) of the current sampling position: either row by row (`next()` in a loop up to "
             "the requested row) or by a jump (`nth` / `skip` / `advance_by`) whose distance is computed "
             "from the current position (a value derived from `y as usize`). The requested rows are "
             "trunc(start + k * step): their distance alternates between floor(step) and floor(step) + 1 "
             "for every non-integral step, so a jump by a distance that does not depend on the position "
             "(a stride fixed before the loop) lags behind row after row -- and only for the containers "
             "that use this implementation, so the same pixels resize differently by container")
    def pkey(pl, closure):
        """a local, or one captured field of the closure environment (kept apart: the state of the
        iterator lives there)"""
        if closure and pl and pl[0] == 1:
            for el in pl[1:]:
                if isinstance(el, list) and el and el[0] == "f":
                    return (1, el[1])
            return None
        return pl[0] if pl else None

    def fs_taint(g, seeds):
        closure = g.kind == "closure"
        t = set(seeds)

        def ops_of(x):
            if isinstance(x, list):
                if x and x[0] in ("c", "m") and len(x) > 1 and isinstance(x[1], list):
                    yield x[1]
                else:
                    for y in x:
                        yield from ops_of(y)
        changed = True
        while changed:
            changed = False
            for blk in g.blocks:
                if blk["c"]:
                    continue
                for st in blk["s"]:
                    if st[0] != "a":
                        continue
                    k = pkey(st[1], closure)
                    if k is None or k in t:
                        continue
                    if any(pkey(pl, closure) in t for pl in ops_of(st[2])):
                        t.add(k)
                        changed = True
                tm = blk["t"]
                if tm[0] == "call" and tm[3]:
                    k = pkey(tm[3], closure)
                    if k is not None and k not in t and any(pkey(pl, closure) in t for pl in ops_of(tm[2])):
                        t.add(k)
                        changed = True
        return t
    n = 0
    for f in sorted(prog.fns.values(), key=lambda z: z.id):
        if f.kind == "closure" or (f.d.get("method") or f.name.rsplit("::", 1)[-1]) != "iter_rows_with_step":
            continue
        for g in [f] + list(f.closures()):
            seeds = set()
            for blk in g.blocks:
                if blk["c"]:
                    continue
                for st in blk["s"]:
                    if st[0] == "a" and st[2][0] == "cast" and "FloatToInt" in str(st[2]):
                        seeds.add(pkey(st[1], g.kind == "closure"))
            seeds.discard(None)
            tainted = fs_taint(g, seeds) if seeds else set()
            for c in g.calls():
                nm = c.method or c.name.rsplit("::", 1)[-1]
                if nm == "next" and "Iterator" in c.name or nm == "next" and c.method:
                    n += 1
                    continue
                if nm not in ("nth", "skip", "advance_by", "step_by", "nth_back") or len(c.args) < 2:
                    continue
                n += 1
                rep.touch(g)
                a = c.args[1]
                key = "%s|%s|distance" % (f.name, nm)
                if isinstance(a, list) and a and a[0] in ("c", "m") and a[1] and \
                        pkey(a[1], g.kind == "closure") in tainted:
                    rep.ok(rule, key, c.at, "the distance of %s(..) is computed from the current position" % nm)
                elif isinstance(a, list) and a and a[0] == "k" and str(a[1:]).find("0") >= 0 and nm == "nth" \
                        and Sym(g).operand(a, (c.bb, "term")) == ("const", 0, "usize"):
                    rep.ok(rule, key, c.at, "nth(0) is next()")
                else:
                    rep.bad(rule, key + "|position-independent", c.at,
                            "%s advances the row iterator with %s(%s): the distance does not depend on the "
                            "current sampling position (no value derived from `y as usize` reaches it), but "
                            "the rows to fetch, trunc(start + k * step), are floor(step) or floor(step) + 1 "
                            "apart: for a non-integral step the fetched rows fall behind the requested ones"
                            % (f.name, nm, fmt(Sym(g).operand(a, (c.bb, "term")))[:60]))
    rep.floor(rule, "row-iterator advances in iter_rows_with_step implementations", n, 1)


def step_count(rep, prog, rule):
    rep.rule(rule, "every implementation of ImageView::iter_rows_with_step yields a row for every sampling "
             "position start_y + k * step that lies inside the image, up to max_rows: the bound of its "
             "0..steps range is min(max_rows, ceil(max(0, (height - start_y) / step))) as a function "
             "(polynomial normal form with opaque ceil / max / min); with round, floor or a bare truncation "
             "the quotient k + 0.4999.. that an ordinary pair of sizes produces loses the last row: the zip "
             "with the destination rows ends one row early and that row keeps its old content")
    from ..engines.poly import Poly, show, opaque_names
    n = 0
    for f in sorted(prog.fns.values(), key=lambda z: z.id):
        if f.kind == "closure" or (f.d.get("method") or f.name.rsplit("::", 1)[-1]) != "iter_rows_with_step":
            continue
        sym = Sym(f)
        rng = None
        for b, blk in enumerate(f.blocks):
            if blk["c"]:
                continue
            for j, st in enumerate(blk["s"]):
                if st[0] == "a" and st[2][0] == "agg" and st[2][1] == "adt" and \
                        str(st[2][2]).endswith("ops::range::Range"):
                    rng = (sym.operand(st[2][4][0], (b, j)), sym.operand(st[2][4][1], (b, j)), st[3])
        if rng is None:
            continue            # delegating implementations
        n += 1
        rep.touch(f)
        key = f.name
        P = Poly(sym)
        hi = P.norm(rng[1])
        if hi is None:
            rep.unk(rule, key, rng[2], "bound of the step range not normalised (%s)" % P.failed)
            continue
        names_ = opaque_names(hi)
        txt = show(hi)
        if "ceil" in names_ and "min" in names_:
            inner_ok = ("height" in txt) and ("start_y" in txt) and ("1/(step)" in txt or "step" in txt)
            if inner_ok:
                rep.ok(rule, key, rng[2], "steps = %s" % txt[:100])
            else:
                rep.unk(rule, key, rng[2], "steps = %s" % txt[:100])
        elif _plain_rounding(hi):
            rep.bad(rule, key + "|rows-lost", rng[2],
                    "%s yields steps = %s rows: not rounded up, so for (height - start_y) / step = "
                    "k + 0.49.. (e.g. 128 -> 160 rows) the last sampling position inside the image gets "
                    "no row and the last destination row is never written" % (f.name, txt[:120]))
        else:
            rep.unk(rule, key, rng[2], "steps = %s" % txt[:100])
    rep.floor(rule, "iter_rows_with_step implementations with a step range", n, 2)


def step_siblings(rep, prog, rule):
    rep.rule(rule, "all implementations of ImageView::iter_rows_with_step (the trait default and the "
             "overrides of the containers) derive the row index from the floating-point position in "
             "the same way - all accumulate `y += step` and truncate y, or all compute "
             "`start + step * i`: the two are equal in exact arithmetic but round differently, so a "
             "mix makes Nearest pick different rows depending on the container that holds the "
             "source")
    forms = {}
    for g in sorted(prog.fns.values(), key=lambda z: z.id):
        if g.kind != "closure":
            continue
        parent = prog.fns.get(g.d.get("parent"))
        if parent is None or (parent.d.get("method") or parent.name.rsplit("::", 1)[-1]) != "iter_rows_with_step":
            continue
        gs = Sym(g)
        ups = g.d.get("upvars") or g.d.get("captures") or []
        names = [u[0] for u in ups]
        form = None
        casts = _casts_of(g, gs)
        cast_fields = set()
        for e in casts:
            e0 = e
            while e0[0] == "cast":
                e0 = e0[2]
            if e0[0] == "field" and e0[1][0] == "param" and e0[1][1] == 1:
                cast_fields.add(e0[2])
        for b, blk in enumerate(g.blocks):
            if blk["c"]:
                continue
            for j, st in enumerate(blk["s"]):
                if st[0] == "a" and st[1] and st[1][0] == 1 and "*" in st[1][1:]:
                    fs = [p for p in st[1][1:] if isinstance(p, list) and p[0] == "f"]
                    if not fs:
                        continue
                    k = fs[0][1]
                    e = gs.rvalue(st[2], b, (b, j))
                    if e[0] == "ovf":
                        e = e[1]
                    me = ("field", ("param", 1, g.local_name(1)), k)
                    if e[0] == "bin" and e[1] == "Add" and me in (e[2], e[3]) and k in cast_fields:
                        form = "accumulate"
        if form is None:
            for e in casts:
                s = fmt(e)
                if "Mul" in s and "Add" in s:
                    form = "indexed"
        forms[parent.name] = (form, parent)
    rep.floor(rule, "iter_rows_with_step implementations", len(forms), 2)
    kinds = {f for f, _ in forms.values()}
    for name, (form, parent) in sorted(forms.items()):
        rep.touch(parent)
        if form is None:
            rep.unk(rule, name, parent.loc, "form of the row position not recognised")
        elif len(kinds - {None}) > 1:
            others = sorted(n for n, (f2, _) in forms.items() if f2 not in (None, form))
            rep.bad(rule, name + "|mixed", parent.loc, "%s derives the row index by the `%s` form "
                    "but %s by the other one: for a sampling position that falls on a row boundary "
                    "the two round to different rows, so the same pixels give different Nearest "
                    "results in different containers" % (name, form, ", ".join(others)))
        else:
            rep.ok(rule, name, parent.loc, "row position form: %s" % form)


def _casts_of(g, gs):
    out = []
    for b, blk in enumerate(g.blocks):
        if blk["c"]:
            continue
        for j, st in enumerate(blk["s"]):
            if st[0] == "a" and st[2][0] == "cast" and st[2][1] == "FloatToInt":
                out.append(gs.operand(st[2][2], (b, j)))
    return out


def _is_f64_upvar(g, k):
    ups = g.d.get("upvars") or []
    try:
        return True if ups[k][0] in ("y", "pos", "position") else False
    except (IndexError, TypeError):
        return False


def row_stride(rep, prog, rule):
    rep.rule(rule, "the kernels reach another ROW of a view only through the view's row iterators "
             "(iter_rows, iter_2_rows, iter_4_rows, iter_rows_with_step): no raw pointer is walked from "
             "one row to the next with a stride computed from the view's width / height "
             "(`ptr = ptr.add(width * components)`), which is the distance between rows only for "
             "containers that store their rows back to back -- a cropped view of a wider image, or a "
             "user's strided view, has another one. Pointer walks with a constant stride (the next "
             "component / pixel of the same row) are what the kernels do")
    n = 0
    PTR = ("add", "offset", "wrapping_add", "wrapping_offset", "sub", "wrapping_sub", "byte_add")
    for f in sorted(prog.fns.values(), key=lambda x: x.id):
        root = f
        while root is not None and root.kind == "closure":
            root = prog.fns.get(root.d.get("parent"))
        if root is None or not re.match(r"^(convolution|alpha|color|change_components_type)::", root.name):
            continue
        sym = None
        for c in f.calls():
            m = c.method or (c.name or "").rsplit("::", 1)[-1]
            if m not in PTR or len(c.args) != 2 or "ptr" not in (c.name or ""):
                continue
            a0 = c.args[0]
            if a0[0] not in ("c", "m") or len(a0[1]) != 1 or not c.dest or len(c.dest) != 1:
                continue
            P, D = a0[1][0], c.dest[0]
            for _ in range(3):      # `_t = copy ptr; _r = add(move _t, k); ptr = move _r`
                ds = [d for d in f.defs().get(P, []) if d[3]]
                if len(ds) == 1 and ds[0][2][0] == "use" and ds[0][2][1][0] in ("c", "m") \
                        and len(ds[0][2][1][1]) == 1 and not f.local_name(P):
                    P = ds[0][2][1][1][0]
                else:
                    break
            walk = (P == D)
            if not walk and c.target is not None:
                for st in f.blocks[c.target]["s"]:
                    if st[0] == "a" and st[1] == [P] and st[2][0] == "use" and st[2][1][0] in ("c", "m") \
                            and st[2][1][1] == [D]:
                        walk = True
            if not walk:
                continue
            n += 1
            rep.touch(f)
            sym = sym or Sym(f)
            e = sym.operand(c.args[1], (c.bb, "term"))
            if f.kind == "closure":
                from .c14 import _with_captures
                e = _with_captures(prog, f, e)
            key = "%s|%s" % (f.name, f.local_name(P) or "_%d" % P)
            if _has_size_getter(e):
                rep.bad(rule, key + "|width-stride", c.at,
                        "%s walks the pointer `%s` by %s: a row stride derived from the view's size; the "
                        "rows of a cropped view (or any strided view) are further apart than their width"
                        % (f.name, f.local_name(P) or "_%d" % P, fmt(e)[:80]))
            else:
                rep.ok(rule, key, c.at, "stride %s" % fmt(e)[:60])
    rep.floor(rule, "pointer walks in the kernels", n, 4 if str(rep.cfg).startswith("x86") else 0)


def _has_size_getter(e):
    if not isinstance(e, tuple) or not e:
        return False
    if e[0] in ("call", "callat"):
        nm = e[1] if e[0] == "call" else e[2]
        if nm in ("width", "height"):
            return True
    return any(_has_size_getter(x) for x in e if isinstance(x, tuple))


def run(rep, tier):
    cfgs = ["x86"] if tier == "quick" else ["x86", "x86-rayon", "arm", "wasm"]
    for cfg, prog in programs(cfgs):
        rep.set_cfg(cfg)
        rep.call(parametric, rep, prog, "C13.parametric")
        rep.call(typed_image_rows, rep, prog, "C13.view-offsets")
        rep.call(index_rules.cropped_row_slices, rep, prog, "C13.view-offsets-cropped")
        rep.call(dispatch_pure, rep, prog, "C13.dispatch-pure")
        rep.call(row_stride, rep, prog, "C13.row-stride")
        from ..engines import siblings as _sib
        rep.call(_sib.geometry_roles, rep, prog, "C13.geometry-roles")
        # the dynamic entry point does what the typed one does: right type, same operation
        from ..engines import type_tables
        rep.call(type_tables.t_types, rep, prog, "C13.table")
        rep.call(step_siblings, rep, prog, "C13.step-siblings")
        rep.call(step_count, rep, prog, "C13.step-count")
        rep.call(row_cursor, rep, prog, "C13.row-cursor")
        from . import c14
        rep.call(c14.band_start, rep, prog, "C13.band-start")
        # source and destination are split separately and zipped: all splits distribute alike
        rep.call(c14.sizes, rep, prog, "C13.split-siblings", siblings=True)
        rep.call(no_address_dependence, rep, prog, "C13.no-address-dependence")
        rep.call(loadwidth.guard_adequacy, rep, prog, "C13.row-end", loadwidth.FLOOR.get(cfg, 50))
        from ..engines import row_coverage
        rep.call(row_coverage.row_length, rep, prog, "C13.row-length")
    if tier == "thorough":
        rep.set_cfg("witness")
        rep.call(witness.report, rep, "C13.types", ["W6"])
