"""C12 — resizing to the same size is an exact copy (DESIGN §4 C12)."""
from ..cfg import Dom, reachable_from
from ..engines import flow
from ..progs import programs
from ..sym import Sym, fmt
from .c07 import _has, _mentions_param

RESAMPLERS = ("resizer::resample_nearest", "Resizer::resample_convolution",
              "Resizer::resample_super_sampling", "Resizer::do_convolution")


COPY_NAMES = {"copy_image"}


def _is_copy_ok_edge(cond, val):
    """edge on which `copy_image(..).is_ok()` is true"""
    inner = _has(cond, lambda x: x[0] == "callat" and x[2] in COPY_NAMES)
    if not inner:
        return None
    if _has(cond, lambda x: x[0] in ("call", "callat") and (x[1] == "is_ok" or x[2] == "is_ok")):
        return val is True
    if _has(cond, lambda x: x[0] in ("call", "callat") and (x[1] == "is_err" or x[2] == "is_err")):
        return val is False
    return None


def fast_path(rep, prog, rule):
    rep.rule(rule, "in resize_typed every resampler call is dominated by the failure edge of "
             "copy_image(..).is_ok(), and the success edge reaches the return without any other "
             "call that receives the destination")
    f = flow.pipeline_body(prog, markers=("resample_nearest", "resample_convolution",
                                          "resample_super_sampling", "copy_image"))
    rep.touch(f)
    sym = Sym(f)
    dom = Dom(f)
    copy = [c for c in f.calls() if c.name.endswith("resizer::copy_image")]
    res = [c for c in f.calls() if any(c.name.endswith(r) for r in RESAMPLERS)]
    rep.floor(rule, "resampler calls in resize_typed", len(res), 4)
    if not copy:
        # renamed? the copy function is the callee that (transitively, one level) copies rows
        for c in f.calls():
            for tg in prog.call_targets(c):
                inner = [tg] + tg.closures()
                if any(cc.name.endswith("copy_from_slice") for g in inner for cc in g.calls()):
                    copy.append(c)
    if len(copy) != 1:
        if not copy:
            if any(prog.call_targets(c) and "copy" in c.name for c in f.calls()):
                rep.unk(rule, "copy-call", f.loc, "no call recognised as the same-size copy")
            else:
                rep.bad(rule, "copy-call", f.loc, "resize_typed calls no row-copying function: "
                        "the same-size fast path is gone and every algorithm resamples")
        else:
            rep.unk(rule, "copy-call", f.loc, "%d copy calls" % len(copy))
        return
    copy = copy[0]
    COPY_NAMES.add(copy.name.rsplit("::", 1)[-1])
    ok_s = fail_s = None
    for (p, s, cond, val) in sym.edge_facts():
        r = _is_copy_ok_edge(cond, val)
        if r is True and f.pred[s] == [p]:
            ok_s = s
        elif r is False and f.pred[s] == [p]:
            fail_s = s
    if ok_s is None or fail_s is None:
        rep.unk(rule, "edges", copy.at, "success / failure edges of copy_image not recognised")
        return
    for c in res:
        if dom.dominates(fail_s, c.bb):
            rep.ok(rule, "gated|%s" % c.name.rsplit("::", 1)[-1], c.at, "after failed copy")
        else:
            rep.bad(rule, "gated|%s" % c.name.rsplit("::", 1)[-1], c.at,
                    "%s is reachable without copy_image having failed" % c.name)
    al = flow.Aliases(f, [f.param_by_role("dst_view")])
    tail = reachable_from(f, ok_s)
    offenders = [c for c in f.calls() if c.bb in tail and al.arg_positions(c)
                 and not c.name.endswith(("::width", "::height"))]
    if offenders:
        rep.bad(rule, "success-tail", offenders[0].at, "after a successful copy_image the "
                "destination is passed to %s" % offenders[0].name)
    else:
        rep.ok(rule, "success-tail", copy.at, "success edge returns without touching dst")
    # the copy must see the cropped view and the destination
    a0, a1 = sym.operand(copy.args[0]), sym.operand(copy.args[1])
    _di = f.param_by_role("dst_view")
    if _di and _mentions_param(a1, f.local_name(_di)) and _has(a0, lambda x: x[0] == "callat" and x[2] == "crop"):
        rep.ok(rule, "copy-args", copy.at, "%s, %s" % (fmt(a0)[:80], fmt(a1)))
    else:
        rep.unk(rule, "copy-args", copy.at, "%s, %s" % (fmt(a0)[:80], fmt(a1)))


def _is_field(e, name):
    return e[0] == "field" and e[2] == name


def _strip(e):
    while e[0] == "cast":
        e = e[2]
    return e


def copy_cond(rep, prog, rule):
    rep.rule(rule, "copy_image returns Ok only on paths where crop.left/top/width/height equal their "
             "rounded values and dst.width()==crop.width, dst.height()==crop.height (same axis), "
             "and the copy itself is copy_from_slice of the cropped rows into iter_rows_mut(0)")
    try:
        f = prog.fn_by_name("resizer::copy_image")
    except Exception:
        cands = [g for g in prog.fns.values() if g.file == "src/resizer.rs" and g.kind != "closure"
                 and "DifferentDimensionsError" in g.d.get("output", "")]
        if len(cands) != 1:
            raise
        f = cands[0]
    rep.touch(f)
    sym = Sym(f)
    okb = [b for b, blk in enumerate(f.blocks) if not blk["c"] and any(
        st[0] == "a" and st[1] == [0] and st[2][0] == "agg" and st[2][1] == "adt"
        and st[2][2] == "core::result::Result" and st[2][3][1] == "Ok" for st in blk["s"])]
    if len(okb) != 1:
        rep.unk(rule, "ok-block", f.loc, "%d Ok returns" % len(okb))
        return
    facts = list(sym.facts_at(okb[0]))
    from ..engines.validators import implied_when
    opaque = []
    for cond, val in list(facts):
        c0 = cond
        while c0[0] == "cast":
            c0 = c0[2]
        if c0[0] in ("call", "callat") and isinstance(val, (bool, int)) and c0[0] != "bin":
            imp = implied_when(prog, c0, bool(val))
            if imp is None:
                if "crop_box" in fmt(c0):
                    opaque.append(fmt(c0)[:80])
            else:
                facts.extend(imp)
    integral = set()
    dims = set()
    for cond, val in facts:
        if cond[0] != "bin":
            continue
        op, a, b = cond[1], cond[2], cond[3]
        eq = (op == "Ne" and val is False) or (op == "Eq" and val is True)
        if not eq:
            continue
        for x, y in ((a, b), (b, a)):
            if x[0] == "field" and y[0] == "call" and y[1] in ("round", "trunc", "floor") \
                    and y[2] and y[2][0] == x:
                integral.add(x[2])
            xs, ys = _strip(x), _strip(y)
            if xs[0] == "call" and xs[1] in ("width", "height") and ys[0] == "field":
                dims.add((xs[1], ys[2], fmt(xs[2][0]) if xs[2] else ""))
                if x[0] == "cast" and x[1] == "IntToFloat" and y[0] == "field":
                    # compared as f64 with an integer size: equal only if integral
                    integral.add(y[2])
    for fld in ("left", "top", "width", "height"):
        if fld in integral:
            rep.ok(rule, "integral|%s" % fld, f.loc, "crop_box.%s == round(..) on the Ok path" % fld)
        elif any((".%s" % fld) in fmt(c) and any(w in fmt(c) for w in (
                "fract", "trunc", "floor", "ceil", "round", "Rem")) for c, v in facts):
            rep.unk(rule, "integral|%s" % fld, f.loc, "crop_box.%s is tested for integrality in "
                    "an unrecognised form" % fld)
        elif opaque:
            rep.unk(rule, "integral|%s" % fld, f.loc, "the Ok path is guarded by %s, which is not "
                    "followed" % opaque[0])
        else:
            rep.bad(rule, "integral|%s" % fld, f.loc,
                    "copy_image can return Ok without `crop_box.%s == crop_box.%s.round()` having "
                    "been established: a fractional crop box would be copied unresampled" % (fld, fld))
    di = f.param_by_role("dst_view")
    DST = f.local_name(di) if di else None
    for ax in ("width", "height"):
        if DST is None:
            rep.unk(rule, "dim|%s" % ax, f.loc, "the destination parameter of copy_image is not identified")
            continue
        hit = [d for d in dims if d[0] == ax and d[1] == ax and DST in d[2]]
        cross = [d for d in dims if d[0] == ax and d[1] != ax]
        if hit:
            rep.ok(rule, "dim|%s" % ax, f.loc, "dst.%s() == crop_box.%s" % (ax, ax))
        elif cross:
            rep.bad(rule, "dim|%s" % ax, f.loc, "dst.%s() is compared with crop_box.%s" % (
                ax, cross[0][1]))
        else:
            rep.bad(rule, "dim|%s" % ax, f.loc, "copy_image can return Ok without "
                    "dst.%s() == crop_box.%s" % (ax, ax))
    # the copy
    cps = []
    for g in [f] + f.closures():
        for c in g.calls():
            if c.name.endswith("copy_from_slice"):
                cps.append((g, c))
    rows = [c for c in f.calls() if c.method == "iter_rows_mut"]
    srcs = [c for c in f.calls() if c.name.endswith("iter_cropped_rows")]
    if len(cps) == 1 and len(rows) == 1 and len(srcs) == 1:
        start = sym.operand(rows[0].args[1])
        if start == ("const", 0, "u32"):
            rep.ok(rule, "copy-loop", cps[0][1].at, "copy_from_slice(iter_cropped_rows) into "
                   "iter_rows_mut(0)")
        else:
            rep.bad(rule, "copy-loop|start", rows[0].at, "destination rows start at %s" % fmt(start))
    else:
        rep.unk(rule, "copy-loop", f.loc, "copy_from_slice=%d iter_rows_mut=%d iter_cropped_rows=%d"
                % (len(cps), len(rows), len(srcs)))


def need_pass(rep, prog, rule):
    rep.rule(rule, "in do_convolution the decision to run the horizontal pass depends only on "
             "horizontal quantities (dst width, crop.left, crop.width) and the vertical one only on "
             "vertical quantities; each Option of coefficients is produced under that decision")
    f = prog.fn_by_name("resizer::Resizer::do_convolution")
    rep.touch(f)
    sym = Sym(f)
    found = 0
    for name, good, bad in (("need_horizontal", ("left", "width"), ("top", "height")),
                            ("need_vertical", ("top", "height"), ("left", "width"))):
        ls = [i for i, l in enumerate(f.locals) if l[1] == name]
        if len(ls) != 1:
            rep.unk(rule, name, f.loc, "local %s not found" % name)
            continue
        found += 1
        l = ls[0]
        # all definitions of the flag (short-circuit || assigns it on several paths)
        conds = []
        per_def = []
        for (bb, j, rv, whole) in f.defs().get(l, []):
            conds.append(sym.rvalue(rv, bb))
            per_def.append(set((c, str(v)) for (c, v) in sym.facts_at(bb)))
        # conditions that select between the definitions = facts not common to all of them
        if per_def:
            common = set.intersection(*per_def)
            for s_ in per_def:
                conds.extend(c for (c, v) in sorted(s_ - common, key=lambda cv: fmt(cv[0])))
        from ..engines.validators import predicate_parts
        extra = []

        def walk(x, depth=0):
            if not isinstance(x, tuple) or not x or depth > 8:
                return
            if x[0] in ("call", "callat"):
                extra.extend(predicate_parts(prog, x))
            if x[0] == "local":
                for (bb2, j2, rv2, w2) in sym.defs.get(x[1], []):
                    walk(sym.rvalue(rv2, bb2, (bb2, j2)), depth + 1)
            for y in x:
                if isinstance(y, tuple):
                    walk(y, depth + 1)
        for c in list(conds):
            walk(c)
        conds.extend(extra)
        txt = " ".join(fmt(c) for c in conds)
        has_bad = [w for w in bad if ("." + w) in txt or (w + "(") in txt]
        has_good = [w for w in good if ("." + w) in txt or (w + "(") in txt]
        if has_bad:
            rep.bad(rule, name, f.loc, "%s depends on %s: %s" % (name, has_bad, txt[:200]))
        elif has_good:
            rep.ok(rule, name, f.loc, txt[:160])
        else:
            rep.unk(rule, name, f.loc, "no size dependence recognised: %s" % txt[:160])
    rep.floor(rule, "need_* flags", found, 2)


def supersampling_guard(rep, prog, rule):
    rep.rule(rule, "resample_super_sampling takes the nearest-neighbour pre-scaling step only "
             "when BOTH axes shrink: the guard quantity is min(width_scale, height_scale) divided "
             "by the multiplicity (so it is bounded by each axis' scale); a guard that combines "
             "the two scales any other way resamples an axis whose size already matches")
    f = prog.fn_by_name("resizer::Resizer::resample_super_sampling")
    rep.touch(f)
    sym = Sym(f)
    nearest = [c for c in f.calls() if c.name.endswith("resample_nearest")]
    rep.floor(rule, "nearest pre-step calls", len(nearest), 1)
    for c in nearest:
        facts = [(cc, v) for cc, v in sym.facts_at(c.bb) if cc[0] == "bin" and cc[1] in ("Gt", "Ge", "Lt", "Le")]
        guards = [(cc, v) for cc, v in facts if "crop_box" in fmt(cc) and ("Div" in fmt(cc))]
        g = [(cc, v) for cc, v in guards if "min(" in fmt(cc) or "Mul" in fmt(cc) or "sqrt" in fmt(cc)
             or "max(" in fmt(cc) or "multiplicity" in fmt(cc)]
        if not g:
            rep.unk(rule, "guard", c.at, "no scale guard recognised before the nearest pre-step")
            continue
        for cc, v in g:
            q = cc[2] if (cc[1] in ("Gt", "Ge")) == (v is True) else cc[3]
            s = fmt(q)
            has_w = ".width" in s and "width(dst_view)" in s
            has_h = ".height" in s and "height(dst_view)" in s

            def min_form(e):
                while e[0] == "cast":
                    e = e[2]
                if e[0] == "bin" and e[1] == "Div":
                    return min_form(e[2])
                if e[0] == "call" and e[1] == "min" and len(e[2]) == 2:
                    a, b = fmt(e[2][0]), fmt(e[2][1])
                    return (".width" in a and ".height" in b) or (".height" in a and ".width" in b)
                return False
            other = cc[3] if q is cc[2] else cc[2]
            thr = other[1] if other[0] == "const" and isinstance(other[1], (int, float)) else None
            if min_form(q) and (thr is None or thr < 1):
                rep.unk(rule, "guard", c.at, "threshold %s of the pre-step guard is not a "
                        "constant >= 1" % fmt(other)[:60])
            elif min_form(q):
                rep.ok(rule, "guard", c.at, "pre-step only if %s exceeds the threshold" % s[:100])
            elif has_w and has_h:
                rep.bad(rule, "guard", c.at, "the pre-scaling step is guarded by %s, which is not "
                        "bounded by each axis' own scale: a resize that keeps one dimension "
                        "(scale 1) but shrinks the other strongly goes through the nearest "
                        "pre-step and is resampled along the unchanged dimension" % s[:160])
            elif has_w or has_h:
                rep.bad(rule, "guard", c.at, "the pre-scaling step looks at one axis only (%s)"
                        % s[:120])
            else:
                rep.unk(rule, "guard", c.at, "guard %s" % s[:120])


def none_none(rep, prog, rule):
    mw = flow.MustWrite(prog, rep)
    rep.rule(rule, "do_convolution writes the destination on every non-degenerate path, "
             "including the arm where neither pass is required (must-write summary)")
    f = prog.fn_by_name("resizer::Resizer::do_convolution")
    ok, why = mw.mw(f, f.param_by_role("dst_view"))
    if ok is True:
        rep.ok(rule, "do_convolution", f.loc, "all arms write")
    elif ok is False:
        if why[0].startswith("root=constify"):
            rep.ok(rule, "do_convolution", f.loc, "all arms of do_convolution call a writer "
                   "(kernel-internal finding %s is reported under C05)" % why[0], nontrivial=True)
        else:
            rep.bad(rule, why[0], f.loc, " <- ".join(why[1:]))
    else:
        rep.unk(rule, "do_convolution", f.loc, "; ".join(why))


def _local_used(fn, l):
    """is local l read anywhere (operands of statements / terminators)?"""
    def in_op(op):
        return isinstance(op, list) and op and op[0] in ("c", "m") and op[1] and op[1][0] == l

    def walk(x):
        if isinstance(x, list):
            if in_op(x):
                return True
            return any(walk(y) for y in x)
        return False
    for blk in fn.blocks:
        for st in blk["s"]:
            if st[0] == "a" and walk(st[2]):
                return True
        tt = blk["t"]
        if tt and tt[0] == "sw" and walk(tt[1]):
            return True
        if tt and tt[0] == "call" and walk(tt[2]):
            return True
    return False


def _fn_return_expr(prog, e):
    """inline a call of a crate function with a single return expression (one level)"""
    from ..engines.validators import subst
    if e[0] not in ("call", "callat"):
        return None
    res = e[4] if e[0] == "callat" else e[3]
    args = e[3] if e[0] == "callat" else e[2]
    g = prog.fns.get(res) if isinstance(res, str) else None
    if g is None:
        return None
    ds = g.defs().get(0, [])
    if len(ds) != 1:
        return None
    gs = Sym(g)
    r = gs.rvalue(ds[0][2], ds[0][0], (ds[0][0], ds[0][1]))
    mapping = {("param", i + 1, g.local_name(i + 1)): a for i, a in enumerate(args)}
    return subst(r, mapping)


def skip_arm(rep, prog, rule):
    rep.rule(rule, "where do_convolution skips both passes and falls back to the copy routine "
             "without looking at its result, the conditions of that arm (need_horizontal and "
             "need_vertical both false) establish exactly what the copy routine needs to succeed: "
             "dst size == crop size and integral left/top as *exact* equalities; otherwise the "
             "copy fails silently and Ok is returned with the destination unwritten")
    f = prog.fn_by_name("resizer::Resizer::do_convolution")
    rep.touch(f)
    sym = Sym(f)
    cands = [g for g in prog.fns.values() if g.file == "src/resizer.rs" and g.kind != "closure"
             and "DifferentDimensionsError" in g.d.get("output", "")]
    if len(cands) != 1:
        rep.unk(rule, "copy-routine", f.loc, "copy routine not located")
        return
    copy = cands[0]
    calls = [c for c in f.calls() if copy in prog.call_targets(c)]
    if not calls:
        rep.ok(rule, "no-fallback", f.loc, "do_convolution does not fall back to the copy routine",
               nontrivial=False)
        return
    for c in calls:
        key = "fallback-copy"
        dest = c.dest[0] if c.dest else None
        if dest is not None and _local_used(f, dest):
            rep.ok(rule, key, c.at, "the result of the copy routine is inspected")
            continue
        # facts of the arm: discr(then(need_X, ..)) == None
        needs = []
        for cond, val in sym.facts_at(c.bb):
            if cond[0] == "discr" and val == 0:
                e = cond[1]
                if e[0] in ("call", "callat") and (e[1] if e[0] == "call" else e[2]) == "then":
                    a0 = (e[2] if e[0] == "call" else e[3])[0]
                    if a0[0] == "local":
                        needs.append(a0)
        if len(needs) != 2:
            rep.unk(rule, key, c.at, "the arm's conditions are not of the form (None, None) of "
                    "two `need_*.then(..)` options")
            continue
        established, tolerant, unknown = set(), [], []

        def learn(e, val):
            """record what (e == val) says"""
            while e[0] == "cast":
                e = e[2]
            if e[0] == "un" and e[1] == "Not":
                return learn(e[2], not val)
            if e[0] == "bin" and e[1] in ("Ne", "Eq"):
                eq = (e[1] == "Eq") == bool(val)
                if not eq:
                    return
                a, b = _strip(e[2]), _strip(e[3])
                for x, y in ((a, b), (b, a)):
                    if x[0] == "field" and y[0] == "call" and y[1] == "round" and y[2] and _strip(y[2][0]) == x:
                        established.add(("int", x[2]))
                    if x[0] == "call" and x[1] in ("width", "height") and y[0] == "field" and y[2] == x[1]:
                        established.add(("dim", x[1]))
                return
            if e[0] == "bin":
                return                  # an ordering comparison: says nothing about equality
            if e[0] in ("call", "callat"):
                r = _fn_return_expr(prog, e)
                if r is not None:
                    rr = r
                    while rr[0] == "cast":
                        rr = rr[2]
                    if rr[0] == "bin" and rr[1] in ("Lt", "Le") and "abs(" in fmt(rr[2]) and val:
                        tolerant.append(fmt(e)[:100])
                        return
                    return learn(r, val)
                unknown.append(fmt(e)[:100])
                return
            if e[0] == "const":
                return
            unknown.append(fmt(e)[:100])
        for nl in needs:
            for (bb, j, rv, whole) in f.defs().get(nl[1], []):
                e = sym.rvalue(rv, bb, (bb, j))
                if e[0] == "const" and e[1] is True:
                    continue            # need = true: not this arm
                # need == false on this definition: its guards hold and its value is false
                for cond, val in sym.facts_at(bb):
                    if isinstance(val, bool):
                        learn(cond, val)
                learn(e, False)
        need = {("dim", "width"), ("dim", "height"), ("int", "left"), ("int", "top")}
        missing = sorted(need - established)
        if not missing:
            rep.ok(rule, key, c.at, "the arm establishes dst size == crop size and integral "
                   "left/top exactly: the copy cannot fail")
        elif unknown:
            rep.unk(rule, key, c.at, "conditions not recognised: %s" % unknown[:2])
        else:
            rep.bad(rule, key + "|silent-failure", c.at, "do_convolution skips both passes and "
                    "discards the result of %s, but the arm only establishes %s%s; the copy "
                    "routine needs exact equalities (%s missing), fails otherwise, and resize "
                    "returns Ok with the destination unwritten" % (
                        copy.name.rsplit("::", 1)[-1],
                        sorted(established) or "nothing exact",
                        (" and the tolerant comparisons %s" % tolerant[:2]) if tolerant else "",
                        ", ".join("%s:%s" % m for m in missing)))


def run(rep, tier):
    cfgs = ["x86", "x86-rayon"] if tier == "quick" else ["x86", "x86-rayon", "arm", "wasm"]
    for cfg, prog in programs(cfgs):
        rep.set_cfg(cfg)
        if "rayon" in cfg:
            # a copy that is spread over threads must not apply the crop offset to a band twice
            from . import c08
            rep.call(c08.offset_once, rep, prog, "C12.offset-once")
            # ... and the bands of the source must start at the offset they were asked for
            from . import c14
            rep.call(c14.start_used, rep, prog, "C12.band-start-used")
            if tier == "quick":
                continue
        rep.call(fast_path, rep, prog, "C12.fast-path")
        rep.call(copy_cond, rep, prog, "C12.copy-cond")
        from . import c11 as _c11
        rep.call(_c11.source_columns, rep, prog, "C12.source-columns")
        # the alpha path hands the passes a scratch copy of the source: same size, same crop box
        from . import c09 as _c09
        rep.call(_c09.sizing, rep, prog, "C12.scratch-box")
        rep.call(need_pass, rep, prog, "C12.need-pass")
        rep.call(none_none, rep, prog, "C12.none-none")
        rep.call(supersampling_guard, rep, prog, "C12.supersampling-guard")
        rep.call(skip_arm, rep, prog, "C12.skip-arm")
        # FitIntoDestination with a destination of the source's size: the fitted box must be the
        # whole source exactly (fl(fl(w/h)*h) is one ulp off w for ~8% of the sizes)
        from . import c15
        rep.call(c15.inside, rep, prog, "C12.fit-exact")
        # "when only one dimension matches, no resampling happens along that dimension": the pass
        # along the other dimension is then the only one and receives the crop offset; every row of
        # it (also the tail after the groups of N rows) must read source row offset + y
        from ..engines import row_coverage, validators
        rep.call(row_coverage.group_tail, rep, prog, "C12.kernel-rows")
        rep.call(validators.crop_passthrough, rep, prog, "C12.crop-passthrough")
        # the vertical-only pass receives the crop's column offset: every source access of the
        # vertical kernels depends on the column cursor
        from ..engines import loadwidth
        rep.call(loadwidth.offset_flows, rep, prog, "C12.offset-flows", {"x86": 30, "x86-rayon": 30, "arm": 8, "arm-rayon": 8, "wasm": 15}.get(cfg, 8))
