"""C05 — a resize writes every destination pixel and nothing else (DESIGN §4 C05)."""
from ..engines import flow, views, row_coverage, index_rules, loadwidth, storewidth
from ..facts import CheckError
from ..progs import programs

# (def_path_str, name of the destination parameter)
ENTRY_POINTS = [
    ("resizer::Resizer::resize", "dst_image"),
    ("resizer::Resizer::resize_typed", "dst_view"),
    ("resizer::Resizer::resample_convolution", "dst_view"),
    ("resizer::Resizer::do_convolution", "dst_view"),
    ("resizer::Resizer::resample_super_sampling", "dst_view"),
    ("resizer::resample_nearest", "dst_view"),
    ("resizer::copy_image", "dst_view"),
    ("mul_div::MulDiv::multiply_alpha", "dst_image"),
    ("mul_div::MulDiv::multiply_alpha_typed", "dst_view"),
    ("mul_div::MulDiv::multiply_alpha_inplace", "image"),
    ("mul_div::MulDiv::multiply_alpha_inplace_typed", "img_view"),
    ("mul_div::MulDiv::divide_alpha", "dst_image"),
    ("mul_div::MulDiv::divide_alpha_typed", "dst_view"),
    ("mul_div::MulDiv::divide_alpha_inplace", "image"),
    ("mul_div::MulDiv::divide_alpha_inplace_typed", "img_view"),
    ("change_components_type::change_type_of_pixel_components", "dst_image"),
    ("change_components_type::change_type_of_pixel_components_typed", "dst_image"),
    ("color::PixelComponentMapper::forward_map", "dst_image"),
    ("color::PixelComponentMapper::forward_map_inplace", "image"),
    ("color::PixelComponentMapper::backward_map", "dst_image"),
    ("color::PixelComponentMapper::backward_map_inplace", "image"),
    ("color::MappingTable::<Out, SIZE>::map_image", "dst_image"),
    ("color::MappingTable::<Out, SIZE>::map_image_typed", "dst_view"),
    ("color::MappingTable::<Out, SIZE>::map_image_inplace", "image"),
    ("color::MappingTable::<Out, SIZE>::map_image_inplace_typed", "image_view"),
]


def must_write(rep, prog, rule):
    rep.rule(rule, "for every entry point that takes a destination image, each path from entry "
             "to a non-error return passes a call that obtains mutable rows of that destination "
             "(iter_rows_mut / iter_N_rows_mut / split_by_*_mut, directly or through callees whose "
             "summary says so; trait calls must hold for every impl), except paths leaving through "
             "a zero-size guard")
    mw = flow.MustWrite(prog, rep)
    found = 0
    for name, pname in ENTRY_POINTS:
        fs = [f for f in prog.fns.values() if f.name == name]
        if len(fs) != 1:
            raise CheckError("entry point %s: %d matches" % (name, len(fs)))
        f = fs[0]
        pi = f.param_index(pname)
        if pi is None:
            raise CheckError("entry point %s has no parameter %s" % (name, pname))
        found += 1
        ok, why = mw.mw(f, pi)
        key = "%s|%s" % (name, pname)
        if ok is True:
            rep.ok(rule, key, f.loc, "every non-error, non-degenerate path writes `%s`" % pname)
        elif ok is False:
            rep.bad(rule, why[0], f.loc, "entry %s: " % key + " <- ".join(why[1:]))
        else:
            rep.unk(rule, key, f.loc, "; ".join(why))
    rep.floor(rule, "entry points", found, len(ENTRY_POINTS))
    # kernels: every per-pixel-format implementation of the convolution / alpha traits
    for tr_suffix, methods in (("convolution::Convolution", ("horiz_convolution", "vert_convolution")),
                               ("alpha::AlphaMulDiv", ("multiply_alpha", "multiply_alpha_inplace",
                                                       "divide_alpha", "divide_alpha_inplace"))):
        tid = prog.trait_id(tr_suffix)
        n = 0
        for m in methods:
            for f in prog.method_impls(tid, m):
                dst = None
                for i in range(1, f.arg_count + 1):
                    if f.local_ty(i).startswith("&mut "):
                        dst = i
                if dst is None:
                    continue
                n += 1
                ok, why = mw.mw(f, dst)
                key = "%s|%s" % (f.name, f.local_name(dst))
                if ok is True:
                    rep.ok(rule, key, f.loc, "all paths write")
                elif ok is False:
                    rep.bad(rule, why[0], f.loc, "impl %s: " % key + " <- ".join(why[1:]))
                else:
                    rep.unk(rule, key, f.loc, "; ".join(why))
        rep.floor(rule, "impls of %s" % tr_suffix, n, 26 if "Convolution" in tr_suffix else 24)


def run(rep, tier):
    cfgs = ["x86"] if tier == "quick" else ["x86", "x86-rayon", "arm", "wasm"]
    for cfg, prog in programs(cfgs):
        rep.set_cfg(cfg)
        rep.call(must_write, rep, prog, "C05.must-write")
        rep.call(views.rows_bounded, rep, prog, "C05.rows-bounded")
        rep.call(row_coverage.group_tail, rep, prog, "C05.kernel-rows")
        rep.call(index_rules.cropped_row_slices, rep, prog, "C05.view-rect")
        from . import c12
        rep.call(c12.skip_arm, rep, prog, "C05.fallible-write")
        from . import c13
        rep.call(c13.step_count, rep, prog, "C05.step-count")
        rep.call(storewidth.check, rep, prog, "C05.storewidth", storewidth.FLOOR.get(cfg, 40))
        if cfg.startswith("x86"):
            rep.call(loadwidth.chunk_store, rep, prog, "C05.chunk-store")
