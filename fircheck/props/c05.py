"""C05 — a resize writes every destination pixel and nothing else (DESIGN §4 C05)."""
from ..engines import flow, views, row_coverage, index_rules, loadwidth, storewidth
from ..facts import CheckError
from ..progs import programs

# (def_path_str, name of the destination parameter)
ENTRY_POINTS = [
    ("resizer::Resizer::resize", "dst_image"),
    ("resizer::Resizer::resize_typed", "dst_view"),
    ("resizer::Resizer::resample_convolution", "dst_view"),
    ("resizer::Resizer::do_convolution", "dst_view"),
    ("resizer::Resizer::resample_super_sampling", "dst_view"),
    ("resizer::resample_nearest", "dst_view"),
    ("resizer::copy_image", "dst_view"),
    ("mul_div::MulDiv::multiply_alpha", "dst_image"),
    ("mul_div::MulDiv::multiply_alpha_typed", "dst_view"),
    ("mul_div::MulDiv::multiply_alpha_inplace", "image"),
    ("mul_div::MulDiv::multiply_alpha_inplace_typed", "img_view"),
    ("mul_div::MulDiv::divide_alpha", "dst_image"),
    ("mul_div::MulDiv::divide_alpha_typed", "dst_view"),
    ("mul_div::MulDiv::divide_alpha_inplace", "image"),
    ("mul_div::MulDiv::divide_alpha_inplace_typed", "img_view"),
    ("change_components_type::change_type_of_pixel_components", "dst_image"),
    ("change_components_type::change_type_of_pixel_components_typed", "dst_image"),
    ("color::PixelComponentMapper::forward_map", "dst_image"),
    ("color::PixelComponentMapper::forward_map_inplace", "image"),
    ("color::PixelComponentMapper::backward_map", "dst_image"),
    ("color::PixelComponentMapper::backward_map_inplace", "image"),
    ("color::MappingTable::<Out, SIZE>::map_image", "dst_image"),
    ("color::MappingTable::<Out, SIZE>::map_image_typed", "dst_view"),
    ("color::MappingTable::<Out, SIZE>::map_image_inplace", "image"),
    ("color::MappingTable::<Out, SIZE>::map_image_inplace_typed", "image_view"),
]


def must_write(rep, prog, rule):
    rep.rule(rule, "for every entry point that takes a destination image, each path from entry "
             "to a non-error return passes a call that obtains mutable rows of that destination "
             "(iter_rows_mut / iter_N_rows_mut / split_by_*_mut, directly or through callees whose "
             "summary says so; trait calls must hold for every impl), except paths leaving through "
             "a zero-size guard")
    mw = flow.MustWrite(prog, rep)
    found = 0
    for name, pname in ENTRY_POINTS:
        fs = [f for f in prog.fns.values() if f.name == name]
        if len(fs) != 1:
            raise CheckError("entry point %s: %d matches" % (name, len(fs)))
        f = fs[0]
        pi = f.param_index(pname)
        if pi is None:
            raise CheckError("entry point %s has no parameter %s" % (name, pname))
        found += 1
        ok, why = mw.mw(f, pi)
        key = "%s|%s" % (name, pname)
        if ok is True:
            rep.ok(rule, key, f.loc, "every non-error, non-degenerate path writes `%s`" % pname)
        elif ok is False:
            rep.bad(rule, why[0], f.loc, "entry %s: " % key + " <- ".join(why[1:]))
        else:
            rep.unk(rule, key, f.loc, "; ".join(why))
    rep.floor(rule, "entry points", found, len(ENTRY_POINTS))
    # kernels: every per-pixel-format implementation of the convolution / alpha traits
    for tr_suffix, methods in (("convolution::Convolution", ("horiz_convolution", "vert_convolution")),
                               ("alpha::AlphaMulDiv", ("multiply_alpha", "multiply_alpha_inplace",
                                                       "divide_alpha", "divide_alpha_inplace"))):
        tid = prog.trait_id(tr_suffix)
        n = 0
        for m in methods:
            for f in prog.method_impls(tid, m):
                dst = None
                for i in range(1, f.arg_count + 1):
                    if f.local_ty(i).startswith("&mut "):
                        dst = i
                if dst is None:
                    continue
                n += 1
                ok, why = mw.mw(f, dst)
                key = "%s|%s" % (f.name, f.local_name(dst))
                if ok is True:
                    rep.ok(rule, key, f.loc, "all paths write")
                elif ok is False:
                    rep.bad(rule, why[0], f.loc, "impl %s: " % key + " <- ".join(why[1:]))
                else:
                    rep.unk(rule, key, f.loc, "; ".join(why))
        rep.floor(rule, "impls of %s" % tr_suffix, n, 26 if "Convolution" in tr_suffix else 24)


def temp_size(rep, prog, rule):
    """sizes of the intermediate images"""
    from ..sym import Sym, fmt
    rep.rule(rule, "the width and height of every intermediate image the resizer creates "
             "(get_temp_image_from_buffer) that come out of a floating-point computation are "
             "not the result of a division by a caller-controlled value that may be zero: a "
             "zero divisor makes the quotient infinite, the size 0 after the conversion, the "
             "pass that fills the intermediate image and the pass that reads it both return at "
             "their zero-size guard and the destination is left unwritten although the call "
             "succeeds (every divisor must be positive by a guard on the path, by its type "
             "range or by construction; a divisor that is an unguarded integer argument whose "
             "type includes 0 is a violation, anything else undecided)")
    INT = ("u8", "u16", "u32", "u64", "usize")
    n = 0
    for f in sorted(prog.fns.values(), key=lambda x: x.id):
        if f.file != "src/resizer.rs":
            continue
        sites = [c for c in f.calls() if short_name(c.name) == "get_temp_image_from_buffer"]
        if not sites:
            continue
        rep.touch(f)
        sym = Sym(f)
        for c in sites:
            facts = sym.facts_at(c.bb)

            def positive(e, depth=0):
                """'yes' | 'no: <why>' | 'unknown: <why>' -- is e > 0 (and finite)?"""
                while isinstance(e, tuple) and e and e[0] == "cast" and e[1] in ("FloatToFloat", "IntToInt"):
                    e = e[2]
                if depth > 12 or not isinstance(e, tuple) or not e:
                    return "unknown: %s" % fmt(e)[:60]
                if e[0] == "const":
                    return "yes" if isinstance(e[1], (int, float)) and e[1] > 0 else "no: constant %s" % (e[1],)
                if e[0] == "cast" and e[1] == "IntToFloat":
                    x = e[2]
                    while isinstance(x, tuple) and x and x[0] == "cast" and x[1] == "IntToInt":
                        x = x[2]
                    for (cc, v) in facts:
                        if cc[0] == "bin" and cc[2] == x and cc[3][0] == "const" and cc[3][1] == 0:
                            if (cc[1] == "Eq" and v is False) or (cc[1] == "Ne" and v is True) or \
                                    (cc[1] == "Gt" and v is True) or (cc[1] == "Le" and v is False):
                                return "yes"
                    if x[0] in ("call", "callat"):
                        nm = x[1] if x[0] == "call" else x[2]
                        args = x[2] if x[0] == "call" else x[3]
                        if nm == "max" and len(args) == 2 and any(
                                a[0] == "const" and isinstance(a[1], int) and a[1] >= 1 for a in args):
                            return "yes"
                        if nm == "get" and "NonZero" in fmt(x):
                            return "yes"
                    if x[0] == "param" and f.local_ty(x[1]) in INT:
                        return "no: `%s` is an argument of type %s and nothing on the path " \
                               "excludes 0" % (x[2], f.local_ty(x[1]))
                    return "unknown: %s" % fmt(x)[:60]
                if e[0] == "bin" and e[1] in ("Div", "Mul"):
                    a, b = positive(e[2], depth + 1), positive(e[3], depth + 1)
                    for r in (b, a):
                        if r.startswith("no"):
                            return r
                    for r in (b, a):
                        if r != "yes":
                            return r
                    return "yes"
                if e[0] in ("call", "callat"):
                    nm = e[1] if e[0] == "call" else e[2]
                    args = e[2] if e[0] == "call" else e[3]
                    if nm in ("min", "max") and len(args) == 2:
                        a, b = positive(args[0], depth + 1), positive(args[1], depth + 1)
                        if nm == "max" and "yes" in (a, b):
                            return "yes"
                        for r in (a, b):
                            if r.startswith("no"):
                                return r
                        for r in (a, b):
                            if r != "yes":
                                return r
                        return "yes"
                # a float value: positive when a guard on the path says so
                for (cc, v) in facts:
                    if cc[0] == "bin" and cc[2] == e and cc[3][0] == "const" and cc[3][1] in (0, 0.0):
                        if (cc[1] == "Le" and v is False) or (cc[1] == "Gt" and v is True):
                            return "yes"
                return "unknown: %s" % fmt(e)[:60]

            def divisors(e, acc, depth=0):
                if not isinstance(e, tuple) or not e or depth > 30:
                    return
                if e[0] == "bin" and e[1] == "Div":
                    acc.append(e[3])
                for x in (e[1:] if isinstance(e[0], str) else e):
                    if isinstance(x, tuple):
                        divisors(x, acc, depth + 1)
                    elif isinstance(x, (list,)):
                        for y in x:
                            divisors(y, acc, depth + 1)

            for ai, axis in ((1, "width"), (2, "height")):
                if ai >= len(c.args):
                    continue
                e = sym.operand(c.args[ai], (c.bb, "term"))
                s_ = fmt(e)
                if "FloatToInt" not in str(e):
                    continue            # an integer size (checked by the arithmetic rules)
                n += 1
                ds = []
                divisors(e, ds)
                key = "%s|%s" % (f.name, axis)
                verdicts = [(d, positive(d)) for d in ds]
                bad = [(d, v) for d, v in verdicts if v.startswith("no")]
                unk = [(d, v) for d, v in verdicts if v.startswith("unknown")]
                if bad:
                    d, v = bad[0]
                    rep.bad(rule, "%s|zero-divisor" % key, c.at,
                            "%s of the intermediate image = %s: the divisor %s can be zero (%s); the "
                            "intermediate image then has size 0 and nothing is resized"
                            % (axis, s_[:120], fmt(d)[:60], v[4:]))
                elif unk:
                    rep.unk(rule, key, c.at, "divisor %s" % "; ".join(v for _, v in unk)[:200])
                else:
                    rep.ok(rule, key, c.at, "%d divisors on the way to the %s are positive" % (len(ds), axis))
    rep.floor(rule, "float-derived sizes of intermediate images", n, 2)


def short_name(name):
    import re as _re
    return _re.sub(r"<[^>]*>", "", name).rsplit("::", 1)[-1]


def run(rep, tier):
    cfgs = ["x86"] if tier == "quick" else ["x86", "x86-rayon", "arm", "wasm"]
    for cfg, prog in programs(cfgs):
        rep.set_cfg(cfg)
        rep.call(must_write, rep, prog, "C05.must-write")
        rep.call(temp_size, rep, prog, "C05.temp-size")
        from ..engines import zerodim
        rep.call(zerodim.zero_untouched, rep, prog, "C05.zero-untouched")
        rep.call(views.rows_bounded, rep, prog, "C05.rows-bounded")
        rep.call(row_coverage.group_tail, rep, prog, "C05.kernel-rows")
        rep.call(row_coverage.tail_complete, rep, prog, "C05.tail-complete")
        rep.call(row_coverage.zip_store, rep, prog, "C05.store-every-pixel")
        rep.call(row_coverage.tail_reached, rep, prog, "C05.tail-reached", {"x86": 4, "x86-rayon": 4, "wasm": 1}.get(cfg, 0))
        rep.call(index_rules.cropped_row_slices, rep, prog, "C05.view-rect")
        # the owned containers hand out exactly height rows of exactly width pixels (none for a
        # zero width, whatever the buffer holds beyond the image)
        from . import c13 as _c13
        rep.call(_c13.typed_image_rows, rep, prog, "C05.view-rows")
        from . import c12
        rep.call(c12.skip_arm, rep, prog, "C05.fallible-write")
        from . import c13
        rep.call(c13.step_count, rep, prog, "C05.step-count")
        # component conversion: no write before both dimensions were compared (error => untouched;
        # success => every row of the destination paired with a source row)
        from . import c17 as _c17
        rep.call(_c17.reject_rule, rep, prog, "C05.convert-reject")
        # bands of source and destination are paired by position: if two splitters distribute
        # the surplus rows differently, the zip of their rows stops early and rows stay unwritten
        from . import c14
        rep.call(c14.sizes, rep, prog, "C05.band-sizes", siblings=True)
        rep.call(storewidth.check, rep, prog, "C05.storewidth", storewidth.FLOOR.get(cfg, 40))
        if cfg.startswith("x86"):
            rep.call(loadwidth.chunk_store, rep, prog, "C05.chunk-store")
