"""C11 — nearest neighbour picks the source pixel under each destination centre (clauses)."""
import re
from ..engines import axis, deps, index_rules, formulas
from ..engines.index_rules import iter_source
from ..engines.validators import closure_return
from ..progs import programs
from ..sym import Sym, fmt
from . import c07


def axis_rule(rep, prog, rule):
    rep.rule(rule, "in resample_nearest the column table is computed from horizontal quantities "
             "only (crop.left, crop.width, dst width, source width) and the row stepping "
             "iter_rows_with_step(start, step, count) from vertical ones only; destination rows "
             "start at 0")
    f = prog.fn_by_name("resizer::resample_nearest")
    rep.touch(f)
    sym = Sym(f)
    K = axis.Kinds(prog, f, sym)
    # column table
    maps = [c for c in f.calls() if c.name.endswith("Iterator::map")]
    n = 0
    for c in maps:
        clo = sym.operand(c.args[1])
        if clo[0] != "agg" or clo[1] != "closure":
            continue
        n += 1
        r = closure_return(prog, clo[2], [("const", 0, "u32")], list(clo[4]))
        rng = sym.operand(c.args[0])
        k = K.kind(r) if r is not None else None
        kr = K.kind(rng)
        if r is None:
            rep.unk(rule, "x_in_tab", c.at, "closure not a single expression")
        elif k == "X" and kr in ("X", None):
            rep.ok(rule, "x_in_tab", c.at, "entries %s over 0..%s" % (fmt(r)[:100], fmt(rng)[:40]))
        elif k is None and kr in ("X", None):
            rep.unk(rule, "x_in_tab", c.at, "axis of the entries %s not determined" % fmt(r)[:100])
        else:
            rep.bad(rule, "x_in_tab", c.at, "column table mixes axes: entries of kind %s (%s) over "
                    "a range of kind %s" % (k, fmt(r)[:140], kr))
    rep.floor(rule, "column table closures", n, 1)
    steps = [c for c in f.calls() if c.method == "iter_rows_with_step"]
    rep.floor(rule, "iter_rows_with_step calls", len(steps), 1)
    for c in steps:
        ks = [K.kind(sym.operand(a)) for a in c.args[1:4]]
        if all(k in ("Y",) for k in ks):
            rep.ok(rule, "rows", c.at, "start/step/count all vertical")
        elif all(k in ("Y", None) for k in ks):
            # e.g. the values travel in a small struct built by a constructor: not followed
            rep.unk(rule, "rows", c.at, "iter_rows_with_step(start, step, count): axis of %s not "
                    "determined" % [fmt(sym.operand(a))[:60] for a, k in zip(c.args[1:4], ks) if k is None])
        else:
            rep.bad(rule, "rows", c.at, "iter_rows_with_step(start, step, count) receives kinds %s: "
                    "%s" % (ks, [fmt(sym.operand(a))[:60] for a in c.args[1:4]]))
    for c in [c for c in f.calls() if c.method == "iter_rows_mut"]:
        s = sym.operand(c.args[1])
        if s == ("const", 0, "u32"):
            rep.ok(rule, "dst-rows", c.at, "iter_rows_mut(0)")
        else:
            rep.bad(rule, "dst-rows", c.at, "destination rows start at %s" % fmt(s))


def copy_only(rep, prog, rule):
    rep.rule(rule, "the pixel stored by resample_nearest is the pixel loaded from the source row "
             "(no arithmetic on its dependence path)")
    f = prog.fn_by_name("resizer::resample_nearest")
    sym = Sym(f)
    n = 0
    for b, blk in enumerate(f.blocks):
        if blk["c"]:
            continue
        for j, st in enumerate(blk["s"]):
            if st[0] == "a" and "*" in st[1][1:] and "&mut P" in f.local_ty(st[1][0]):
                n += 1
                val = sym.rvalue(st[2], b, (b, j))
                tr = deps.Tracer(prog, 64)
                p = tr.unsaturated(f, val)
                src = iter_source(f, sym, val)
                if p is None and "get_unchecked" in fmt(val):
                    rep.ok(rule, "store", st[3], "*out = %s" % fmt(val)[:100])
                elif p is not None:
                    rep.bad(rule, "store", st[3], "the stored pixel is computed: %s" % " <- ".join(p[-5:]))
                else:
                    rep.unk(rule, "store", st[3], "stored value %s" % fmt(val)[:100])
    rep.floor(rule, "pixel stores in resample_nearest", n, 1)


def step_unquantised(rep, prog, rule):
    rep.rule(rule, "in every implementation of iter_rows_with_step (closures included) and in "
             "resample_nearest a float is truncated to an integer only to obtain a row / column index "
             "or a count: no f64 value is first SCALED BY A CONSTANT and then truncated -- the "
             "conversion of the start or the step into fixed point (`(v * 2^32) as u64`), which "
             "quantises the step and lets the accumulated position drift below the exact one "
             "(i * 2^-32 after i rows: for a destination of a few hundred thousand rows some rows come "
             "from the source row above the right one)")
    n = 0
    scope = [f for f in prog.fns.values()
             if re.search(r"iter_rows_with_step|(^|::)resample_nearest", f.name)]
    for f in sorted(scope, key=lambda x: x.id):
        sym = None
        for b, blk in enumerate(f.blocks):
            if blk["c"]:
                continue
            for j, st in enumerate(blk["s"]):
                if not (st[0] == "a" and st[2][0] == "cast" and st[2][1] == "FloatToInt"):
                    continue
                n += 1
                rep.touch(f)
                sym = sym or Sym(f)
                e = sym.operand(st[2][2], (b, j))
                while isinstance(e, tuple) and e and e[0] in ("copy", "ref", "deref"):
                    e = e[1]
                key = "%s|%s" % (f.name, fmt(e)[:50])
                scaled = None
                if isinstance(e, tuple) and e and e[0] == "bin" and e[1] == "Mul":
                    for x, c in ((e[2], e[3]), (e[3], e[2])):
                        if _is_constant(c) and not _is_constant(x):
                            scaled = (x, c)
                if scaled:
                    rep.bad(rule, key + "|fixed-point", st[3],
                            "%s truncates %s: a float scaled by the constant %s and cut to an integer is a "
                            "fixed-point copy of that value (the start / step of the row positions): the "
                            "quantised step drifts away from floor(top + (y + 0.5) * scale)" % (
                                f.name, fmt(e)[:80], fmt(scaled[1])[:30]))
                else:
                    rep.ok(rule, key, st[3], "truncation of a position or a count")
    rep.floor(rule, "float-to-integer truncations in the nearest-neighbour path", n, 6)


def _is_constant(e):
    """an expression without parameters, locals or calls on them (literals, casts, shifts of literals)"""
    if not isinstance(e, tuple) or not e:
        return True
    if e[0] in ("param", "local", "call", "callat", "field", "unknown", "index"):
        return False
    return all(_is_constant(x) for x in e if isinstance(x, tuple))


def source_columns(rep, prog, rule):
    rep.rule(rule, "the functions that read the rows of the (uncropped) source view themselves -- "
             "resample_nearest, copy_image / iter_cropped_rows -- address every such row with a column "
             "(index, range, get_unchecked) that is computed from the crop box's `left` (taint through "
             "locals, tables, closures and iterators): a row access whose column does not depend on "
             "`left` -- `&in_row[..dst_width]` in a 'the width is unchanged' shortcut -- reads the "
             "columns 0.. of the source instead of the crop's")
    from .c14 import _taint
    n = 0
    for f in sorted(prog.fns.values(), key=lambda x: x.id):
        if f.kind == "closure" or not re.search(r"(^|::)(resample_nearest|iter_cropped_rows|copy_image)$", f.name):
            continue
        left_seeds, row_seeds = set(), set()
        for blk in f.blocks:
            if blk["c"]:
                continue
            for st in blk["s"]:
                if st[0] == "a" and st[2][0] == "use" and st[2][1][0] in ("c", "m"):
                    pl = st[2][1][1]
                    if any(isinstance(el, list) and el[0] == "f" and el[2] == "left" for el in pl[1:]):
                        left_seeds.add(st[1][0])
            t = blk["t"]
            if t[0] == "call" and t[3]:
                m = t[1].get("method") or (t[1].get("name") or "").rsplit("::", 1)[-1]
                if m in ("iter_rows", "iter_rows_with_step", "iter_2_rows", "iter_4_rows"):
                    row_seeds.add(t[3][0])
        if not row_seeds:
            continue
        rep.touch(f)
        if not left_seeds:
            rep.unk(rule, "%s|left" % f.name, f.loc, "the function reads source rows but never the crop box's left")
            continue
        lt, l_op = _taint(prog, f, left_seeds)
        rt, r_op = _taint(prog, f, row_seeds)
        owners = [(f, l_op, r_op)]
        for g in f.closures():
            lf = set()
            rf = set()
            for blk in f.blocks:
                for st in blk["s"]:
                    if st[0] == "a" and st[2][0] == "agg" and st[2][1] == "closure" and st[2][2] == g.id:
                        for i, o in enumerate(st[2][4] or []):
                            if l_op(o):
                                lf.add(i)
                            if r_op(o):
                                rf.add(i)
            # the items the closure receives: tainted when the iterator it is applied to is
            # (`zip(x_in_tab.iter()).for_each(|(out_pixel, &x_in)| ..)`)
            lparams, rparams = set(), set()
            clos_locals = set()
            for blk in f.blocks:
                for st in blk["s"]:
                    if st[0] == "a" and st[2][0] == "agg" and st[2][1] == "closure" and st[2][2] == g.id:
                        clos_locals.add(st[1][0])
            for c in f.calls():
                idx = [i for i, a in enumerate(c.args) if a[0] in ("c", "m") and a[1] and a[1][0] in clos_locals]
                if not idx:
                    continue
                others = [a for i, a in enumerate(c.args) if i not in idx]
                if any(l_op(a) for a in others):
                    lparams |= set(range(2, g.arg_count + 1))
                if any(r_op(a) for a in others):
                    rparams |= set(range(2, g.arg_count + 1))
            lt2, l2 = _taint(prog, g, lparams, lf)
            rt2, r2 = _taint(prog, g, rparams, rf)
            # a closure that receives the row as its parameter: `.map(move |row| row.get_unchecked(a..b))`
            if not rf and g.arg_count >= 2:
                rt2, r2 = _taint(prog, g, {2})
            owners.append((g, l2, r2))
        for (g, lo, ro) in owners:
            for c in g.calls():
                m = c.method or (c.name or "").rsplit("::", 1)[-1]
                if m not in ("get_unchecked", "index", "get", "split_at", "get_unchecked_mut"):
                    continue
                if not c.args or not ro(c.args[0]):
                    continue
                n += 1
                key = "%s|%s@%s" % (f.name, m, (c.at or "").rsplit(":", 1)[0].rsplit("/", 1)[-1])
                key = "%s|%s" % (f.name, m)
                if any(lo(a) for a in c.args[1:]):
                    rep.ok(rule, key, c.at, "the column depends on the crop box's left")
                else:
                    rep.bad(rule, key + "|left-dropped", c.at,
                            "%s reads a source row with `%s` at a column that does not depend on the crop "
                            "box's left: for a crop with left > 0 the pixels come from the wrong columns "
                            "(the rows handed out by iter_rows / iter_rows_with_step are rows of the whole "
                            "source view)" % (f.name, m))
    rep.floor(rule, "column accesses of source rows", n, 2)


def run(rep, tier):
    cfgs = ["x86", "x86-rayon"] if tier == "quick" else ["x86", "x86-rayon", "arm", "wasm"]
    for cfg, prog in programs(cfgs):
        rep.set_cfg(cfg)
        if "rayon" in cfg:
            # bands of a threaded nearest-neighbour pass must continue the accumulated row positions
            from . import c08
            rep.call(c08.float_restart, rep, prog, "C11.band-rows")
            if tier == "quick":
                continue
        rep.call(axis_rule, rep, prog, "C11.axis")
        rep.call(index_rules.nearest_index, rep, prog, "C11.index", strict=True)
        rep.call(copy_only, rep, prog, "C11.copy")
        rep.call(c07.nearest_no_alpha, rep, prog, "C11.no-alpha")
        rep.call(formulas.nearest_formula, rep, prog, "C11.formula")
        rep.call(step_unquantised, rep, prog, "C11.step-unquantised")
        rep.call(source_columns, rep, prog, "C11.source-columns")
        # the same-size shortcut taken before resample_nearest copies src(trunc(left) + x, trunc(top) + y):
        # equal to floor(left + x + 0.5) only for an integral origin, which the shortcut must test
        from . import c12 as _c12
        rep.call(_c12.copy_cond, rep, prog, "C11.copy-cond")
        from . import c09
        rep.call(c09.state_fields, rep, prog, "C11.stateless")
        from ..engines import validators
        rep.call(validators.crop_passthrough, rep, prog, "C11.crop-passthrough")
        # rows selected for a cropped source: overrides of the stepped row iterator in the cropped
        # views must hand out the rows the default does (start offset, row limit)
        from ..engines import index_rules as _ir
        rep.call(_ir.cropped_row_slices, rep, prog, "C11.cropped-rows")
        # the row / column indices of the copied pixel are computed without wrapping
        # (not on the 32-bit configuration: there `usize` products such as row * width are bounded
        # by the slice-length invariant of the containers, which the witness search does not
        # know -- DESIGN Appendix B; the seeded u32 product is a 64-bit matter)
        if cfg == "wasm":
            continue
        from . import c03
        rep.call(c03.arith, rep, prog, "C11.arith",
                 only=lambda f: "iter_rows_with_step" in f.name or "resample_nearest" in f.name)
