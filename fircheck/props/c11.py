"""C11 — nearest neighbour picks the source pixel under each destination centre (clauses)."""
from ..engines import axis, deps, index_rules, formulas
from ..engines.index_rules import iter_source
from ..engines.validators import closure_return
from ..progs import programs
from ..sym import Sym, fmt
from . import c07


def axis_rule(rep, prog, rule):
    rep.rule(rule, "in resample_nearest the column table is computed from horizontal quantities "
             "only (crop.left, crop.width, dst width, source width) and the row stepping "
             "iter_rows_with_step(start, step, count) from vertical ones only; destination rows "
             "start at 0")
    f = prog.fn_by_name("resizer::resample_nearest")
    rep.touch(f)
    sym = Sym(f)
    K = axis.Kinds(prog, f, sym)
    # column table
    maps = [c for c in f.calls() if c.name.endswith("Iterator::map")]
    n = 0
    for c in maps:
        clo = sym.operand(c.args[1])
        if clo[0] != "agg" or clo[1] != "closure":
            continue
        n += 1
        r = closure_return(prog, clo[2], [("const", 0, "u32")], list(clo[4]))
        rng = sym.operand(c.args[0])
        k = K.kind(r) if r is not None else None
        kr = K.kind(rng)
        if r is None:
            rep.unk(rule, "x_in_tab", c.at, "closure not a single expression")
        elif k == "X" and kr in ("X", None):
            rep.ok(rule, "x_in_tab", c.at, "entries %s over 0..%s" % (fmt(r)[:100], fmt(rng)[:40]))
        elif k is None and kr in ("X", None):
            rep.unk(rule, "x_in_tab", c.at, "axis of the entries %s not determined" % fmt(r)[:100])
        else:
            rep.bad(rule, "x_in_tab", c.at, "column table mixes axes: entries of kind %s (%s) over "
                    "a range of kind %s" % (k, fmt(r)[:140], kr))
    rep.floor(rule, "column table closures", n, 1)
    steps = [c for c in f.calls() if c.method == "iter_rows_with_step"]
    rep.floor(rule, "iter_rows_with_step calls", len(steps), 1)
    for c in steps:
        ks = [K.kind(sym.operand(a)) for a in c.args[1:4]]
        if all(k in ("Y",) for k in ks):
            rep.ok(rule, "rows", c.at, "start/step/count all vertical")
        elif all(k in ("Y", None) for k in ks):
            # e.g. the values travel in a small struct built by a constructor: not followed
            rep.unk(rule, "rows", c.at, "iter_rows_with_step(start, step, count): axis of %s not "
                    "determined" % [fmt(sym.operand(a))[:60] for a, k in zip(c.args[1:4], ks) if k is None])
        else:
            rep.bad(rule, "rows", c.at, "iter_rows_with_step(start, step, count) receives kinds %s: "
                    "%s" % (ks, [fmt(sym.operand(a))[:60] for a in c.args[1:4]]))
    for c in [c for c in f.calls() if c.method == "iter_rows_mut"]:
        s = sym.operand(c.args[1])
        if s == ("const", 0, "u32"):
            rep.ok(rule, "dst-rows", c.at, "iter_rows_mut(0)")
        else:
            rep.bad(rule, "dst-rows", c.at, "destination rows start at %s" % fmt(s))


def copy_only(rep, prog, rule):
    rep.rule(rule, "the pixel stored by resample_nearest is the pixel loaded from the source row "
             "(no arithmetic on its dependence path)")
    f = prog.fn_by_name("resizer::resample_nearest")
    sym = Sym(f)
    n = 0
    for b, blk in enumerate(f.blocks):
        if blk["c"]:
            continue
        for j, st in enumerate(blk["s"]):
            if st[0] == "a" and "*" in st[1][1:] and "&mut P" in f.local_ty(st[1][0]):
                n += 1
                val = sym.rvalue(st[2], b, (b, j))
                tr = deps.Tracer(prog, 64)
                p = tr.unsaturated(f, val)
                src = iter_source(f, sym, val)
                if p is None and "get_unchecked" in fmt(val):
                    rep.ok(rule, "store", st[3], "*out = %s" % fmt(val)[:100])
                elif p is not None:
                    rep.bad(rule, "store", st[3], "the stored pixel is computed: %s" % " <- ".join(p[-5:]))
                else:
                    rep.unk(rule, "store", st[3], "stored value %s" % fmt(val)[:100])
    rep.floor(rule, "pixel stores in resample_nearest", n, 1)


def run(rep, tier):
    cfgs = ["x86"] if tier == "quick" else ["x86", "x86-rayon", "arm", "wasm"]
    for cfg, prog in programs(cfgs):
        rep.set_cfg(cfg)
        rep.call(axis_rule, rep, prog, "C11.axis")
        rep.call(index_rules.nearest_index, rep, prog, "C11.index", strict=True)
        rep.call(copy_only, rep, prog, "C11.copy")
        rep.call(c07.nearest_no_alpha, rep, prog, "C11.no-alpha")
        rep.call(formulas.nearest_formula, rep, prog, "C11.formula")
        from . import c09
        rep.call(c09.state_fields, rep, prog, "C11.stateless")
        from ..engines import validators
        rep.call(validators.crop_passthrough, rep, prog, "C11.crop-passthrough")
        # rows selected for a cropped source: overrides of the stepped row iterator in the cropped
        # views must hand out the rows the default does (start offset, row limit)
        from ..engines import index_rules as _ir
        rep.call(_ir.cropped_row_slices, rep, prog, "C11.cropped-rows")
        # the row / column indices of the copied pixel are computed without wrapping
        # (not on the 32-bit configuration: there `usize` products such as row * width are bounded
        # by the slice-length invariant of the containers, which the witness search does not
        # know -- DESIGN Appendix B; the seeded u32 product is a 64-bit matter)
        if cfg == "wasm":
            continue
        from . import c03
        rep.call(c03.arith, rep, prog, "C11.arith",
                 only=lambda f: "iter_rows_with_step" in f.name or "resample_nearest" in f.name)
