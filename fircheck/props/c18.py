"""C18 — non-negative filters never overshoot and preserve order (clauses)."""
import re

from ..engines import deps, mono, roundbudget, simd_rules
from ..engines.mono import INF
from ..progs import programs

NONNEG = ["box_filter", "bilinear_filter", "hamming_filter", "gaussian_filter"]


def kernel_sign(rep, prog, rule):
    rep.rule(rule, "the kernel functions of Box, Bilinear, Hamming and Gaussian return values in "
             "[0, +inf) on every piece of their domain (interval evaluation; sin on [0, pi] and "
             "exp are non-negative, 0.54 + 0.46 cos >= 0.08)")
    for n in NONNEG:
        f = prog.fn_by_name("convolution::filters::" + n)
        rep.touch(f)
        res = mono.analyse(prog, f, -INF, INF)
        bad = [(pc, iv) for pc, m, iv in res if iv is not None and iv[0] < 0]
        unk = [pc for pc, m, iv in res if iv is None]
        if bad:
            rep.bad(rule, n, f.loc, "%s can return a negative weight on %r: range [%g, %g]" % (
                n, bad[0][0], bad[0][1][0], bad[0][1][1]))
        elif unk:
            rep.unk(rule, n, f.loc, "range not evaluated on %r" % (unk[0],))
        else:
            rep.ok(rule, n, f.loc, "range within [0, %g]" % max(iv[1] for _, _, iv in res))


def run(rep, tier):
    cfgs = ["x86"] if tier == "quick" else ["x86", "arm", "wasm"]
    for cfg, prog in programs(cfgs):
        rep.set_cfg(cfg)
        rep.call(kernel_sign, rep, prog, "C18.kernel-sign")
        rep.call(simd_rules.zero_extend, rep, prog, "C18.zero-extend")
        rep.call(simd_rules.pixel_sign, rep, prog, "C18.pixel-sign")
        rep.call(simd_rules.native_clip, rep, prog, "C18.native-clip")
        rep.call(simd_rules.tail_initial, rep, prog, "C18.tail-initial", {"x86": 4}.get(cfg, 1))
        rep.call(simd_rules.conv_saturate, rep, prog, "C18.saturate")
        rep.call(simd_rules.arith_shift, rep, prog, "C18.arith-shift", {"x86": 30, "arm": 20, "wasm": 5}.get(cfg, 5))
        if cfg.startswith("x86"):
            # every pixel lane meets the coefficient of its own source position: a coefficient
            # used twice and another dropped leaves the weights non-negative but their sum != 1
            from ..engines import lanepair
            rep.call(lanepair.pairing, rep, prog, "C18.lane-pairing")
        from ..engines import type_tables
        rep.call(type_tables.clip_table, rep, prog, "C18.clip-table")
        from ..engines import dispatch_rules
        rep.call(dispatch_rules.headroom, rep, prog, "C18.headroom")
        from ..engines import formulas as _formulas
        rep.call(_formulas.quantised_untouched, rep, prog, "C18.coefficients-untouched")
        rep.call(simd_rules.f64_accumulate, rep, prog, "C18.f64-accumulate", {"x86": 100, "x86-rayon": 100}.get(cfg, 8))
        rep.call(roundbudget.budget, rep, prog, "C18.round-budget", {"x86": 110, "arm": 60, "wasm": 55}.get(cfg, 40))
        # the property is stated for "alpha handling off": the flag the caller cleared must be the
        # one that reaches the premultiply / divide decision on every route (a swapped or constant
        # flag runs the alpha pipeline, whose division leaves the source range)
        from . import c07
        from ..engines import siblings
        rep.call(c07.pipeline, rep, prog, "C18.alpha-flag")
        rep.call(c07.supersampling_alpha, rep, prog, "C18.alpha-flag-supersampling")
        rep.call(siblings.forwarded_args, rep, prog, "C18.forwarded-options")
