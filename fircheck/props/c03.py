"""C03 — no UB, crash or panic through the safe API (DESIGN §4 C03)."""
from ..engines import ranges, dispatch_rules, validators, index_rules, witness, loadwidth, storewidth
from ..progs import programs


def arith(rep, prog, rule, only=None):
    rep.rule(rule, "every overflow / division assert of the geometry-container layer is entailed "
             "by intervals (types, getter ranges, casts) or by a guard on a dominating edge; it is "
             "a violation when all operands are caller-controlled, lie in different components of "
             "the fact graph and are not compared with a constant")
    freedom = ranges.Freedom(prog)
    pinfo = ranges.ParamInfo(prog)
    n = 0
    for f in sorted(prog.fns.values(), key=lambda x: x.id):
        if not ranges.in_scope(f):
            continue
        if only and not only(f):
            continue
        obs = ranges.assert_obligations(f)
        if not obs:
            continue
        rep.touch(f)
        ctx = ranges.Ctx(prog, f, pinfo)
        compile_time_only = (f.kind == "fn" and not f.d.get("pub") and not f.d.get("reachable")
                             and not prog.callers().get(f.id) and not f.d.get("method")
                             and "[" in (f.d.get("output") or ""))
        for ob in obs:
            n += 1
            if compile_time_only:
                # table builders (`const fn` returning an array) that no run-time code calls:
                # they are evaluated while compiling the constants / statics they initialise,
                # where an overflow is a compile error
                rep.ok(rule, ranges.site_key(f, ob.kind, [ctx.sym.operand(o) for o in ob.ops]),
                       "%s (%s)" % (ob.at, f.name), "evaluated at compile time only (no run-time "
                       "caller): an overflow would not compile", nontrivial=False)
                continue
            exprs = [ctx.sym.operand(o) for o in ob.ops]
            key = ranges.site_key(f, ob.kind, exprs)
            v, d = ranges.decide_arith(ctx, ob, freedom)
            where = "%s (%s)" % (ob.at, f.name)
            if v == "DISCHARGED":
                rep.ok(rule, key, where, d)
            elif v == "VIOLATION":
                rep.bad(rule, key, where, d)
            else:
                rep.unk(rule, key, where, d)
    return n


def run(rep, tier):
    cfgs = ["x86", "x86-rayon"] if tier == "quick" else ["x86", "x86-rayon", "arm", "wasm"]
    if tier == "thorough":
        rep.set_cfg("witness")
        rep.call(witness.report, rep, "C03.types", ["W1", "W2", "W7"])
    for cfg, prog in programs(cfgs):
        rep.set_cfg(cfg)
        if cfg == "wasm":
            # 32-bit usize: arithmetic is informational only (DESIGN Appendix B); kernels are checked
            rep.call(loadwidth.guard_adequacy, rep, prog, "C03.loadwidth", loadwidth.FLOOR.get(cfg, 50))
            rep.call(storewidth.check, rep, prog, "C03.storewidth", storewidth.FLOOR.get(cfg, 40))
            continue
        n = rep.call(arith, rep, prog, "C03.arith") or 0
        rep.floor("C03.arith", "arithmetic asserts in scope", n, 100)
        rep.call(validators.crop_f64, rep, prog, "C03.crop-validate")
        rep.call(validators.validators_no_panic, rep, prog, "C03.validators-no-panic")
        # `chunks_exact(0)` panics: the owned containers take the zero-width branch by the WIDTH
        from . import c13 as _c13
        rep.call(_c13.typed_image_rows, rep, prog, "C03.view-rows")
        rep.call(validators.crop_u32, rep, prog, "C03.crop-validate-u32")
        rep.call(validators.constructors_validate, rep, prog, "C03.invariants")
        # the dynamic images unwrap the typed view of a buffer their constructor accepted
        rep.call(validators.align_reject, rep, prog, "C03.align-reject")
        # ... and the alignment test of the constructors is unconditional (an exemption, e.g. for an
        # image without pixels, is accepted by the constructor and panics in the typed accessors)
        rep.call(validators.buffer_validators, rep, prog, "C03.buffers")
        rep.call(validators.unchecked_crop, rep, prog, "C03.unchecked-crop")
        rep.call(index_rules.unchecked_sites, rep, prog, "C03.unchecked-sites")
        rep.call(index_rules.nearest_index, rep, prog, "C03.index-nearest")
        rep.call(index_rules.cropped_row_slices, rep, prog, "C03.index-rows")
        rep.call(index_rules.table_index, rep, prog, "C03.table-index")
        rep.call(index_rules.unwraps, rep, prog, "C03.unwrap")
        rep.call(index_rules.scratch_grow, rep, prog, "C03.scratch-grow")
        rep.call(index_rules.bounds_trim, rep, prog, "C03.bounds-trim")
        from ..engines import emptytable
        rep.call(emptytable.coeffs_nonempty, rep, prog, "C03.coeffs-nonempty")
        rep.call(storewidth.check, rep, prog, "C03.storewidth", storewidth.FLOOR.get(cfg, 40))
        rep.call(dispatch_rules.t_precision, rep, prog, "C03.precision", report_empty=False)
        rep.call(dispatch_rules.headroom, rep, prog, "C03.headroom")
        rep.call(dispatch_rules.t_feature, rep, prog, "C03.feature")
        if cfg != "x86-rayon":
            rep.call(loadwidth.guard_adequacy, rep, prog, "C03.loadwidth", loadwidth.FLOOR.get(cfg, 50))
