"""C17 — depth conversion is monotone, keeps endpoints, lossless when widening (clauses)."""
from ..engines import mono, witness, type_tables
from ..engines.mono import INF
from ..facts import CheckError
from ..progs import programs
from ..sym import Sym, fmt

SRC_RANGE = {"u8": (0.0, 255.0), "u16": (0.0, 65535.0), "i32": (-2.0**31, 2.0**31 - 1),
             "f32": (-INF, INF)}


def conversions(prog):
    tid = prog.trait_id("pixels::IntoPixelComponent")
    out = []
    for imp in prog.impls_of(tid):
        m = imp["methods"].get("into_component")
        if m and m in prog.fns:
            out.append((prog.fns[m], imp["self_ty"], imp.get("trait_ref", "")))
    return out


def mono_rule(rep, prog, rule):
    rep.rule(rule, "every IntoPixelComponent::into_component is monotone non-decreasing: the "
             "source range is partitioned at the constants the argument is compared with and each "
             "piece is evaluated over (monotonicity, interval); a piece on which the result is "
             "non-increasing with a non-degenerate output range, or adjacent pieces whose output "
             "ranges are strictly out of order, is a violation")
    convs = conversions(prog)
    rep.floor(rule, "into_component implementations", len(convs), 13)
    for f, src, tref in sorted(convs, key=lambda x: x[0].id):
        rep.touch(f)
        rng = SRC_RANGE.get(src)
        dst = f.d.get("output")
        key0 = "%s->%s" % (src, dst)
        if rng is None:
            rep.ok(rule, key0, f.loc, "identity conversion for a generic component")
            continue
        res = mono.analyse(prog, f, rng[0], rng[1])
        vs = mono.verdicts(res)
        bad = [v for v in vs if v[0] == "bad"]
        unk = [v for v in vs if v[0] == "unk"]
        if bad:
            for i, v in enumerate(bad):
                rep.bad(rule, "%s|decreasing#%d" % (key0, i), f.loc, "%s: %s" % (f.name, v[1]))
        elif unk:
            rep.unk(rule, key0, f.loc, "; ".join(v[1] for v in unk)[:300])
        else:
            rep.ok(rule, key0, f.loc, "; ".join(v[1] for v in vs)[:300])


def reject_rule(rep, prog, rule):
    rep.rule(rule, "change_type_of_pixel_components_typed writes only after both dimension "
             "comparisons succeeded (Err(DifferentDimensions) otherwise)")
    f = prog.fn_by_name("change_components_type::change_type_of_pixel_components_typed")
    rep.touch(f)
    sym = Sym(f)
    writers = [c for c in f.calls() if c.method == "iter_rows_mut"]
    rep.floor(rule, "writer calls", len(writers), 1)
    for c in writers:
        facts = sym.facts_at(c.bb)
        s = " ".join("%s=%s" % (fmt(cc), v) for cc, v in facts)
        okw = any("width(src_image)" in fmt(cc) and "width(dst_image)" in fmt(cc) and
                  ((cc[1] == "Ne" and v is False) or (cc[1] == "Eq" and v is True))
                  for cc, v in facts if cc[0] == "bin")
        okh = any("height(src_image)" in fmt(cc) and "height(dst_image)" in fmt(cc) and
                  ((cc[1] == "Ne" and v is False) or (cc[1] == "Eq" and v is True))
                  for cc, v in facts if cc[0] == "bin")
        if okw and okh:
            rep.ok(rule, "dimensions", c.at, "write dominated by width and height equality")
        else:
            rep.bad(rule, "dimensions", c.at, "the destination is written without %s equality "
                    "having been checked (facts: %s)" % (
                        "width" if not okw else "height", s[:200]))


RAW_COPY = ("from_raw_parts", "from_raw_parts_mut", "copy_from_slice", "clone_from_slice",
            "copy_nonoverlapping", "copy", "transmute", "transmute_copy", "align_to", "align_to_mut",
            "read_unaligned", "write_unaligned", "cast")


def convert_all(rep, prog, rule):
    """every destination component is produced by into_component()"""
    from ..sym import Sym, fmt
    rep.rule(rule, "in change_type_of_pixel_components_typed (and the crate-local helpers and "
             "closures it runs on the rows) destination components are produced by "
             "IntoPixelComponent::into_component only: no raw reinterpretation or bulk copy "
             "(from_raw_parts, copy_from_slice, transmute, pointer casts, copy_nonoverlapping) "
             "moves source components into the destination. Two component types of the same size "
             "(i32 / f32) have different value ranges; a copy is only the identity conversion when "
             "the types are the same type, which only a TypeId comparison can establish (such a "
             "guard makes the instance undecided, any other guard or none a violation)")
    roots = [f for f in prog.fns.values()
             if f.name == "change_components_type::change_type_of_pixel_components_typed"]
    if len(roots) != 1:
        rep.unk(rule, "anchor", "", "change_type_of_pixel_components_typed not found")
        return
    seen = {}
    work = [roots[0]]
    while work:
        f = work.pop()
        if f.id in seen:
            continue
        seen[f.id] = f
        for c in f.calls():
            for t in prog.call_targets(c):
                if t.file == roots[0].file and t.id not in seen:
                    work.append(t)
        for cl in f.closures():
            if cl.id not in seen:
                work.append(cl)
    n_conv = 0
    for f in sorted(seen.values(), key=lambda x: x.id):
        rep.touch(f)
        sym = Sym(f)
        for c in f.calls():
            nm = c.method or c.name.rsplit("::", 1)[-1]
            if nm == "into_component":
                n_conv += 1
                continue
            if nm in ("chunks_exact", "chunks_exact_mut", "as_chunks", "as_chunks_mut", "array_chunks") \
                    and len(c.args) == 2:
                # a walk in fixed-size groups converts the remainder too
                k = sym.operand(c.args[1], (c.bb, "term"))
                rem = [c2 for c2 in f.calls() if (c2.method or c2.name.rsplit("::", 1)[-1]) in
                       ("remainder", "into_remainder", "as_rchunks")]
                keyc = "%s|%s|remainder" % (f.name.rsplit("::", 1)[-1], nm)
                if rem:
                    rep.ok(rule, keyc, c.at, "the remainder of the chunked walk is taken (%s)" % rem[0].at)
                elif k[0] == "const" and isinstance(k[1], int) and k[1] > 1:
                    rep.bad(rule, keyc + "|dropped", c.at,
                            "%s walks the components of a row in groups of %d (%s) and never takes the "
                            "remainder: the last (width * components) %% %d components of every row are not "
                            "converted and keep the destination's old content (the maximum does not map to "
                            "the maximum there, widening then narrowing does not return the value)"
                            % (f.name, k[1], nm, k[1]))
                else:
                    rep.unk(rule, keyc, c.at, "chunk size %s without a remainder" % fmt(k)[:40])
                continue
            if nm not in RAW_COPY or prog.call_targets(c):
                continue
            if nm == "cast" and "ptr" not in c.name:
                continue
            facts = sym.facts_at(c.bb)
            typeid = any("TypeId" in fmt(cc) or "type_id" in fmt(cc) for cc, v in facts)
            key = "%s|%s" % (f.name.rsplit("::", 1)[-1], nm)
            if typeid:
                rep.unk(rule, key, c.at, "raw copy / reinterpretation `%s` behind a TypeId comparison" % nm)
            else:
                rep.bad(rule, key, c.at,
                        "%s uses `%s` on the components: values reach the destination without "
                        "into_component (conditions on the path: %s); component types of equal size "
                        "such as i32 and f32 are then copied bit for bit instead of being converted"
                        % (f.name, nm, "; ".join("%s is %s" % (fmt(cc)[:60], v) for cc, v in facts[:3]) or "none"))
    if n_conv:
        rep.ok(rule, "into_component", roots[0].loc, "%d into_component call(s) in %d function(s), no raw copy"
               % (n_conv, len(seen)), nontrivial=True)
    rep.floor(rule, "into_component calls on the conversion path", n_conv, 1)


def run(rep, tier):
    cfgs = ["x86"] if tier == "quick" else ["x86", "arm", "wasm"]
    for cfg, prog in programs(cfgs):
        rep.set_cfg(cfg)
        rep.call(mono_rule, rep, prog, "C17.mono")
        rep.call(reject_rule, rep, prog, "C17.reject")
        rep.call(type_tables.t_types, rep, prog, "C17.table")
        rep.call(round_trip, rep, prog, "C17.round-trip")
        rep.call(endpoints, rep, prog, "C17.endpoints")
        rep.call(dynamic_no_shortcut, rep, prog, "C17.dynamic-no-shortcut")
        rep.call(convert_all, rep, prog, "C17.convert-all")
    if tier == "thorough":
        rep.set_cfg("witness")
        rep.call(witness.report, rep, "C17.types", ["W4"])


# ---- widening round trips ---------------------------------------------------------------------

from fractions import Fraction as _F

RANGE = {"u8": (0, 255), "u16": (0, 65535)}
TYMAX = {"i32": 2**31 - 1, "u8": 255, "u16": 65535, "u32": 2**32 - 1, "i64": 2**63 - 1}
TYMIN = {"i32": -2**31, "u8": 0, "u16": 0, "u32": 0, "i64": -2**63}
ROUND_TRIPS = [("u8", "u16"), ("u8", "i32"), ("u8", "f32"), ("u16", "i32"), ("u16", "f32")]


class _Lin:
    """a*v + b for the symbolic input v in [lo, hi]; `fl` marks a value computed in f32"""
    def __init__(self, a, b, lo, hi, fl=False):
        self.a, self.b, self.lo, self.hi, self.fl = _F(a), _F(b), lo, hi, fl

    def rng(self):
        x, y = self.a * self.lo + self.b, self.a * self.hi + self.b
        return (min(x, y), max(x, y))


class _Floor:
    """floor((a*v + b) / d)"""
    def __init__(self, lin, d):
        self.lin, self.d = lin, _F(d)


def _rt_eval(e, arg, why):
    """symbolic value of expression e with ('param', 1, ..) bound to `arg` (a _Lin / _Floor)"""
    k = e[0]
    if k == "param":
        return arg
    if k == "const" and isinstance(e[1], (int, float)) and not isinstance(e[1], bool):
        return _Lin(0, _F(e[1]), 0, 0)
    if k == "ovf":
        return _rt_eval(e[1], arg, why)
    if k == "cast":
        x = _rt_eval(e[2], arg, why)
        if x is None:
            return None
        if isinstance(x, tuple):
            why.append("cast of %s" % x[0])
            return None
        if isinstance(x, _Floor):
            if e[1] == "IntToInt" and e[3] in TYMAX:
                # keep the floor form: the narrowing cast is decided with the final identity test
                return x
            x = _resolve_floor(x, why)
            if x is None:
                return None
        if e[1] == "IntToFloat":
            return _Lin(x.a, x.b, x.lo, x.hi, True)
        if e[1] in ("IntToInt", "FloatToInt"):
            lo, hi = x.rng()
            if e[3] in TYMAX and (lo < TYMIN[e[3]] or hi > TYMAX[e[3]]):
                why.append("value range [%s, %s] does not fit %s" % (lo, hi, e[3]))
                return None
            return _Lin(x.a, x.b, x.lo, x.hi, False)
        return x
    if k == "bin":
        a, b = _rt_eval(e[2], arg, why), _rt_eval(e[3], arg, why)
        if a is None or b is None:
            return None
        if isinstance(a, tuple) and a[0] == "satadd":
            x0, c = a[1], a[2]
            lo_, hi_ = x0.rng()
            if hi_ + c <= 2**31 - 1 and lo_ + c >= -2**31:
                a = _Lin(x0.a, x0.b + c, x0.lo, x0.hi, x0.fl)
            else:
                why.append("saturating_add can saturate on the input range")
                return None
        if isinstance(a, _Floor):
            a = _resolve_floor(a, why)
        if isinstance(b, _Floor):
            b = _resolve_floor(b, why)
        if a is None or b is None:
            return None
        bc = b.b if b.a == 0 else None
        if e[1] == "Shl" and bc is not None:
            return _Lin(a.a * 2 ** int(bc), a.b * 2 ** int(bc), a.lo, a.hi, a.fl)
        if e[1] == "Shr" and bc is not None:
            return _Floor(a, 2 ** int(bc))
        if e[1] == "Add" and bc is not None:
            return _Lin(a.a, a.b + bc, a.lo, a.hi, a.fl)
        if e[1] == "Mul" and bc is not None:
            return _Lin(a.a * bc, a.b * bc, a.lo, a.hi, a.fl)
        if e[1] == "Div" and bc is not None and bc != 0 and a.fl:
            return _Lin(a.a / bc, a.b / bc, a.lo, a.hi, True)
        why.append("operator %s" % e[1])
        return None
    if k in ("call", "callat"):
        name = e[1] if k == "call" else e[2]
        args = e[2] if k == "call" else e[3]
        if name == "from_le_bytes" and args and args[0][0] == "agg" and len(args[0][4]) == 2:
            lo_b, hi_b = (_rt_eval(x, arg, why) for x in args[0][4])
            if lo_b is None or hi_b is None or isinstance(lo_b, _Floor) or isinstance(hi_b, _Floor):
                return None
            return _Lin(lo_b.a + 256 * hi_b.a, lo_b.b + 256 * hi_b.b, lo_b.lo, lo_b.hi)
        if name in ("max", "min", "clamp", "saturating_add", "round", "to_le_bytes"):
            xs = [_rt_eval(x, arg, why) for x in args]
            if any(x is None for x in xs):
                return None
            x0 = xs[0]
            if isinstance(x0, _Floor):
                x0 = _resolve_floor(x0, why)
                if x0 is None:
                    return None
            lo, hi = x0.rng()
            cs = [x.b for x in xs[1:] if not isinstance(x, _Floor) and x.a == 0]
            if name == "max" and len(cs) == 1 and lo >= cs[0]:
                return x0
            if name == "min" and len(cs) == 1 and hi <= cs[0]:
                return x0
            if name == "clamp" and len(cs) == 2 and lo >= cs[0] - _F(1, 10**6) and hi <= cs[1] + _F(1, 10**6):
                return x0
            if name == "saturating_add" and len(cs) == 1:
                # within the type (i32 / u16 ...): no saturation on this input range?
                return ("satadd", x0, cs[0])
            if name == "round" and x0.fl:
                # an f32 value that equals an integer-valued linear form up to a few ulps
                if x0.a.denominator == 1 and x0.b.denominator == 1:
                    return _Lin(x0.a, x0.b, x0.lo, x0.hi, False)
                why.append("round of a non-integral form")
                return None
            if name == "to_le_bytes":
                return ("bytes", x0)
            why.append("%s not resolved on the input range" % name)
            return None
        why.append("call %s" % name)
        return None
    if k == "index" and e[2][0] == "const":
        x = _rt_eval(e[1], arg, why)
        if isinstance(x, tuple) and x[0] == "bytes":
            v = x[1]
            lo, hi = v.rng()
            i = e[2][1]
            if i == 1 and 0 <= lo and hi < 65536:
                return _Floor(v, 256)
            if i == 0 and 0 <= lo and hi < 256:
                return v
        why.append("byte selection")
        return None
    why.append("node %s" % k)
    return None


def _resolve_floor(fv, why):
    """floor((a v + b)/d) as a linear form when a is a multiple of d"""
    lin, d = fv.lin, fv.d
    if (lin.a / d).denominator == 1:
        return _Lin(lin.a / d, (lin.b / d).__floor__(), lin.lo, lin.hi)
    why.append("floor((%s*v + %s) / %s) is not linear in v" % (lin.a, lin.b, d))
    return None


def _conc(e, v, wide_ty):
    """value of an integer expression tree at ('param', 1) = v; None when a node is not an
    integer operation this evaluator knows (finite-domain decision: the narrow range has 256 or
    65536 points)"""
    k = e[0]
    if k == "param":
        return v
    if k == "const":
        return e[1] if isinstance(e[1], int) and not isinstance(e[1], bool) else None
    if k == "ovf":
        return _conc(e[1], v, wide_ty)
    if k == "cast":
        x = _conc(e[2], v, wide_ty)
        if x is None or e[1] != "IntToInt" or e[3] not in TYMAX:
            return None
        lo, hi = TYMIN[e[3]], TYMAX[e[3]]
        span = hi - lo + 1
        return (x - lo) % span + lo
    if k == "bin":
        a, b = _conc(e[2], v, wide_ty), _conc(e[3], v, wide_ty)
        if a is None or b is None:
            return None
        op = e[1]
        try:
            r = {"Shl": lambda: a << b if 0 <= b < 64 else None,
                 "Shr": lambda: a >> b if 0 <= b < 64 else None,
                 "BitOr": lambda: a | b, "BitAnd": lambda: a & b, "BitXor": lambda: a ^ b,
                 "Add": lambda: a + b, "Sub": lambda: a - b, "Mul": lambda: a * b,
                 "Div": lambda: (abs(a) // abs(b)) * (1 if (a < 0) == (b < 0) else -1) if b else None,
                 }.get(op, lambda: None)()
        except Exception:
            return None
        if r is None or abs(r) >= 2 ** 63:
            return None
        return r
    if k in ("call", "callat"):
        name = e[1] if k == "call" else e[2]
        args = e[2] if k == "call" else e[3]
        xs = [_conc(x, v, wide_ty) for x in args]
        if any(x is None for x in xs):
            return None
        if name == "saturating_add" and len(xs) == 2 and wide_ty in TYMAX:
            return max(TYMIN[wide_ty], min(TYMAX[wide_ty], xs[0] + xs[1]))
        if name == "saturating_sub" and len(xs) == 2 and wide_ty in TYMAX:
            return max(TYMIN[wide_ty], min(TYMAX[wide_ty], xs[0] - xs[1]))
        if name == "max" and len(xs) == 2:
            return max(xs)
        if name == "min" and len(xs) == 2:
            return min(xs)
        if name == "clamp" and len(xs) == 3:
            return max(xs[1], min(xs[2], xs[0]))
        return None
    return None


def _exhaustive(ew, en, nar, wide):
    """(ok, text) from evaluating narrow(widen(v)) at every v of the narrow range, or None"""
    if wide not in TYMAX or nar not in RANGE:
        return None
    lo, hi = RANGE[nar]
    first = None
    nbad = 0
    for v in range(lo, hi + 1):
        w = _conc(ew, v, wide)
        if w is None:
            return None
        if not (TYMIN[wide] <= w <= TYMAX[wide]):
            return None
        b = _conc(en, w, wide)
        if b is None:
            return None
        if b != v:
            nbad += 1
            if first is None:
                first = (v, w, b)
    if nbad == 0:
        return (True, "narrow(widen(v)) = v at each of the %d values (integer expression trees "
                      "evaluated over the whole narrow range)" % (hi - lo + 1))
    return (False, "%d of %d values do not survive: v = %d widens to %d (0x%x) and comes back as %d"
            % (nbad, hi - lo + 1, first[0], first[1], first[1] & 0xffffffff, first[2]))


import struct as _struct


def _f32(x):
    try:
        return _struct.unpack("f", _struct.pack("f", x))[0]
    except OverflowError:
        return float("inf") if x > 0 else float("-inf")


def _ep_eval(e, v, fty):
    """value of a conversion's return expression at self = v; f32 arithmetic is emulated by
    rounding every operation's exact (f64) result to f32 (innocuous double rounding: 53 >= 2*24+2)"""
    k = e[0]
    if k == "param":
        return v
    if k == "const":
        if isinstance(e[1], bool):
            return None
        if isinstance(e[1], (int, float)):
            return e[1]
        return None
    if k in ("ovf", "copy", "deref", "ref"):
        return _ep_eval(e[1], v, fty)
    if k == "cast":
        x = _ep_eval(e[2], v, fty)
        if x is None:
            return None
        kind, ty = e[1], e[3]
        if kind == "IntToFloat":
            return _f32(float(x)) if ty == "f32" else float(x)
        if kind == "FloatToInt" and ty in TYMAX:
            if x != x:
                return 0
            return int(max(TYMIN[ty], min(TYMAX[ty], x)))
        if kind == "IntToInt" and ty in TYMAX:
            span = TYMAX[ty] - TYMIN[ty] + 1
            return (int(x) - TYMIN[ty]) % span + TYMIN[ty]
        if kind == "FloatToFloat":
            return _f32(x) if ty == "f32" else x
        return None
    if k == "bin":
        a, b = _ep_eval(e[2], v, fty), _ep_eval(e[3], v, fty)
        if a is None or b is None:
            return None
        fl = isinstance(a, float) or isinstance(b, float)
        try:
            r = {"Add": lambda: a + b, "Sub": lambda: a - b, "Mul": lambda: a * b,
                 "Div": lambda: (a / b if fl else (abs(a) // abs(b)) * (1 if (a < 0) == (b < 0) else -1)),
                 "Shl": lambda: a << b, "Shr": lambda: a >> b, "BitOr": lambda: a | b, "BitAnd": lambda: a & b,
                 "Lt": lambda: a < b, "Le": lambda: a <= b, "Gt": lambda: a > b, "Ge": lambda: a >= b,
                 }.get(e[1], lambda: None)()
        except Exception:
            return None
        if r is None or isinstance(r, bool):
            return r
        return _f32(r) if (fl and fty == "f32") else r
    if k in ("call", "callat"):
        name = e[1] if k == "call" else e[2]
        args = e[2] if k == "call" else e[3]
        if name == "from_le_bytes":
            a0 = args[0] if args else None
            while isinstance(a0, tuple) and a0 and a0[0] in ("ref", "copy", "deref"):
                a0 = a0[1]
            if a0 and a0[0] == "agg":
                bs = [_ep_eval(x, v, fty) for x in a0[4]]
                if any(b is None for b in bs):
                    return None
                return sum(int(b) << (8 * i) for i, b in enumerate(bs))
            return None
        xs = [_ep_eval(x, v, fty) for x in args]
        if any(x is None for x in xs):
            return None
        if name == "clamp" and len(xs) == 3:
            return max(xs[1], min(xs[2], xs[0]))
        if name == "max" and len(xs) == 2:
            return max(xs)
        if name == "min" and len(xs) == 2:
            return min(xs)
        if name == "round" and len(xs) == 1:
            import math
            x = xs[0]
            return float(math.floor(abs(x) + 0.5)) * (1 if x >= 0 else -1)
        if name == "saturating_add" and len(xs) == 2:
            return max(-2**31, min(2**31 - 1, xs[0] + xs[1]))
        a0 = args[0] if args else None
        while isinstance(a0, tuple) and a0 and a0[0] in ("ref", "copy", "deref"):
            a0 = a0[1]
        if name == "from_le_bytes" and a0 and a0[0] == "agg":
            bs = [_ep_eval(x, v, fty) for x in a0[4]]
            if any(b is None for b in bs):
                return None
            return sum(int(b) << (8 * i) for i, b in enumerate(bs))
        return None
    if k == "agg":
        return None
    if k == "index" and e[2][0] == "const":
        x = e[1]
        if x[0] in ("call", "callat") and (x[1] if x[0] == "call" else x[2]) == "to_le_bytes":
            val = _ep_eval((x[2] if x[0] == "call" else x[3])[0], v, fty)
            if val is None:
                return None
            return (int(val) >> (8 * e[2][1])) & 0xff
    return None


ENDS = {"u8": (0, 255), "u16": (0, 65535), "f32": (0.0, 1.0), "i32": (0, 2**31 - 1)}


def endpoints(rep, prog, rule):
    rep.rule(rule, "each conversion between u8, u16 and f32 components maps the minimum of the source "
             "range to the minimum of the destination range and the maximum to the maximum EXACTLY "
             "(0 -> 0 / 0.0, 255 / 65535 / 1.0 -> 255 / 65535 / 1.0): the single return expression is "
             "evaluated at the two end points, f32 operations emulated by rounding every exact result to "
             "f32. `x as f32 * 0.003_921_568_6` (a truncated literal for 1/255) gives 0.99999994 for 255. "
             "For i32 the non-negative half [0, i32::MAX] is taken as the range the unsigned types map "
             "onto (0 -> 0 in both directions); i32 <-> f32 is left to finding 15")
    n = 0
    for f, src, tref in sorted(conversions(prog), key=lambda x: x[0].id):
        dst = f.d.get("output")
        if src not in ENDS or dst not in ENDS or src == dst:
            continue
        if {src, dst} == {"i32", "f32"}:
            continue            # negative I32 values: finding 15, not this clause
        n += 1
        rep.touch(f)
        key = "%s->%s" % (src, dst)
        ds = f.defs().get(0, [])
        if len(ds) != 1:
            rep.unk(rule, key, f.loc, "conversion with several return expressions")
            continue
        sym = Sym(f)
        e = sym.rvalue(ds[0][2], ds[0][0], (ds[0][0], ds[0][1]))
        fty = "f32"
        bad = None
        unk = False
        for which, sv, dv in (("minimum", ENDS[src][0], ENDS[dst][0]), ("maximum", ENDS[src][1], ENDS[dst][1])):
            r = _ep_eval(e, sv, fty)
            if r is None:
                unk = True
                break
            if r != dv:
                bad = (which, sv, r, dv)
        if unk:
            rep.unk(rule, key, f.loc, "return expression %s is not evaluated" % fmt(e)[:80])
        elif bad:
            rep.bad(rule, key + "|" + bad[0], f.loc, "%s maps the %s %r of %s to %r, not to %r" % (
                f.name, bad[0], bad[1], src, bad[2], bad[3]))
        else:
            rep.ok(rule, key, f.loc, "%r -> %r, %r -> %r" % (ENDS[src][0], ENDS[dst][0], ENDS[src][1], ENDS[dst][1]))
    rep.floor(rule, "conversions among u8, u16 and f32", n, 6)


def dynamic_no_shortcut(rep, prog, rule):
    rep.rule(rule, "the dynamic entry point change_type_of_pixel_components answers Ok only with what the "
             "typed conversion returned: its own body contains no literal `Ok(())`. An early `return "
             "Ok(())` (e.g. 'nothing to do for an empty image', placed before the table) accepts pairs of "
             "images that differ in size or in the number of components, which the table / the typed "
             "function reject with UnsupportedCombinationOfImageTypes / DifferentDimensions")
    fs = [f for f in prog.fns.values()
          if f.name.rsplit("::", 1)[-1] == "change_type_of_pixel_components" and f.kind != "closure"]
    if len(fs) != 1:
        rep.unk(rule, "anchor", "", "%d functions named change_type_of_pixel_components" % len(fs))
        return
    f = fs[0]
    rep.touch(f)
    from ..engines.flow import return_locals
    rl = return_locals(f)
    lits = []
    for b, blk in enumerate(f.blocks):
        if blk["c"]:
            continue
        for st in blk["s"]:
            if st[0] == "a" and len(st[1]) == 1 and st[1][0] in rl and st[2][0] == "agg" and st[2][1] == "adt" \
                    and st[2][2] == "core::result::Result" and st[2][3][1] == "Ok":
                lits.append(st)
            elif st[0] == "a" and len(st[1]) == 1 and st[1][0] in rl and st[2][0] == "use" and st[2][1][0] == "k" \
                    and len(st[2][1]) > 3 and isinstance(st[2][1][3], list) and st[2][1][3][:1] == ["variant"] \
                    and st[2][1][3][1] == "Ok":
                lits.append(st)
    if lits:
        rep.bad(rule, "change_type_of_pixel_components|literal-ok", lits[0][3],
                "%s returns a literal Ok(()) (%d place(s)): a pair of images is accepted without the "
                "pixel-type table and the dimension check having looked at it" % (f.name, len(lits)))
    else:
        rep.ok(rule, "change_type_of_pixel_components|no-literal-ok", f.loc,
               "Ok comes from the typed conversion only")


def round_trip(rep, prog, rule):
    rep.rule(rule, "for each pair narrow -> wide -> narrow of component types (u8->u16, u8->i32, "
             "u8->f32, u16->i32, u16->f32) the composition of the two into_component "
             "implementations is the identity on the whole narrow range: both bodies are "
             "composed symbolically as floor((a*v + b) / d) over the input interval (shifts, byte "
             "packing, saturating add without saturation, max/clamp that cannot trigger, rounding "
             "of an integral f32 form) and floor((a*v + b)/d) == v is decided from the linear "
             "form (a - d)*v + b at the two ends of the range")
    convs = {}
    for f, src, tref in conversions(prog):
        convs[(src, f.d.get("output"))] = f
    n = 0
    for (nar, wide) in ROUND_TRIPS:
        fw, fn_ = convs.get((nar, wide)), convs.get((wide, nar))
        key = "%s->%s->%s" % (nar, wide, nar)
        if fw is None or fn_ is None:
            rep.unk(rule, key, "-", "conversion implementations not found")
            continue
        n += 1
        rep.touch(fw)
        rep.touch(fn_)
        lo, hi = RANGE[nar]
        why = []
        vals = []
        sw, sn = Sym(fw), Sym(fn_)
        dw, dn = fw.defs().get(0, []), fn_.defs().get(0, [])
        if len(dw) != 1 or len(dn) != 1:
            rep.unk(rule, key, fw.loc, "conversion with several return expressions")
            continue
        ew = sw.rvalue(dw[0][2], dw[0][0], (dw[0][0], dw[0][1]))
        en = sn.rvalue(dn[0][2], dn[0][0], (dn[0][0], dn[0][1]))
        w = _rt_eval(ew, _Lin(1, 0, lo, hi), why)
        if isinstance(w, _Floor):
            w = _resolve_floor(w, why)
        res = None
        if w is None or isinstance(w, tuple):
            res = _exhaustive(ew, en, nar, wide)
            if res is None:
                rep.unk(rule, key, fw.loc, "widening not modelled (%s)" % "; ".join(why[:2]))
                continue
        else:
            back = _rt_eval(en, w, why)
            # saturating add: decide that it cannot saturate, then continue symbolically
            # (handled inside by the ("satadd", ..) marker for a trailing shift)
            res = _finish(back, nar, why)
            if res is None:
                res = _exhaustive(ew, en, nar, wide)
            if res is None:
                rep.unk(rule, key, fn_.loc, "narrowing not modelled (%s)" % "; ".join(why[:2]))
                continue
        verdict, text = res
        if verdict:
            rep.ok(rule, key, fn_.loc, text)
        else:
            rep.bad(rule, key, fn_.loc, "%s then %s is not the identity: %s" % (fw.name, fn_.name, text))
    rep.floor(rule, "widening round trips", n, 5)


def _finish(v, nar, why):
    lo, hi = RANGE[nar]
    if v is None:
        return None
    if isinstance(v, tuple):
        why.append("unfinished %s" % v[0])
        return None
    if isinstance(v, _Lin):
        if v.a == 1 and v.b == 0:
            return (True, "composition = v%s" % (" (integral f32 form, rounding error far below 1/2)"
                                                 if False else ""))
        bad_v = lo if (v.a * lo + v.b) != lo else hi
        return (False, "composition = %s*v + %s (v = %d gives %s)" % (v.a, v.b, bad_v, v.a * bad_v + v.b))
    if isinstance(v, _Floor):
        a, b, d = v.lin.a, v.lin.b, v.d
        ends = [((a - d) * x + b, x) for x in (v.lin.lo, v.lin.hi)]
        bad = [(r, x) for r, x in ends if not (0 <= r < d)]
        if not bad:
            return (True, "floor((%s*v + %s)/%s) = v on [%d, %d]" % (a, b, d, v.lin.lo, v.lin.hi))
        r, x = bad[0]
        got = ((a * x + b) / d).__floor__()
        return (False, "floor((%s*v + %s)/%s) != v: for v = %d it is %d" % (a, b, d, x, got))
    return None
