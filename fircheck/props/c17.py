"""C17 — depth conversion is monotone, keeps endpoints, lossless when widening (clauses)."""
from ..engines import mono, witness, type_tables
from ..engines.mono import INF
from ..facts import CheckError
from ..progs import programs
from ..sym import Sym, fmt

SRC_RANGE = {"u8": (0.0, 255.0), "u16": (0.0, 65535.0), "i32": (-2.0**31, 2.0**31 - 1),
             "f32": (-INF, INF)}


def conversions(prog):
    tid = prog.trait_id("pixels::IntoPixelComponent")
    out = []
    for imp in prog.impls_of(tid):
        m = imp["methods"].get("into_component")
        if m and m in prog.fns:
            out.append((prog.fns[m], imp["self_ty"], imp.get("trait_ref", "")))
    return out


def mono_rule(rep, prog, rule):
    rep.rule(rule, "every IntoPixelComponent::into_component is monotone non-decreasing: the "
             "source range is partitioned at the constants the argument is compared with and each "
             "piece is evaluated over (monotonicity, interval); a piece on which the result is "
             "non-increasing with a non-degenerate output range, or adjacent pieces whose output "
             "ranges are strictly out of order, is a violation")
    convs = conversions(prog)
    rep.floor(rule, "into_component implementations", len(convs), 13)
    for f, src, tref in sorted(convs, key=lambda x: x[0].id):
        rep.touch(f)
        rng = SRC_RANGE.get(src)
        dst = f.d.get("output")
        key0 = "%s->%s" % (src, dst)
        if rng is None:
            rep.ok(rule, key0, f.loc, "identity conversion for a generic component")
            continue
        res = mono.analyse(prog, f, rng[0], rng[1])
        vs = mono.verdicts(res)
        bad = [v for v in vs if v[0] == "bad"]
        unk = [v for v in vs if v[0] == "unk"]
        if bad:
            for i, v in enumerate(bad):
                rep.bad(rule, "%s|decreasing#%d" % (key0, i), f.loc, "%s: %s" % (f.name, v[1]))
        elif unk:
            rep.unk(rule, key0, f.loc, "; ".join(v[1] for v in unk)[:300])
        else:
            rep.ok(rule, key0, f.loc, "; ".join(v[1] for v in vs)[:300])


def reject_rule(rep, prog, rule):
    rep.rule(rule, "change_type_of_pixel_components_typed writes only after both dimension "
             "comparisons succeeded (Err(DifferentDimensions) otherwise)")
    f = prog.fn_by_name("change_components_type::change_type_of_pixel_components_typed")
    rep.touch(f)
    sym = Sym(f)
    writers = [c for c in f.calls() if c.method == "iter_rows_mut"]
    rep.floor(rule, "writer calls", len(writers), 1)
    for c in writers:
        facts = sym.facts_at(c.bb)
        s = " ".join("%s=%s" % (fmt(cc), v) for cc, v in facts)
        okw = any("width(src_image)" in fmt(cc) and "width(dst_image)" in fmt(cc) and
                  ((cc[1] == "Ne" and v is False) or (cc[1] == "Eq" and v is True))
                  for cc, v in facts if cc[0] == "bin")
        okh = any("height(src_image)" in fmt(cc) and "height(dst_image)" in fmt(cc) and
                  ((cc[1] == "Ne" and v is False) or (cc[1] == "Eq" and v is True))
                  for cc, v in facts if cc[0] == "bin")
        if okw and okh:
            rep.ok(rule, "dimensions", c.at, "write dominated by width and height equality")
        else:
            rep.bad(rule, "dimensions", c.at, "the destination is written without %s equality "
                    "having been checked (facts: %s)" % (
                        "width" if not okw else "height", s[:200]))


def run(rep, tier):
    cfgs = ["x86"] if tier == "quick" else ["x86", "arm", "wasm"]
    for cfg, prog in programs(cfgs):
        rep.set_cfg(cfg)
        rep.call(mono_rule, rep, prog, "C17.mono")
        rep.call(reject_rule, rep, prog, "C17.reject")
        rep.call(type_tables.t_types, rep, prog, "C17.table")
    if tier == "thorough":
        rep.set_cfg("witness")
        rep.call(witness.report, rep, "C17.types", ["W4"])
