"""C09 — a reused Resizer behaves like a fresh one: scratch-buffer discipline (clauses)."""
import re
from ..cfg import Dom, reachable_from
from ..engines import flow, index_rules
from ..engines.ranges import strip_widen
from ..facts import CheckError
from ..progs import programs
from ..sym import Sym, fmt, atoms
from .. import ir

SCRATCH = "resizer::get_temp_image_from_buffer"


def band_pattern(f, sym):
    """does resample_convolution premultiply only a band of rows (sub-views of the source and
    of the scratch image)?  None: no; 'unscaled': the band's margin is derived from the filter
    support without the scale factor (the kernel radius is support * scale when down-scaling);
    'other': a band whose margin is not recognised"""
    mul = [c for c in f.calls() if c.name.endswith("multiply_alpha_typed")]
    if not mul:
        return None
    band = False
    scratch = [c for c in f.calls() if c.name == SCRATCH]
    whole = None
    if scratch:
        a = [sym.operand(x) for x in scratch[0].args]
        if len(a) > 2 and a[1][0] == "call" and a[1][1] == "width" and a[1][2]:
            whole = a[1][2][0]
    for c in mul:
        src = sym.operand(c.args[1], (c.bb, "term"))
        s_ = src
        for _ in range(6):
            if not (isinstance(s_, tuple) and s_):
                break
            if s_[0] in ("cast", "ref", "deref"):
                s_ = s_[2] if s_[0] == "cast" else s_[1]
            elif s_[0] == "call" and s_[1] in ("image_view", "deref", "as_ref", "borrow") and len(s_[2]) == 1:
                s_ = s_[2][0]           # a getter: still the whole view the parameter holds
            else:
                break
        # a band is a sub-view built here; the function's own source parameter is the whole view
        if whole is not None and src != whole and s_[0] != "param":
            band = True
    if not band:
        return None
    txt = ""
    for i, l in enumerate(f.locals):
        for (bb, j, rv, w) in f.defs().get(i, []):
            txt += " " + fmt(sym.rvalue(rv, bb, (bb, j)))
    margins = []
    for mm in re.finditer(r"ceil(@bb\d+)?\(", txt):
        depth, i = 1, mm.end()
        while i < len(txt) and depth:
            depth += {"(": 1, ")": -1}.get(txt[i], 0)
            i += 1
        margins.append(txt[mm.end():i])
    sup = [m for m in margins if "get_filter_func" in m or "support" in m]
    if sup and not any(("Div" in m and "height" in m) or "scale" in m for m in sup):
        return "unscaled"
    return "other"


def write_before_read(rep, prog, rule):
    rep.rule(rule, "every scratch image obtained from get_temp_image_from_buffer (contents of a "
             "previous call) is handed to a must-write operation as its destination before any "
             "other use: every reading use is dominated by such a writer call")
    mw = flow.MustWrite(prog, rep)
    n = 0
    for f in sorted(prog.fns.values(), key=lambda x: x.id):
        sites = [c for c in f.calls() if c.name == SCRATCH]
        if not sites:
            continue
        rep.touch(f)
        dom = Dom(f)
        for ordinal, s in enumerate(sites):
            n += 1
            L = s.dest[0]
            nm = f.local_name(L) or "_%d" % L
            key = "%s|%s#%d" % (f.name, nm, ordinal)
            al = flow.Aliases(f, [L])
            uses = [c for c in f.calls() if c.bb != s.bb and al.arg_positions(c)
                    and c.bb in reachable_from(f, s.bb)]
            writers, readers, unknown = [], [], []
            for c in uses:
                pos = al.arg_positions(c)
                tg = prog.call_targets(c)
                is_w = False
                for t in tg:
                    for i in pos:
                        li = i + 1
                        if li <= t.arg_count and t.local_ty(li).startswith("&mut"):
                            ok, why = mw.mw(t, li)
                            if ok is True:
                                is_w = True
                            elif ok is None:
                                unknown.append((c, why))
                if is_w:
                    writers.append(c)
                elif c.name.endswith(("::width", "::height", "::new", "::crop_unchecked",
                                      "::drop_in_place")) and not tg or \
                        c.name.endswith(("CroppedSrcImageView::<'a, T>::new",
                                         "CroppedSrcImageView::<'a, T>::crop_unchecked")):
                    continue      # wrapping / size queries do not read pixels
                else:
                    readers.append(c)
            if not writers:
                if unknown:
                    rep.unk(rule, key, s.at, "no decided writer for scratch `%s`" % nm)
                else:
                    rep.bad(rule, key, s.at, "scratch image `%s` is never the destination of a "
                            "must-write operation before use" % nm)
                continue
            bad = [r for r in readers if not any(dom.dominates(w.bb, r.bb) and w.bb != r.bb
                                                 for w in writers)]
            bp = band_pattern(f, Sym(f)) if bad and f.name.endswith("resample_convolution") else None
            if bad and bp == "other":
                rep.unk(rule, key, bad[0].at, "scratch image `%s` is filled band-wise through "
                        "sub-views; whether the band covers everything the kernels read is not "
                        "decided" % nm)
            elif bad and bp == "unscaled":
                rep.bad(rule, key, bad[0].at, "scratch image `%s` is premultiplied only in a band "
                        "whose margin is the filter support without the scale factor: when "
                        "down-scaling the kernel reaches support * scale rows beyond the crop box "
                        "and reads rows that still hold the stale content of an earlier resize" % nm)
            elif bad:
                rep.bad(rule, key, bad[0].at, "scratch image `%s` (stale content of an earlier "
                        "resize) is read by %s before any writer has filled it" % (nm, bad[0].name))
            else:
                rep.ok(rule, key, s.at, "written by %s before %d reading uses" % (
                    writers[0].name.rsplit("::", 1)[-1], len(readers)))
    rep.floor(rule, "scratch image creations", n, 3)


def _has_opaque_call(prog, e):
    """a call of a crate-local function (its value is not an expression of the arguments here)"""
    if not isinstance(e, tuple) or not e:
        return False
    if e[0] in ("call", "callat"):
        res = e[4] if e[0] == "callat" else e[3]
        if isinstance(res, str) and res in prog.fns:
            return True
    return any(_has_opaque_call(prog, x) for x in e if isinstance(x, tuple))


def slack(rep, prog, rule):
    rep.rule(rule, "get_temp_image_from_buffer requests count*size + slack bytes with slack >= "
             "align-1 (it uses size()), grows the buffer when it is shorter (never depends on the "
             "old length otherwise), takes the MIDDLE part of align_to_mut and slices exactly "
             "0..width*height of it for a TypedImage of the same width and height")
    f = prog.fn_by_name(SCRATCH)
    rep.touch(f)
    sym = Sym(f)
    calls = {c.name.rsplit("::", 1)[-1]: c for c in f.calls()}
    # byte size
    resize = [c for c in f.calls() if c.name.endswith("Vec::<T, A>::resize")]
    if len(resize) != 1:
        rep.unk(rule, "resize", f.loc, "%d resize calls" % len(resize))
        return
    from ..engines.validators import resolve_helpers
    size_e = strip_widen(resolve_helpers(prog, sym.operand(resize[0].args[1])))
    w = ("param", f.param_index("width"), "width")
    h = ("param", f.param_index("height"), "height")

    def is_count(e):
        e = strip_widen(e)
        return e[0] == "bin" and e[1] == "Mul" and {strip_widen(e[2]), strip_widen(e[3])} == {w, h}

    def is_size(e):
        e = strip_widen(e)
        return e[0] == "call" and e[1] == "size"
    def slack_of(e):
        """('ok'|'none'|'small'|'unk', text) for a byte-size expression"""
        e = strip_widen(e)
        if e[0] == "bin" and e[1] == "Add":
            a, b = strip_widen(e[2]), strip_widen(e[3])
            for x, y in ((a, b), (b, a)):
                if x[0] == "bin" and x[1] == "Mul" and (
                        (is_count(x[2]) and is_size(x[3])) or (is_count(x[3]) and is_size(x[2]))):
                    if is_size(y) or (y[0] == "call" and y[1] in ("align", "align_of", "size_of")):
                        return "ok"
                    if y[0] == "const":
                        return "ok" if y[1] >= 15 else "small"
                    return "unk"
        if e[0] == "bin" and e[1] == "Mul":
            a, b = strip_widen(e[2]), strip_widen(e[3])
            for x, y in ((a, b), (b, a)):
                if is_size(y):
                    if is_count(x):
                        return "none"
                    if x[0] == "bin" and x[1] == "Add" and any(is_count(z) for z in (x[2], x[3])):
                        k = [strip_widen(z) for z in (x[2], x[3]) if not is_count(z)][0]
                        if k[0] == "const" and k[1] >= 1:
                            return "ok"
                        return "unk"
        return "unk"
    verdict = slack_of(size_e)
    if verdict == "ok":
        rep.ok(rule, "slack", resize[0].at, "bytes = %s" % fmt(size_e))
    elif verdict == "none":
        rep.bad(rule, "slack", resize[0].at, "the scratch buffer is sized %s without slack for "
                "alignment: for pixel types with align > 1 the aligned middle part of a Vec<u8> "
                "can be one pixel short and `pixels[0..count]` panics" % fmt(size_e))
    elif verdict == "small":
        rep.bad(rule, "slack", resize[0].at, "alignment slack in %s is smaller than the largest "
                "pixel alignment needs" % fmt(size_e))
    else:
        rep.unk(rule, "slack", resize[0].at, "bytes = %s" % fmt(size_e))
    # grow-only test: the resize is guarded by len < size and len is used nowhere else
    lens = [c for c in f.calls() if c.name.endswith("Vec::<T, A>::len")]
    facts = sym.facts_at(resize[0].bb)
    g = [c for c, v in facts if c[0] == "bin" and c[1] in ("Lt", "Gt", "Le", "Ge", "Ne")]
    if len(lens) <= 1:
        rep.ok(rule, "grow-only", f.loc, "len(buffer) is read %d time(s), only to decide growth"
               % len(lens))
    else:
        rep.unk(rule, "grow-only", f.loc, "len(buffer) read %d times" % len(lens))
    # middle part of align_to_mut and exact slice
    al = [c for c in f.calls() if c.name.endswith("align_to_mut")]
    idx = [c for c in f.calls() if c.name.endswith("index_mut") or c.name.endswith("get_mut")]
    ctor = [c for c in f.calls() if c.name.endswith("from_pixels_slice")]
    if len(al) == 1 and len(idx) == 1 and len(ctor) == 1:
        recv = sym.operand(idx[0].args[0])
        rng = resolve_helpers(prog, sym.operand(idx[0].args[1]))
        mid = recv[0] == "field" and recv[2] == 1
        if not mid:
            rep.bad(rule, "middle", idx[0].at, "the typed slice is %s, not the aligned middle "
                    "part (.1) of align_to_mut" % fmt(recv))
        else:
            rep.ok(rule, "middle", idx[0].at, "middle part of align_to_mut")
        if rng[0] == "agg" and rng[4][0] == ("const", 0, "usize") and is_count(rng[4][1]):
            rep.ok(rule, "slice", idx[0].at, "pixels[0..width*height]")
        elif _has_opaque_call(prog, rng):
            rep.unk(rule, "slice", idx[0].at, "scratch slice %s goes through a helper that was not "
                    "resolved to an expression" % fmt(rng)[:100])
        else:
            rep.bad(rule, "slice", idx[0].at, "scratch slice is %s" % fmt(rng))
        a = [resolve_helpers(prog, sym.operand(x)) for x in ctor[0].args]
        if a[0] == w and a[1] == h:
            rep.ok(rule, "dims", ctor[0].at, "TypedImage(width, height)")
        else:
            rep.bad(rule, "dims", ctor[0].at, "scratch image built with (%s, %s)" % (fmt(a[0]),
                                                                                   fmt(a[1])))
    else:
        rep.unk(rule, "shape", f.loc, "align_to_mut=%d index=%d ctor=%d" % (len(al), len(idx),
                                                                          len(ctor)))


def sizing(rep, prog, rule):
    rep.rule(rule, "each scratch image is requested with the size its writer needs: the "
             "premultiply scratch has the source view's (width, height); the temp image of the "
             "two-pass convolution is (dst_width, rows used) / (columns used, dst_height); the "
             "supersampling scratch (tmp_width, tmp_height) feeds nearest and the convolution")
    f = prog.fn_by_name("resizer::Resizer::resample_convolution")
    sym = Sym(f)
    rep.touch(f)
    for s in [c for c in f.calls() if c.name == SCRATCH]:
        a = [sym.operand(x) for x in s.args]
        mul = [c for c in f.calls() if c.name.endswith("multiply_alpha_typed")]
        src = sym.operand(mul[0].args[1]) if mul else None
        okk = (a[1][0] == "call" and a[1][1] == "width" and a[2][0] == "call" and a[2][1] == "height"
               and src is not None and a[1][2][0] == src and a[2][2][0] == src)
        if okk:
            rep.ok(rule, "premultiply", s.at, "scratch (%s, %s) = size of the multiplied source"
                   % (fmt(a[1]), fmt(a[2])))
        else:
            bp = band_pattern(f, sym)
            cu = [c for c in f.calls() if (c.name or "").endswith("crop_unchecked")]
            same_box = False
            for c_ in cu:
                if len(c_.args) >= 2:
                    be = sym.operand(c_.args[1], (c_.bb, "term"))
                    while isinstance(be, tuple) and be and be[0] in ("copy", "ref", "deref"):
                        be = be[1]
                    if isinstance(be, tuple) and be and be[0] in ("call", "callat") and \
                            (be[1] if be[0] == "call" else be[2]) == "crop_box":
                        same_box = True
            full_size = (a[1][0] == "call" and a[1][1] == "width" and a[2][0] == "call" and a[2][1] == "height"
                         and a[1][2][0] == a[2][2][0])
            if bp == "other" and same_box and not full_size:
                rep.bad(rule, "premultiply|box-not-translated", s.at,
                        "the premultiplied scratch image is (%s, %s), not the size of the source view, but "
                        "crop_unchecked wraps it with the source's own crop box: the rows / columns that were "
                        "cut off are skipped a second time (and crop_unchecked's contract -- the box lies "
                        "inside the image -- no longer follows from the validation of the source)" % (
                            fmt(a[1])[:50], fmt(a[2])[:50]))
            elif bp == "other":
                rep.unk(rule, "premultiply", s.at, "only a band of the source is premultiplied; "
                        "whether it covers everything the kernels read is not decided")
            else:
                rep.bad(rule, "premultiply", s.at, "premultiply scratch is (%s, %s) but "
                        "multiply_alpha_typed reads %s%s" % (
                            fmt(a[1]), fmt(a[2]), fmt(src)[:80] if src else "?",
                            " (a band whose margin ignores the scale of the kernel)"
                            if bp == "unscaled" else ""))


BUF_WORDS = ("alpha_buffer", "convolution_buffer", "super_sampling_buffer")


def state_independence(rep, prog, rule):
    rep.rule(rule, "no branch of the Resizer depends on how large an earlier call left a scratch "
             "buffer: len() / capacity() / is_empty() of alpha_buffer, convolution_buffer, "
             "super_sampling_buffer (or of a buffer taken from them) feed only the grow test "
             "`buffer.len() < needed` of get_temp_image_from_buffer and the arithmetic of "
             "size_of_internal_buffers; any other control dependence makes a reused Resizer "
             "behave differently from a fresh one")
    n = 0
    for f in sorted(prog.fns.values(), key=lambda x: x.id):
        if f.file != "src/resizer.rs":
            continue
        if f.name.rsplit("::", 1)[-1] in ("reset_internal_buffers", "size_of_internal_buffers"):
            continue        # buffer management itself: releases / measures the buffers
        sym = Sym(f)
        seen = set()
        is_helper = f.name.endswith("get_temp_image_from_buffer")
        for (p_, s_, cond, val) in sym.edge_facts():
            s = fmt(cond)
            m = re.search(r"\b(len|capacity|is_empty)\(([^()]*(?:\([^()]*\))?[^()]*)\)", s)
            if not m:
                continue
            recv = m.group(2)
            buffered = any(w in recv for w in BUF_WORDS) or (is_helper and "buffer" in recv)
            if not buffered or (p_, s) in seen:
                continue
            from ..engines.dispatch_rules import _is_panic_block
            tt = f.term(p_)
            targets = [b for _, b in tt[2]] + [tt[3]] if tt and tt[0] == "sw" else []
            if any(_is_panic_block(f, b) for b in targets):
                continue        # an assertion about the buffer, not a decision
            seen.add((p_, s))
            n += 1
            rep.touch(f)
            key = "%s|%s" % (f.name, s[:60])
            if is_helper and cond[0] == "bin" and cond[1] in ("Lt", "Le", "Gt", "Ge") and "len(" in s:
                rep.ok(rule, key, f.loc, "grow test %s" % s[:100])
            else:
                rep.bad(rule, key + "|history", f.loc, "%s branches on %s: the size of a scratch "
                        "buffer depends on the images this Resizer processed before, so the same "
                        "resize gives a different result (or takes a different code path) on a "
                        "reused Resizer than on a fresh one" % (f.name, s[:140]))
    rep.floor(rule, "branches on scratch-buffer sizes", n, 1)


def clone_config(rep, prog, rule):
    rep.rule(rule, "Resizer::clone carries every field that is not a scratch buffer (Vec<u8>) over "
             "from self: a clone that re-creates a configuration field (the selected back-end is kept "
             "both in cpu_extensions and inside mul_div) computes with other settings than the Resizer "
             "it was cloned from")
    fs = [f for f in prog.fns.values() if f.name == "<resizer::Resizer as std::clone::Clone>::clone"]
    if not fs:
        rep.ok(rule, "Resizer|not-clone", "", "Resizer does not implement Clone")
        return
    f = fs[0]
    rep.touch(f)
    adt = [k for k in prog.adts if k.endswith("resizer::Resizer")]
    if len(adt) != 1:
        rep.unk(rule, "Resizer|fields", f.loc, "struct Resizer not found")
        return
    fields = prog.adts[adt[0]]["variants"][0]["fields"]
    sym = Sym(f)
    n = 0
    for b, blk in enumerate(f.blocks):
        if blk["c"]:
            continue
        for j, st in enumerate(blk["s"]):
            if st[0] == "a" and st[2][0] == "agg" and st[2][1] == "adt" and st[2][2] == adt[0]:
                for i, op in enumerate(st[2][4]):
                    name, ty = fields[i][0], fields[i][1] if len(fields[i]) > 1 else ""
                    if "Vec<u8>" in str(ty):
                        continue
                    n += 1
                    s = fmt(sym.operand(op, (b, j)))
                    key = "Resizer::clone|%s" % name
                    if re.search(r"\bself\.%s\b" % re.escape(name), s):
                        rep.ok(rule, key, f.loc, "%s <- %s" % (name, s[:60]))
                    elif "self" in s:
                        rep.bad(rule, key + "|other-field", f.loc,
                                "the clone's %s is built from %s" % (name, s[:100]))
                    else:
                        rep.bad(rule, key + "|dropped", f.loc,
                                "Resizer::clone does not copy %s from self (it is %s): the clone resizes "
                                "with other settings than the original, e.g. alpha multiplication on "
                                "another back-end than the convolution" % (name, s[:100]))
    if n == 0:
        rep.unk(rule, "Resizer::clone|shape", f.loc, "no Resizer aggregate in clone")
    rep.floor(rule, "configuration fields of Resizer", n, 2)


def _param_atoms(e, acc=None):
    acc = set() if acc is None else acc
    if isinstance(e, tuple) and e:
        if e[0] == "param":
            acc.add(e)
        for x in e:
            if isinstance(x, tuple):
                _param_atoms(x, acc)
    return acc


def _cache_discipline(prog, f, pidx, state_fields):
    """f takes `&mut T` as parameter pidx; T carries state between calls in `state_fields`
    (None = every field). Returns (verdict, text): the values written to the state depend on
    parameters that the paths which keep the old state never compared."""
    sym = Sym(f)
    nblk = len(f.blocks)
    mut_refs = {}           # local -> field name (a `&mut (*p).field` borrow)
    writes = {}             # block -> set of parameter atoms the written values depend on
    me = ("param", pidx, f.local_name(pidx))

    def is_state(place):
        if not (isinstance(place, list) and len(place) >= 3 and place[0] == pidx and place[1] == "*"):
            return None
        fld = place[2]
        if isinstance(fld, list) and fld[0] == "f":
            if state_fields is None or fld[2] in state_fields:
                return fld[2]
        return None
    for b, blk in enumerate(f.blocks):
        if blk["c"]:
            continue
        for j, st in enumerate(blk["s"]):
            if st[0] != "a":
                continue
            if st[2][0] == "ref" and st[2][1] == "mut" and is_state(st[2][2]):
                mut_refs[st[1][0]] = is_state(st[2][2])
            if is_state(st[1]):
                deps = _param_atoms(sym.rvalue(st[2], b, (b, j))) - {me}
                writes.setdefault(b, set()).update(deps)
    for c in f.calls():
        hit = False
        for a in c.args:
            if a[0] in ("m", "c") and len(a[1]) == 1 and a[1][0] in mut_refs:
                hit = True
        if hit:
            deps = set()
            for a in c.args:
                deps |= _param_atoms(sym.operand(a, (c.bb, "term")))
            writes.setdefault(c.bb, set()).update(deps - {me})
    if not writes:
        return None
    # paths entry -> return that avoid every writing block
    W = set(writes)
    succ = f.succ
    reach = set()
    stack = [0] if 0 not in W else []
    while stack:
        b = stack.pop()
        if b in reach or b in W or f.blocks[b]["c"]:
            continue
        reach.add(b)
        stack += list(succ[b])
    rets = [b for b in reach if f.blocks[b]["t"] and f.blocks[b]["t"][0] == "ret"]
    deps = set().union(*writes.values())
    if not rets:
        return ("ok", "the state is rewritten on every path (from %s)" % sorted(a[2] or "_" for a in deps))
    # blocks of the avoiding sub-graph that can reach a return inside it
    back = set()
    stack = list(rets)
    pred = f.pred
    while stack:
        b = stack.pop()
        if b in back or b not in reach:
            continue
        back.add(b)
        stack += list(pred[b])
    keys = set()
    for b in back:
        tt = f.blocks[b]["t"]
        if tt and tt[0] == "sw":
            keys |= _param_atoms(sym.operand(tt[1], (b, "term")))
    keys -= {me}
    missing = deps - keys
    names = lambda s: sorted(a[2] or "_%d" % a[1] for a in s)
    if missing:
        return ("bad", "the values written to the kept state depend on %s, but the paths that keep the "
                "old state only test %s: %s of an earlier call survives into this one"
                % (names(deps), names(keys), names(missing)))
    return ("ok", "state rebuilt from %s; kept only when %s are unchanged" % (names(deps), names(keys)))


def state_fields(rep, prog, rule):
    rep.rule(rule, "what a Resizer keeps between calls is the selected back-end (cpu_extensions, mul_div) "
             "and three byte buffers that are overwritten before they are read (C09.write-before-read); "
             "any other field is state that a later call can observe: where a function rebuilds such "
             "state only under a condition (a cache), every parameter the rebuilt value depends on must be "
             "tested on the paths that keep the old value; a parameter that is not (the cached table then "
             "belongs to an earlier call's arguments) is a violation, other uses of extra state are undecided")
    adt = [k for k in prog.adts if k.endswith("resizer::Resizer")]
    if len(adt) != 1:
        rep.unk(rule, "Resizer|fields", "", "struct Resizer not found")
        return
    fields = prog.adts[adt[0]]["variants"][0]["fields"]
    extra = []
    n = 0
    for fl in fields:
        name, ty = fl[0], str(fl[1])
        n += 1
        if ty in ("cpu_extensions::CpuExtensions", "mul_div::MulDiv"):
            rep.ok(rule, "Resizer.%s" % name, "", "selected back-end")
        elif ty == "std::vec::Vec<u8>":
            rep.ok(rule, "Resizer.%s" % name, "", "scratch bytes, written before read")
        else:
            extra.append((name, ty))
    rep.floor(rule, "fields of Resizer", n, 5)
    for name, ty in extra:
        found = False
        bare = ty.split("<")[0]
        for f in sorted(prog.fns.values(), key=lambda x: x.id):
            for pi in range(1, f.arg_count + 1):
                pty = f.local_ty(pi) or ""
                if pty.startswith("&mut ") and pty[5:].split("<")[0] == bare:
                    r = _cache_discipline(prog, f, pi, None)
                elif pty.startswith("&mut ") and pty[5:].split("<")[0].endswith("resizer::Resizer"):
                    r = _cache_discipline(prog, f, pi, {name})
                else:
                    continue
                if r is None:
                    continue
                found = True
                rep.touch(f)
                key = "Resizer.%s|%s" % (name, f.name)
                if r[0] == "bad":
                    rep.bad(rule, key + "|stale", f.loc, "%s: %s" % (f.name, r[1]))
                else:
                    rep.ok(rule, key, f.loc, r[1])
        if not found:
            rep.unk(rule, "Resizer.%s" % name, "", "field of type %s is kept between calls; no function "
                    "that rebuilds it was recognised" % ty)


def backend_writes(rep, prog, rule):
    rep.rule(rule, "the selected back-end lives in two fields of Resizer (cpu_extensions, and a copy "
             "inside mul_div); a function that holds `&mut Resizer` either leaves both alone or sets "
             "both from one value (set_cpu_extensions). A function that replaces the whole Resizer "
             "(`*self = Resizer { cpu_extensions: self.cpu_extensions, ..Default::default() }`) or one "
             "of the two fields makes premultiplication / division run on another back-end than the "
             "convolution after that call: the result of a resize depends on whether e.g. "
             "reset_internal_buffers was called before")
    adt = prog.adt_ids("Resizer")
    adt = [a for a in adt if a.endswith("resizer::Resizer")] or adt
    if len(adt) != 1:
        rep.unk(rule, "Resizer|fields", "", "struct Resizer not found")
        return
    fields = prog.adts[adt[0]]["variants"][0]["fields"]
    # the two copies of the selected back-end (other extra state is C09.state-fields' business)
    config = [i for i, fl in enumerate(fields)
              if re.match(r"^([a-z_0-9]+::)*(CpuExtensions|MulDiv)$", str(fl[1]))]
    if len(config) < 2:
        rep.unk(rule, "Resizer|fields", "", "the back-end fields (CpuExtensions, MulDiv) were not found")
        return
    cname = {i: fields[i][0] for i in config}
    n = 0
    for f in sorted(prog.fns.values(), key=lambda x: x.id):
        if f.kind == "closure":
            continue
        pis = [i for i in range(1, f.arg_count + 1)
               if re.match(r"^&mut ([a-z_0-9]+::)*Resizer$", f.local_ty(i) or "")]
        if not pis:
            continue
        pi = pis[0]
        n += 1
        rep.touch(f)
        sym = Sym(f)
        writes = {}           # field index -> [(where, expr)]
        whole = []
        for b, blk in enumerate(f.blocks):
            if blk["c"]:
                continue
            for j, st in enumerate(blk["s"]):
                if st[0] != "a":
                    continue
                pl = st[1]
                if pl[:2] == [pi, "*"]:
                    if len(pl) == 2:
                        whole.append((b, j, st))
                    elif isinstance(pl[2], list) and pl[2][0] == "f" and pl[2][1] in config:
                        writes.setdefault(pl[2][1], []).append((st[3], sym.rvalue(st[2], b, (b, j))))
                elif st[2][0] == "ref" and st[2][1] in ("mut", "two_phase"):
                    rp = st[2][2]
                    if rp[:2] == [pi, "*"] and len(rp) >= 3 and isinstance(rp[2], list) \
                            and rp[2][0] == "f" and rp[2][1] in config:
                        # `&mut self.mul_div`: what is done through it
                        for c in f.calls():
                            if c.args and ir.op_place(c.args[0]) == [st[1][0]] or \
                                    (c.args and fmt(sym.operand(c.args[0], (c.bb, "term"))).startswith("&mut")
                                     and cname[rp[2][1]] in fmt(sym.operand(c.args[0], (c.bb, "term")))):
                                vals = [sym.operand(a, (c.bb, "term")) for a in c.args[1:]]
                                writes.setdefault(rp[2][1], []).append((c.at, ("call", c.method, tuple(vals))))
                                break
                        else:
                            writes.setdefault(rp[2][1], []).append((st[3], ("unknown-mut",)))
        key = f.name
        for (b, j, st) in whole:
            rv = st[2]
            e = sym.rvalue(rv, b, (b, j))
            ops = None
            if rv[0] == "agg" and rv[1] == "adt" and rv[2] == adt[0]:
                ops = [sym.operand(o, (b, j)) for o in rv[4]]
            elif isinstance(e, tuple) and e and e[0] == "agg" and len(e) > 4 and e[2] == adt[0]:
                ops = list(e[4])
            if ops is None:
                rep.bad(rule, key + "|replaced", st[3], "%s assigns a whole new Resizer (%s) to *self: the "
                        "selected back-end (cpu_extensions and the copy inside mul_div) is not carried "
                        "over" % (f.name, fmt(e)[:80]))
                continue
            for i in config:
                s_ = fmt(ops[i]) if i < len(ops) else "?"
                if re.search(r"\bself\)?\.%s\b" % re.escape(cname[i]), s_) or \
                        re.search(r"\(\*self\)\.%s\b" % re.escape(cname[i]), s_):
                    rep.ok(rule, "%s|replaced|%s" % (key, cname[i]), st[3], "%s <- %s" % (cname[i], s_[:60]))
                else:
                    rep.bad(rule, "%s|replaced|%s" % (key, cname[i]), st[3],
                            "%s replaces *self and builds the field %s from %s, not from self.%s: the "
                            "back-end selected with set_cpu_extensions is lost for that part (mul_div "
                            "keeps its own copy of the CPU extensions), so a resize after this call "
                            "premultiplies / divides on another back-end than it convolves" % (
                                f.name, cname[i], s_[:80], cname[i]))
        if not writes and not whole:
            rep.ok(rule, key + "|untouched", f.loc, "neither back-end field is written")
            continue
        if writes:
            missing = [cname[i] for i in config if i not in writes]
            srcs = set()
            for i, ws in writes.items():
                for (at, e) in ws:
                    srcs |= {a for a in atoms(e) if a[0] == "param" and a[1] != pi}
            if missing:
                rep.bad(rule, key + "|partial", f.loc, "%s writes %s but not %s: the two copies of the "
                        "selected back-end disagree afterwards" % (
                            f.name, ", ".join(cname[i] for i in writes), ", ".join(missing)))
            elif len(srcs) == 1:
                rep.ok(rule, key + "|both", f.loc, "all of %s are set from `%s`" % (
                    ", ".join(cname[i] for i in config), list(srcs)[0][2]))
            else:
                rep.unk(rule, key + "|both", f.loc, "back-end fields are written from %d values" % len(srcs))
    rep.floor(rule, "functions that hold &mut Resizer", n, 6)


def run(rep, tier):
    cfgs = ["x86"] if tier == "quick" else ["x86", "x86-rayon", "arm", "wasm"]
    for cfg, prog in programs(cfgs):
        rep.set_cfg(cfg)
        rep.call(write_before_read, rep, prog, "C09.write-before-read")
        rep.call(slack, rep, prog, "C09.slack")
        rep.call(sizing, rep, prog, "C09.sizing")
        rep.call(state_independence, rep, prog, "C09.state-independence")
        rep.call(clone_config, rep, prog, "C09.clone-config")
        rep.call(backend_writes, rep, prog, "C09.backend-writes")
        # the premultiplied scratch image is overwritten completely: every chunk body of the
        # two-image alpha routines stores on all its paths
        from ..engines import row_coverage
        rep.call(row_coverage.divide_every_chunk, rep, prog, "C09.chunk-stores",
                 {"x86": 12, "x86-rayon": 12, "wasm": 2}.get(cfg, 0))
        rep.call(state_fields, rep, prog, "C09.state-fields")
        # the nearest step of supersampling fills the whole scratch image: the stepped row iterator
        # yields one row per destination row (a short count leaves the last scratch row stale)
        from . import c13 as _c13
        rep.call(_c13.step_count, rep, prog, "C09.step-count")
        rep.call(row_coverage.tail_complete, rep, prog, "C09.tail-complete")
        rep.call(index_rules.scratch_grow, rep, prog, "C09.scratch-grow")
