"""C16 — colour-space mappers are monotone, fix the endpoints and keep alpha (clauses)."""
import re
from ..engines import mono
from ..engines.mono import C, I, D, U, INF
from ..engines.tables import Switch
from ..facts import CheckError
from ..progs import programs
from ..sym import Sym, fmt

TRANSFER = ["color::mappers::gamma_into_linear", "color::mappers::linear_into_gamma",
            "color::mappers::srgb_to_linear", "color::mappers::linear_to_srgb"]


def transfer_mono(rep, prog, rule):
    rep.rule(rule, "the four built-in transfer functions are non-decreasing on [0, 1] (piecewise "
             "evaluation over (monotonicity, interval)); the table entry expression of "
             "MappingTable::new is non-decreasing in the input index for any non-decreasing "
             "transfer function")
    for name in TRANSFER:
        f = prog.fn_by_name(name)
        rep.touch(f)
        res = mono.analyse(prog, f, 0.0, 1.0)
        vs = mono.verdicts(res)
        key = name.rsplit("::", 1)[-1]
        bad = [v for v in vs if v[0] == "bad"]
        unk = [v for v in vs if v[0] == "unk"]
        if bad:
            for i, v in enumerate(bad):
                rep.bad(rule, "%s|decreasing#%d" % (key, i), f.loc, "%s: %s" % (name, v[1]))
        elif unk:
            rep.unk(rule, key, f.loc, "; ".join(v[1] for v in unk)[:300])
        else:
            # junction of adjacent pieces: ranges may overlap by rounding only
            rep.ok(rule, key, f.loc, "; ".join(v[1] for v in vs)[:300])
    # table construction
    cl = [f for f in prog.fns.values() if f.kind == "closure"
          and f.name.startswith("color::MappingTable::<Out, SIZE>::new::")]
    rep.floor(rule, "MappingTable::new closures", len(cl), 1)
    for g in cl:
        rep.touch(g)
        gs = Sym(g)
        # the closure receives (index, &mut out); find the store into *output
        stores = []
        for b, blk in enumerate(g.blocks):
            for j, st in enumerate(blk["s"]):
                if st[0] == "a" and "*" in st[1][1:]:
                    stores.append((b, j, st))
        if len(stores) != 1:
            rep.unk(rule, "table-entry", g.loc, "%d stores in the table closure" % len(stores))
            continue
        b, j, st = stores[0]
        e = gs.rvalue(st[2], b, (b, j))
        # abstract: index is the argument (field 0 of the tuple parameter), map_func monotone
        assume = {
            "call": lambda vals: (vals[-1][0] if len(vals) else U, (0.0, 1.0)),
            "call_once": lambda vals: (vals[-1][0], (0.0, 1.0)),
            "max_value": lambda vals: (C, (1.0, INF)),
            "into": lambda vals: vals[0] if vals else (U, None),
            "from_f32": lambda vals: vals[0] if vals else (U, None),
        }
        me = mono.MonoEval(prog, g, 2, assume)
        me.piece = mono.Piece(0.0, 65535.0)
        me._busy = set()

        # treat the first tuple field of parameter 2 as the argument
        def ev_patch(expr, orig=me.ev):
            if expr[0] == "field" and expr[1][0] == "param" and expr[1][1] == 2 and expr[2] == 0:
                return (I, (0.0, 65535.0))
            if expr[0] == "agg" and expr[1] == "tuple" and len(expr[4]) == 1:
                return orig(expr[4][0])
            if expr[0] == "constx" and "SIZE" in expr[1]:
                # const generic table size: instantiated with 256 / 65536 (assumed >= 2)
                return (C, (2.0, INF))
            return orig(expr)
        me.ev = ev_patch
        m, iv = me.ev(e)
        if m == I:
            rep.ok(rule, "table-entry", st[3], "entry = %s is non-decreasing in the index"
                   % fmt(e)[:140])
        elif m == D:
            rep.bad(rule, "table-entry", st[3], "table entry %s decreases with the input index"
                    % fmt(e)[:160])
        else:
            rep.unk(rule, "table-entry", st[3], "entry %s: monotonicity %s" % (fmt(e)[:160], m))


PAIRS = [("color::mappers::gamma_into_linear", "color::mappers::linear_into_gamma"),
         ("color::mappers::srgb_to_linear", "color::mappers::linear_to_srgb")]
LSB16 = 1.0 / 65535.0


def transfer_shape(rep, prog, rule):
    rep.rule(rule, "each built-in transfer function maps 0 to 0 and 1 to 1, its pieces agree at "
             "every breakpoint (the documented sRGB / gamma curves are continuous to 1e-7, so a "
             "jump of more than two 16-bit steps between the limit of one piece and the value "
             "of the next moves table entries next to the breakpoint), and the backward function "
             "of a mapper undoes the forward one at the breakpoints (interval evaluation of the "
             "pieces at constant points; no table is built)")
    for pair in PAIRS:
        fs = [prog.fn_by_name(n) for n in pair]
        res = {}
        for f in fs:
            rep.touch(f)
            key = f.name.rsplit("::", 1)[-1]
            r = res[f.id] = mono.analyse(prog, f, 0.0, 1.0)
            pts = {pc.lo: iv for pc, m, iv in r if pc.degenerate()}
            for x in (0.0, 1.0):
                iv = pts.get(x)
                if iv is None:
                    rep.unk(rule, "%s|f(%g)" % (key, x), f.loc, "value at %g not evaluated" % x)
                elif abs(iv[0] - x) <= 1e-6 and abs(iv[1] - x) <= 1e-6:
                    rep.ok(rule, "%s|f(%g)" % (key, x), f.loc, "f(%g) = %g" % (x, iv[0]))
                elif iv[0] > x + LSB16 or iv[1] < x - LSB16:
                    rep.bad(rule, "%s|f(%g)" % (key, x), f.loc, "%s(%g) lies in [%g, %g]: the "
                            "end point of the range is not preserved" % (key, x, iv[0], iv[1]))
                else:
                    rep.unk(rule, "%s|f(%g)" % (key, x), f.loc, "f(%g) in [%g, %g]" % (x, iv[0], iv[1]))
            for i in range(1, len(r) - 1):
                pc, m, iv = r[i]
                if not pc.degenerate() or pc.lo in (0.0, 1.0):
                    continue
                left, right = r[i - 1], r[i + 1]
                k = "%s|junction" % key
                if iv is None or left[2] is None or right[2] is None or left[1] != I or right[1] != I:
                    rep.unk(rule, k, f.loc, "pieces around %g not evaluated" % pc.lo)
                    continue
                jl = abs(iv[0] - left[2][1])        # limit from the left vs value
                jr = abs(right[2][0] - iv[1])       # value vs limit from the right
                j = max(jl, jr)
                if j <= 1e-6:
                    rep.ok(rule, k, f.loc, "pieces meet at %g (difference %.2g)" % (pc.lo, j))
                elif j > 2 * LSB16:
                    rep.bad(rule, k, f.loc, "%s jumps by %.3g at its breakpoint %g (left piece "
                            "tends to %g, value there %g): the two pieces do not describe one "
                            "continuous transfer curve, table entries next to the breakpoint are "
                            "off by up to %d 16-bit steps" % (key, j, pc.lo, left[2][1], iv[0],
                                                               int(j / LSB16)))
                else:
                    rep.unk(rule, k, f.loc, "jump of %.3g at %g" % (j, pc.lo))
        # inverse pairing at the breakpoints of the forward function
        f, g = fs
        key = "%s|inverse" % f.name.rsplit("::", 1)[-1]
        cuts = [pc.lo for pc, m, iv in res[f.id] if pc.degenerate() and 0.0 < pc.lo < 1.0]
        if not cuts:
            rep.ok(rule, key, f.loc, "single piece", nontrivial=False)
        # ... and at interior points: the documented backward curve is the exact inverse of the
        # forward one (x^2.2 and x^(1/2.2); the two sRGB branches), so g(f(x)) differs from x only
        # by the f32 rounding of the constants (~1e-7). A rounded exponent such as 0.4545 moves
        # g(f(x)) by x*|ln x|*1e-4 (3.7e-5 at x = 1/e): more than two 16-bit steps, i.e. whole
        # levels of the 16-bit backward table
        for x in (0.2, 0.37, 0.5, 0.7):
            k2 = "%s|inverse-at-%g" % (f.name.rsplit("::", 1)[-1], x)
            fw = [v for pc, m, v in mono.analyse(prog, f, x, x) if v is not None]
            if not fw:
                rep.unk(rule, k2, f.loc, "f(%g) not evaluated" % x)
                continue
            y = 0.5 * (min(v[0] for v in fw) + max(v[1] for v in fw))
            back = [v for pc, m, v in mono.analyse(prog, g, y, y) if v is not None]
            if not back:
                rep.unk(rule, k2, g.loc, "g(%g) not evaluated" % y)
                continue
            lo, hi = min(v[0] for v in back), max(v[1] for v in back)
            if max(abs(lo - x), abs(hi - x)) <= 1e-5:
                rep.ok(rule, k2, f.loc, "g(f(%g)) = %.8g" % (x, lo))
            elif lo > x + 2 * LSB16 or hi < x - 2 * LSB16:
                rep.bad(rule, k2, g.loc, "%s does not undo %s: g(f(%g)) lies in [%.8g, %.8g], more than "
                        "two 16-bit steps from %g, so the backward tables with a 16-bit destination are "
                        "whole levels away from the documented inverse curve (a rounded constant in "
                        "one of the two functions)" % (g.name, f.name, x, lo, hi, x))
            else:
                rep.unk(rule, k2, f.loc, "g(f(%g)) in [%.8g, %.8g]" % (x, lo, hi))
        for b in cuts:
            iv = [iv for pc, m, iv in res[f.id] if pc.degenerate() and pc.lo == b][0]
            if iv is None:
                rep.unk(rule, key, f.loc, "f(%g) not evaluated" % b)
                continue
            y = 0.5 * (iv[0] + iv[1])
            back = [v for pc, m, v in mono.analyse(prog, g, y, y) if v is not None]
            if not back:
                rep.unk(rule, key, g.loc, "g(%g) not evaluated" % y)
                continue
            lo, hi = min(v[0] for v in back), max(v[1] for v in back)
            if max(abs(lo - b), abs(hi - b)) <= 1e-5:
                rep.ok(rule, key, f.loc, "g(f(%g)) = %g" % (b, lo))
            elif lo > b + 2.0 / 255 / 4 or hi < b - 2.0 / 255 / 4:
                rep.bad(rule, key, f.loc, "the backward function does not undo the forward one at "
                        "the breakpoint: g(f(%g)) = [%g, %g]" % (b, lo, hi))
            else:
                rep.unk(rule, key, f.loc, "g(f(%g)) in [%g, %g]" % (b, lo, hi))


def gaps(rep, prog, rule):
    rep.rule(rule, "map_image{,_inplace}_typed call map_with_gaps*(.., N) exactly in the arm for N "
             "components (2 and 4) and the plain map otherwise; map_with_gaps* sends every N-th "
             "component (the alpha position) through into_component / leaves it and all others "
             "through the table")
    n = 0
    # switches directly on the component count (in the mapping functions or in a helper that
    # receives the count): per arm the gap step that is chosen
    for f in sorted(prog.fns.values(), key=lambda x: x.id):
        if not f.file.endswith("src/color/mod.rs") or f.kind == "closure":
            continue
        sym = None
        for b, blk in enumerate(f.blocks):
            t_ = blk["t"]
            if blk["c"] or t_[0] != "sw" or t_[4] == "bool":
                continue
            sym = sym or Sym(f)
            e = sym.operand(t_[1], (b, "term"))
            while e[0] == "cast":
                e = e[2]
            is_count = (e[0] in ("call", "callat") and (e[1] if e[0] == "call" else e[2]) == "count") or \
                (e[0] == "param" and (e[2] or "").startswith(("count", "components")))
            if not is_count:
                continue
            rep.touch(f)
            sw = Switch(f, b)
            arms = list(sw.arms) + [(None, sw.otherwise)]
            for v, tgt in arms:
                blocks = (sw.arm_blocks(tgt) | {tgt}) if [x for _, x in arms].count(tgt) == 1 else {tgt}
                step = None
                plain = False
                for c in f.calls():
                    if c.bb not in blocks:
                        continue
                    if "map_with_gaps" in c.name:
                        g = sym.operand(c.args[-1], (c.bb, "term"))
                        step = g[1] if g[0] == "const" else "?"
                    elif c.name.endswith(("::map", "::map_inplace")):
                        plain = True
                for bb in blocks:
                    for st in f.blocks[bb]["s"]:
                        if st[0] == "a" and st[2][0] == "agg" and st[2][1] == "adt" and \
                                str(st[2][2]).endswith("option::Option") and st[2][4]:
                            g = sym.operand(st[2][4][0], (bb, 0))
                            step = g[1] if g[0] == "const" else "?"
                if v is None:
                    if step is not None:
                        rep.bad(rule, "%s|otherwise" % f.name.rsplit("::", 1)[-1], f.term(b)[5],
                                "pixel types without alpha get the gap step %s" % step)
                    continue
                n += 1
                key = "%s|arm%d" % (f.name.rsplit("::", 1)[-1], v)
                if step == v and v in (2, 4):
                    rep.ok(rule, key, f.term(b)[5], "gap step %d" % v)
                elif step not in (None, "?") and step != v:
                    rep.bad(rule, key, f.term(b)[5], "arm for %d components uses gap step %s" % (v, step))
                elif step is None and plain and v in (2, 4):
                    rep.bad(rule, key, f.term(b)[5], "arm for %d components calls the plain map: alpha "
                            "goes through the colour table" % v)
                elif step is None and v not in (2, 4):
                    rep.ok(rule, key, f.term(b)[5], "no gap step for %d components" % v)
                else:
                    rep.unk(rule, key, f.term(b)[5], "gap step of the arm for %d components not resolved" % v)
    if n == 0:
        n = _gaps_by_pixel_type(rep, prog, rule)
    rep.floor(rule, "component-count arms", n, 4)
    for name in ("color::MappingTable::<Out, SIZE>::map_with_gaps",
                 "color::MappingTable::<Out, SIZE>::map_with_gaps_inplace"):
        f = prog.fn_by_name(name)
        rep.touch(f)
        sym = Sym(f)
        key = name.rsplit("::", 1)[-1]
        conv = [c for c in f.calls() if c.method == "into_component"]
        inplace = name.endswith("inplace")
        # who-may-call: the routine for pixels with alpha never hands (a part of) the row to the
        # gap-less mapper -- every component of that part, alpha included, would go through the table
        plain_calls = [c for g in [f] + f.closures() for c in g.calls()
                       if c.name.endswith(("MappingTable::<Out, SIZE>::map", "MappingTable::<Out, SIZE>::map_inplace"))]
        for c in plain_calls:
            rep.bad(rule, key + "|gap-less-part", c.at,
                    "%s maps a part of the row with the gap-less %s: the alpha components of that part "
                    "(e.g. the remainder of a row that is not a whole number of blocks) go through the "
                    "transfer-function table" % (key, c.name.rsplit("::", 1)[-1]))
        # the alpha branch is guarded by ((i + 1) % gap_step) == 0 (or != 0 for the table branch)
        guard_ok = False
        import re as _re
        is_rem = lambda s_: "Rem" in s_ and "gap_step" in s_ and \
            (_re.search(r"Add 1\)", s_) or _re.search(r"\(1 Add ", s_))
        for b_ in range(len(f.blocks)):
            if f.blocks[b_]["c"]:
                continue
            for cond, val in sym.facts_at(b_):
                if cond[0] == "bin" and cond[1] in ("Eq", "Ne") and is_rem(fmt(cond)):
                    guard_ok = True
        if not guard_ok:
            rep.unk(rule, key + "|guard", f.loc, "no `(i + 1) %% gap_step` test recognised in %s" % name)
            continue
        if inplace:
            rep.ok(rule, key, f.loc, "alpha position skipped by (i+1) % gap_step")
        elif len(conv) == 1:
            facts = sym.facts_at(conv[0].bb)
            on_alpha = any(cc[0] == "bin" and is_rem(fmt(cc)) and
                           ((cc[1] == "Eq" and v is True) or (cc[1] == "Ne" and v is False))
                           for cc, v in facts)
            off_alpha = any(cc[0] == "bin" and is_rem(fmt(cc)) and
                            ((cc[1] == "Eq" and v is False) or (cc[1] == "Ne" and v is True))
                            for cc, v in facts)
            if on_alpha:
                rep.ok(rule, key, conv[0].at, "into_component on the alpha position only")
            elif off_alpha:
                rep.bad(rule, key, conv[0].at, "into_component is applied where (i+1) %% gap_step "
                        "!= 0: colour components bypass the table and alpha goes through it")
            else:
                rep.unk(rule, key, conv[0].at, "position of the into_component call relative to the "
                        "gap test not resolved")
        else:
            rep.unk(rule, key, f.loc, "%d into_component calls in %s" % (len(conv), name))


ALPHA_STEP = {"U8x2": 2, "U8x4": 4, "U16x2": 2, "U16x4": 4}
NO_ALPHA = ("U8", "U8x3", "U16", "U16x3")


def _gaps_by_pixel_type(rep, prog, rule):
    """the gap step is chosen by a switch on the pixel type (in a helper returning Option<usize>
    or directly): every 8/16-bit pixel type with alpha needs an arm with its component count,
    no type without alpha may get one"""
    from ..engines.alpha_rules import switch_variants
    from ..engines.tables import enum_variants
    variants = enum_variants(prog, "pixels::PixelType")
    n = 0
    for f in sorted(prog.fns.values(), key=lambda x: x.id):
        if not f.file.endswith("src/color/mod.rs") or f.kind == "closure":
            continue
        vs, b = switch_variants(f, variants or {})
        if vs is None:
            continue
        rep.touch(f)
        sym = Sym(f)
        sw = Switch(f, b)
        by_variant = {}
        for v, tgt in sw.arms:
            name = (variants or {}).get(v, "?%s" % v)
            step = None
            for bb in sw.arm_blocks(tgt) | {tgt}:
                for st in f.blocks[bb]["s"]:
                    if st[0] == "a" and st[2][0] == "agg" and st[2][1] == "adt" and \
                            st[2][2].endswith("option::Option") and st[2][4]:
                        e = sym.operand(st[2][4][0], (bb, 0))
                        if e[0] == "const":
                            step = e[1]
                for c in f.calls():
                    if c.bb == bb and "map_with_gaps" in c.name:
                        e = sym.operand(c.args[-1], (c.bb, "term"))
                        if e[0] == "const":
                            step = e[1]
            by_variant[name] = step
        if not any(s is not None for s in by_variant.values()):
            continue            # a dispatcher over pixel types that does not choose a gap step
        for name, want in sorted(ALPHA_STEP.items()):
            n += 1
            key = "%s|%s" % (f.name.rsplit("::", 1)[-1], name)
            got = by_variant.get(name)
            if got == want:
                rep.ok(rule, key, f.loc, "gap step %d for %s" % (want, name))
            elif name not in by_variant:
                rep.bad(rule, key, f.loc, "%s chooses the gap step by pixel type and has no arm for "
                        "%s: its alpha channel goes through the colour table instead of being only "
                        "depth-converted" % (f.name, name))
            else:
                rep.bad(rule, key, f.loc, "%s gives %s the gap step %s (its pixels have %d "
                        "components)" % (f.name, name, got, want))
        for name in NO_ALPHA:
            if by_variant.get(name) is not None:
                rep.bad(rule, "%s|%s" % (f.name.rsplit("::", 1)[-1], name), f.loc,
                        "%s has no alpha channel but gets a gap step" % name)
    return n


def reject(rep, prog, rule):
    rep.rule(rule, "PixelComponentMapper::map reaches a map_image call only after the width and "
             "height of source and destination were compared (Err(DifferentDimensions))")
    f = prog.fn_by_name("color::PixelComponentMapper::map")
    rep.touch(f)
    sym = Sym(f)
    calls = [c for c in f.calls() if c.name.endswith("::map_image")]
    rep.floor(rule, "map_image calls", len(calls), 16)
    bad = 0
    for c in calls:
        facts = sym.facts_at(c.bb)
        okw = any(cc[0] == "bin" and "width(src_image)" in fmt(cc) and "width(dst_image)" in fmt(cc)
                  and ((cc[1] == "Ne" and v is False) or (cc[1] == "Eq" and v is True))
                  for cc, v in facts)
        okh = any(cc[0] == "bin" and "height(src_image)" in fmt(cc) and "height(dst_image)" in fmt(cc)
                  and ((cc[1] == "Ne" and v is False) or (cc[1] == "Eq" and v is True))
                  for cc, v in facts)
        if not (okw and okh):
            bad += 1
    if bad:
        rep.bad(rule, "dimensions", f.loc, "%d of %d map_image calls are reachable without the "
                "width/height comparison" % (bad, len(calls)))
    else:
        rep.ok(rule, "dimensions", f.loc, "all %d map_image calls are dominated by both "
               "comparisons" % len(calls))
    # success without mapping: an Ok(()) that is not the continuation of a map_image call must at
    # least come after the comparison of the dimensions (an early "nothing to do" return placed
    # before the validation accepts mismatched empty images)
    from ..cfg import Dom
    dom = Dom(f)
    mapped = {c.bb for c in calls}
    n_ok = 0
    for b, blk in enumerate(f.blocks):
        if blk["c"]:
            continue
        for j, st in enumerate(blk["s"]):
            if not (st[0] == "a" and st[1] == [0] and st[2][0] == "agg" and st[2][1] == "adt"
                    and str(st[2][2]).endswith("result::Result") and st[2][3][1] == "Ok"):
                continue
            n_ok += 1
            if any(dom.dominates(m, b) for m in mapped):
                rep.ok(rule, "ok-return|after-mapping|%d" % n_ok, st[3], "Ok after a map_image call")
                continue
            facts = sym.facts_at(b)
            txt = [(fmt(cc), v) for cc, v in facts]
            okw = any("width(src_image)" in s_ and "width(dst_image)" in s_ for s_, v in txt)
            okh = any("height(src_image)" in s_ and "height(dst_image)" in s_ for s_, v in txt)
            if okw and okh:
                rep.unk(rule, "ok-return|without-mapping", st[3], "Ok(()) without a map_image call, after "
                        "the comparison of the dimensions; whether the pixel types were validated is not decided")
            else:
                rep.bad(rule, "ok-return|unvalidated", st[3],
                        "PixelComponentMapper::map returns Ok(()) on a path that neither maps the image "
                        "nor compared the dimensions of source and destination (conditions on the path: %s): "
                        "mismatched images are accepted" % "; ".join("%s is %s" % (s_[:60], v) for s_, v in txt[:4]))


def table_ctor(rep, prog, rule):
    rep.rule(rule, "every table of every MappingTablesGroup is built by MappingTable::new from the "
             "group's transfer function (the constructor whose per-entry formula C16.shape / C16.mono "
             "check); a table derived from another table by a depth conversion (into_component keeps the "
             "high byte: floor(round(f * 65535) / 256) instead of round(f * 255)) rounds twice and is a "
             "violation, any other construction is undecided")
    adt = [k for k in prog.adts if k.endswith("color::MappingTablesGroup")]
    if len(adt) != 1:
        rep.unk(rule, "MappingTablesGroup|anchor", "", "struct not found")
        return
    fields = [x[0] for x in prog.adts[adt[0]]["variants"][0]["fields"]]
    n = 0
    for f in sorted(prog.fns.values(), key=lambda x: x.id):
        sym = None
        for b, blk in enumerate(f.blocks):
            if blk["c"]:
                continue
            for j, st in enumerate(blk["s"]):
                if not (st[0] == "a" and st[2][0] == "agg" and st[2][1] == "adt" and st[2][2] == adt[0]):
                    continue
                sym = sym or Sym(f)
                rep.touch(f)
                group_args = []
                for k, op in enumerate(st[2][4]):
                    n += 1
                    e = sym.operand(op, (b, j))
                    s = fmt(e)
                    name = fields[k] if k < len(fields) else "#%d" % k
                    key = "%s|%s|%d" % (f.name, name, n)
                    inner = e
                    for _ in range(4):
                        if inner[0] in ("call", "callat") and (inner[2] if inner[0] == "callat" else inner[1]) == "new" \
                                and "Box" in str(inner[5] if inner[0] == "callat" else inner[4]):
                            inner = (inner[3] if inner[0] == "callat" else inner[2])[0]
                        else:
                            break
                    full = str(inner[5] if inner[0] == "callat" else inner[4]) if inner[0] in ("call", "callat") else ""
                    if inner[0] in ("call", "callat") and full.endswith("MappingTable::<Out, SIZE>::new"):
                        a0 = (inner[3] if inner[0] == "callat" else inner[2])[0]
                        while isinstance(a0, tuple) and a0 and a0[0] in ("ref", "deref", "cast"):
                            a0 = a0[2] if a0[0] == "cast" else a0[1]
                        group_args.append((name, a0))
                        rep.ok(rule, key, st[3], "%s = MappingTable::new(%s)" % (
                            name, fmt((inner[3] if inner[0] == "callat" else inner[2])[0])[:40]))
                        continue
                    # another constructor: does it narrow the entries of another table?
                    tg = None
                    if inner[0] in ("call", "callat"):
                        cands = [g for g in prog.fns.values() if g.kind != "closure" and
                                 (g.name == full or g.name.endswith("::" + full.rsplit("::", 1)[-1]))
                                 and g.file == "src/color/mod.rs"]
                        tg = cands[0] if len(cands) == 1 else None
                    narrowing = False
                    if tg is not None:
                        work = [tg] + list(tg.closures())
                        for g in work:
                            for c in g.calls():
                                if (c.method or c.name.rsplit("::", 1)[-1]) == "into_component":
                                    narrowing = True
                    if narrowing:
                        rep.bad(rule, key + "|derived", st[3],
                                "%s: the table %s is derived from another table through into_component "
                                "(%s): entries are floor(round(f * 65535) / 256), not f rounded to the "
                                "destination depth" % (f.name, name, s[:80]))
                    else:
                        rep.unk(rule, key, st[3], "%s is built by %s" % (name, s[:100]))
                # the four tables of one group serve one direction: they are built from ONE function
                if len(group_args) >= 2:
                    from collections import Counter
                    cnt = Counter(fmt(a) for _, a in group_args)
                    major, _ = cnt.most_common(1)[0]
                    odd = [(nm, a) for nm, a in group_args if fmt(a) != major]
                    gkey = "%s|group@%s" % (f.name, "+".join(sorted({fmt(a)[:20] for _, a in group_args})))
                    if odd and len(cnt) == 2 and len(odd) < len(group_args) - len(odd):
                        for nm, a in odd:
                            rep.bad(rule, "%s|%s|other-function" % (f.name, nm), st[3],
                                    "%s: table %s of the group is built from %s while the other tables "
                                    "of the same group are built from %s: that slot maps with the "
                                    "transfer function of the other direction" % (f.name, nm, fmt(a)[:40], major[:40]))
                    elif odd:
                        rep.unk(rule, gkey, st[3], "tables of one group built from %d different functions" % len(cnt))
                    else:
                        rep.ok(rule, gkey, st[3], "all %d tables from %s" % (len(group_args), major[:40]))
    rep.floor(rule, "tables in MappingTablesGroup aggregates", n, 8)


def entry_formula(rep, prog, rule):
    rep.rule(rule, "MappingTable::new computes EVERY entry of every table from the transfer function "
             "itself: the value handed to from_f32 is round(map_func(i / (SIZE - 1)) * max) with one "
             "call of map_func per entry and nothing but the scaling and the rounding between that call "
             "and the store. An entry that is a combination of several calls (linear interpolation "
             "between knots for the 65536-entry tables) is not 'the documented transfer function applied "
             "to v/max and rounded': entries between the knots are off, 65535 no longer maps to 65535")
    fs = [f for f in prog.fns.values() if re.search(r"(^|::)MappingTable::<.*>::new$", f.name)]
    if len(fs) != 1:
        rep.unk(rule, "MappingTable::new|anchor", "", "%d functions named MappingTable::new" % len(fs))
        return
    f = fs[0]
    n = 0
    owners = [f]
    stack = list(f.closures())
    while stack:
        g = stack.pop()
        owners.append(g)
        stack.extend(g.closures())
    for g in owners:
        gs = None
        for c in g.calls():
            if not (c.name or "").endswith("from_f32"):
                continue
            n += 1
            rep.touch(g)
            gs = gs or Sym(g)
            e = gs.operand(c.args[0], (c.bb, "term"))
            calls, path_ops = [], []

            def walk(x, ops):
                if not isinstance(x, tuple) or not x:
                    return
                if x[0] in ("call", "callat"):
                    nm = x[1] if x[0] == "call" else x[2]
                    args = x[2] if x[0] == "call" else x[3]
                    full = x[-1] if isinstance(x[-1], str) else ""
                    if nm in ("call", "call_mut", "call_once") and "Fn" in full:
                        calls.append((x, list(ops)))
                        return
                    if nm in ("round", "into", "from", "max_value", "clamp", "min", "max"):
                        for a in args:
                            walk(a, ops + [nm])
                        return
                    # a crate-local / unknown call between the store and map_func
                    for a in args:
                        walk(a, ops + ["call:" + str(nm)])
                    return
                if x[0] == "bin":
                    walk(x[2], ops + [x[1]])
                    walk(x[3], ops + [x[1]])
                    return
                for y in x:
                    if isinstance(y, tuple):
                        walk(y, ops)
            walk(e, [])
            key = "%s|entry" % g.name
            if len(calls) == 1 and all(o in ("round", "Mul", "into", "from", "clamp", "min", "max") for o in calls[0][1]):
                arg = calls[0][0][3][1] if calls[0][0][0] == "callat" else calls[0][0][2][1]
                sarg = fmt(arg)
                if "Div" in sarg and "SIZE" in sarg:
                    rep.ok(rule, key, c.at, "round(map_func(%s) * max)" % sarg[:60])
                else:
                    rep.unk(rule, key, c.at, "map_func is applied to %s" % sarg[:80])
            elif len(calls) >= 2 or (calls and any(o in ("Add", "Sub", "Div") for o in calls[0][1])):
                rep.bad(rule, key + "|combined", c.at,
                        "%s stores an entry that combines %d evaluation(s) of the transfer function with "
                        "%s: the entry is not round(map_func(i / (SIZE - 1)) * max) of its own index" % (
                            g.name, len(calls), ", ".join(sorted({o for cc in calls for o in cc[1]
                                                                 if o in ("Add", "Sub", "Div", "Mul")})) or "arithmetic"))
            elif not calls and _mentions_local_values(e):
                # values computed before (knots) and combined here
                if any(k in fmt(e) for k in (" Add ", " Sub ")):
                    rep.bad(rule, key + "|combined", c.at,
                            "%s stores %s: an entry computed from previously evaluated values, not from "
                            "map_func at its own index" % (g.name, fmt(e)[:100]))
                else:
                    rep.unk(rule, key, c.at, "entry value %s" % fmt(e)[:100])
            else:
                rep.unk(rule, key, c.at, "entry value %s" % fmt(e)[:100])
    rep.floor(rule, "table entry stores", n, 1)


def _mentions_local_values(e):
    if not isinstance(e, tuple) or not e:
        return False
    if e[0] in ("local", "callat", "field", "param"):
        return True
    return any(_mentions_local_values(x) for x in e if isinstance(x, tuple))


def direction(rep, prog, rule):
    rep.rule(rule, "the public entry points of PixelComponentMapper use the table group their name says: "
             "forward_map / forward_map_inplace read `forward_mapping_tables`, backward_map / "
             "backward_map_inplace read `backward_mapping_tables` (the four wrappers have one shape; a body "
             "copied from the sibling keeps the other group and applies the forward function where the "
             "backward one is asked for: values still monotone, 0 -> 0, max -> max)")
    n = 0
    for f in sorted(prog.fns.values(), key=lambda x: x.id):
        m = re.search(r"PixelComponentMapper::(forward|backward)_map(_inplace)?$", f.name)
        if not m or f.kind == "closure":
            continue
        n += 1
        rep.touch(f)
        want = m.group(1)
        used = set()
        for blk in f.blocks:
            if blk["c"]:
                continue
            for st in blk["s"]:
                for el in _walk_fields(st):
                    if el in ("forward_mapping_tables", "backward_mapping_tables"):
                        used.add(el.split("_")[0])
        key = f.name.rsplit("::", 1)[-1]
        if used == {want}:
            rep.ok(rule, key, f.loc, "%s tables" % want)
        elif not used:
            rep.unk(rule, key, f.loc, "no table group is read")
        else:
            rep.bad(rule, key + "|other-group", f.loc, "%s reads the %s tables" % (f.name, " and ".join(sorted(used))))
    rep.floor(rule, "directional entry points of PixelComponentMapper", n, 4)


def _walk_fields(x):
    if isinstance(x, list):
        if len(x) == 3 and x[0] == "f" and isinstance(x[2], str):
            yield x[2]
        for y in x:
            if isinstance(y, list):
                for z in _walk_fields(y):
                    yield z


def run(rep, tier):
    cfgs = ["x86"] if tier == "quick" else ["x86", "arm", "wasm"]
    for cfg, prog in programs(cfgs):
        rep.set_cfg(cfg)
        rep.call(transfer_mono, rep, prog, "C16.mono")
        rep.call(transfer_shape, rep, prog, "C16.shape")
        rep.call(gaps, rep, prog, "C16.gaps")
        rep.call(reject, rep, prog, "C16.reject")
        rep.call(table_ctor, rep, prog, "C16.table-ctor")
        rep.call(entry_formula, rep, prog, "C16.entry-formula")
        rep.call(direction, rep, prog, "C16.direction")
