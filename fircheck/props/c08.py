"""C08 — rayon: result independent of thread count and schedule (clauses, cfg x86-rayon)."""
import re
from ..engines import index_rules, witness
from ..engines.validators import subst
from ..facts import CheckError
from ..progs import programs
from ..sym import Sym, fmt
from . import c03, c14

SPLITTERS = {
    "threading::split_h_two_images_for_threading": ("h", 2),
    "threading::split_v_two_images_for_threading": ("v", 2),
    "threading::split_h_one_image_for_threading": ("h", 1),
}
_SPLITTER_TAILS = {k.rsplit("::", 1)[-1]: v for k, v in SPLITTERS.items()}


def _splitter(name):
    """(axis, images) of a band splitter, whatever module it lives in"""
    return SPLITTERS.get(name) or (_SPLITTER_TAILS.get(name.rsplit("::", 1)[-1])
                                   if re.match(r"^([a-z_0-9]+::)*[a-z_0-9]+$", name) else None)



def _closure_of_for_each(prog, f):
    for c in f.calls():
        if c.name.endswith("ParallelIterator::for_each"):
            for a in c.args:
                if a[0] in ("c", "m"):
                    ty = f.local_ty(a[1][0])
                    if "{closure:" in ty:
                        cid = ty[ty.index("{closure:") + 9:-1]
                        yield c, prog.fns.get(cid)


def _float_restarts(sym, f, step_expr):
    """expressions  X + step * (k as f64)  (either order) in f, k not a constant"""
    out = []

    def is_step_mul(e):
        while e[0] == "cast" and e[1] in ("FloatToFloat",):
            e = e[2]
        if e[0] == "bin" and e[1] == "Mul":
            for s_, k_ in ((e[2], e[3]), (e[3], e[2])):
                if s_ == step_expr:
                    kk = k_
                    if kk[0] == "cast" and kk[1] == "IntToFloat":
                        inner = kk[2]
                        while inner[0] == "cast":
                            inner = inner[2]
                        if inner[0] != "const":
                            return True
        return False
    seen = set()
    for l, ds in sym.defs.items():
        for (bb, j, rv, whole) in ds:
            e = sym.rvalue(rv, bb, (bb, j))
            stack = [e]
            while stack:
                x = stack.pop()
                if not isinstance(x, tuple) or not x:
                    continue
                if x[0] == "bin" and x[1] == "Add" and (is_step_mul(x[2]) or is_step_mul(x[3])):
                    if fmt(x) not in seen:
                        seen.add(fmt(x))
                        out.append((x, f.blocks[bb]["s"][j][3] if j != "term" else f.loc))
                stack += [y for y in x if isinstance(y, tuple)]
    return out


_ROW_WALK = {}


def _row_walk_helpers(prog):
    """crate-local functions that call iter_rows_with_step(start, step, ..) with two of their own
    parameters: fn id -> (index of the start parameter, index of the step parameter)"""
    key = id(prog)
    if key not in _ROW_WALK:
        out = {}
        for h in prog.fns.values():
            if h.kind == "closure":
                continue
            for c in h.calls():
                if (c.method or c.name.rsplit("::", 1)[-1]) != "iter_rows_with_step" or len(c.args) < 3:
                    continue
                hs = Sym(h)
                a, b = hs.operand(c.args[1], (c.bb, "term")), hs.operand(c.args[2], (c.bb, "term"))
                if a[0] == "param" and b[0] == "param":
                    out[h.id] = (a[1], b[1])
        _ROW_WALK[key] = out
    return _ROW_WALK[key]


def _helper_band_start(rep, prog, rule, g, c, start_op, step_op):
    """a per-band closure (run by rayon) hands (start, step) to a row-walking helper"""
    parent = prog.fns.get(g.d.get("parent"))
    if parent is None:
        return
    par = any(re.search(r"rayon|ParallelIterator|par_iter", pc.name or "") for pc in parent.calls())
    if not par:
        return
    gs = Sym(g)
    step = gs.operand(step_op, (c.bb, "term"))
    while isinstance(step, tuple) and step and step[0] in ("copy", "deref", "ref"):
        step = step[1]
    rep.touch(parent)
    key = "%s|%s" % (g.name, (c.name or "").rsplit("::", 1)[-1])
    hits = _float_restarts(gs, g, step)
    if hits:
        rep.bad(rule, key + "|restart", hits[0][1],
                "%s: each band starts its rows at %s, recomputed by a multiplication with the band's first "
                "row, while the sequential path accumulates y += step over all rows: the two round "
                "differently (and the first row of a band is only right if it is the true offset of "
                "that band), so the result depends on the number of bands" % (parent.name, fmt(hits[0][0])[:120]))
    else:
        rep.unk(rule, key, c.at, "band start %s not traced" % fmt(gs.operand(start_op, (c.bb, "term")))[:80])


def float_restart(rep, prog, rule):
    rep.rule(rule, "a closure that rayon runs per band and that walks source rows with "
             "iter_rows_with_step(start, step, n) must get the start the sequential iterator would have "
             "reached (the iterator accumulates y += step); a start computed in the enclosing function as "
             "base + step * (k as f64) is equal only in exact arithmetic: for row centres on or near a "
             "source row boundary the band copies a neighbouring row, so the bytes depend on the number of "
             "bands; a band start that is not traced is undecided")
    n = 0
    for g in sorted(prog.fns.values(), key=lambda z: z.id):
        if g.kind != "closure":
            continue
        calls = [c for c in g.calls() if (c.method or c.name.rsplit("::", 1)[-1]) == "iter_rows_with_step"]
        if not calls:
            # a helper that walks the rows for the band: `nearest_rows(src, &mut band, table, y_start, step)`
            via = _row_walk_helpers(prog)
            for c in g.calls():
                for t in prog.call_targets(c):
                    if t.id in via:
                        ks, kp = via[t.id]
                        if ks - 1 < len(c.args) and kp - 1 < len(c.args):
                            _helper_band_start(rep, prog, rule, g, c, c.args[ks - 1], c.args[kp - 1])
            continue
        parent = prog.fns.get(g.d.get("parent"))
        if parent is None:
            continue
        # is the closure handed to a rayon adaptor?
        par = False
        psym = Sym(parent)
        captured = None
        for c in parent.calls():
            if not re.search(r"rayon|ParallelIterator|par_iter", c.name):
                continue
            for a in c.args:
                e = psym.operand(a, (c.bb, "term"))
                if e[0] == "agg" and e[1] == "closure" and e[2] == g.id:
                    par = True
                    captured = e[4]
        if not par:
            continue
        gs = Sym(g)
        for c in calls:
            n += 1
            rep.touch(parent)
            key = "%s|iter_rows_with_step" % g.name
            start = gs.operand(c.args[1], (c.bb, "term"))
            step = gs.operand(c.args[2], (c.bb, "term"))
            # the step as an expression of the parent: a captured variable
            s_ = step
            while s_[0] in ("cast", "deref", "ref"):
                s_ = s_[2] if s_[0] == "cast" else s_[1]
            step_parent = None
            if s_[0] == "field" and s_[1][0] == "param" and s_[1][1] == 1 and isinstance(s_[2], int) \
                    and captured is not None and s_[2] < len(captured):
                step_parent = captured[s_[2]]
                while step_parent[0] in ("ref", "deref"):
                    step_parent = step_parent[1]
            if step_parent is None:
                rep.unk(rule, key, c.at, "step of the band iterator is not a captured value")
                continue
            hits = _float_restarts(psym, parent, step_parent)
            if hits:
                rep.bad(rule, key + "|restart", hits[0][1],
                        "%s: the bands start their row iterator at %s, recomputed by a multiplication, while "
                        "the sequential path accumulates y += step: the two round differently, the result "
                        "depends on the number of bands" % (parent.name, fmt(hits[0][0])[:120]))
            else:
                rep.unk(rule, key, c.at, "start %s of a band's row iterator is not traced to the "
                        "sequential position" % fmt(start)[:60])
    if n == 0:
        rep.ok(rule, "no-parallel-row-stepping", "", "no closure run by rayon walks rows with iter_rows_with_step",
               nontrivial=False)


def offset_once(rep, prog, rule):
    rep.rule(rule, "in every expansion of the threading macros the threaded branch hands the "
             "source offset to the split and `0` to the per-band operation, the sequential branch "
             "hands it to the operation, and both branches call the same operation (same DefId "
             "and const arguments) with the same remaining arguments")
    n = 0
    for f in sorted(prog.fns.values(), key=lambda x: x.id):
        if f.kind == "closure":
            continue
        splits = [c for c in f.calls() if _splitter(c.name)]
        if not splits:
            continue
        rep.touch(f)
        sym = Sym(f)
        for s in splits:
            n += 1
            kind, nimg = _splitter(s.name)
            key = f.name
            cl = [(c, k) for c, k in _closure_of_for_each(prog, f) if k is not None]
            if len(cl) != 1:
                rep.unk(rule, key, s.at, "%d for_each closures" % len(cl))
                continue
            fe, k = cl[0]
            ksym = Sym(k)
            kcalls = [c for c in k.calls() if prog.call_targets(c)]
            # the offset must not be applied a second time inside the band closure: no call there
            # may receive the offset or the object it was read from (a crop box, say)
            if nimg == 2 and len(s.args) > 2:
                s_off0 = sym.operand(s.args[2], (s.bb, "term"))
                base = s_off0
                while base[0] == "cast":
                    base = base[2]
                obj = base[1] if base[0] == "field" else base
                if base[0] != "const":
                    capx = None
                    for b_, blk in enumerate(f.blocks):
                        for j_, st in enumerate(blk["s"]):
                            if st[0] == "a" and st[2][0] == "agg" and st[2][1] == "closure" and st[2][2] == k.id:
                                capx = [sym.operand(o, (b_, j_)) for o in st[2][4]]
                    p1x = ("param", 1, k.local_name(1))
                    mapx = {("field", p1x, i): c_ for i, c_ in enumerate(capx or [])}

                    def contains(e, x):
                        if e == x:
                            return True
                        return isinstance(e, tuple) and any(contains(y, x) for y in e if isinstance(y, tuple))

                    def peel(e):
                        while isinstance(e, tuple) and e and e[0] in ("ref", "deref", "cast"):
                            e = e[2] if e[0] == "cast" else e[1]
                        return e
                    again = None
                    for c_ in kcalls:
                        for a_ in c_.args:
                            e_ = peel(subst(ksym.operand(a_, (c_.bb, "term")), mapx))
                            e_ = subst(e_, {("ref", obj): obj})
                            if contains(e_, obj) or contains(e_, base):
                                again = (c_, e_)
                    if again is not None:
                        rep.bad(rule, key + "|offset-twice", again[0].at,
                                "%s: the split already starts the source bands at %s, and the band closure "
                                "hands %s to %s again: every band reads the source shifted by the offset a "
                                "second time" % (f.name, fmt(s_off0)[:60], fmt(again[1])[:60],
                                                 again[0].name.rsplit("::", 1)[-1]))
                        continue
            if len(kcalls) != 1:
                rep.unk(rule, key, s.at, "%d local calls in the band closure" % len(kcalls))
                continue
            ot = kcalls[0]
            seq = [c for c in f.calls() if c.res == ot.res and c.bb != s.bb]
            if len(seq) != 1:
                others = [c for c in f.calls() if prog.call_targets(c) and not _splitter(c.name)
                          and not c.name.endswith("::new")]
                rep.bad(rule, key + "|same-op", s.at, "the threaded branch calls %s but the "
                        "sequential branch calls %s" % (ot.name, [c.name for c in others][:3]))
                continue
            os_ = seq[0]
            if ot.callee.get("args") != os_.callee.get("args") and \
                    ot.cargs() != os_.cargs():
                rep.bad(rule, key + "|same-op", s.at, "const arguments differ between the "
                        "branches: %s vs %s" % (ot.cargs(), os_.cargs()))
                continue
            # captured operands of the closure
            cap = None
            for blk in f.blocks:
                for st in blk["s"]:
                    if st[0] == "a" and st[2][0] == "agg" and st[2][1] == "closure" \
                            and st[2][2] == k.id:
                        cap = [sym.operand(o) for o in st[2][4]]
            p1 = ("param", 1, k.local_name(1))
            mapping = {("field", p1, i): c for i, c in enumerate(cap or [])}
            targs = [subst(ksym.operand(a), mapping) for a in ot.args]
            sargs = [sym.operand(a) for a in os_.args]
            if len(targs) != len(sargs):
                rep.unk(rule, key, s.at, "arity differs")
                continue
            if nimg == 2:
                s_off = sym.operand(s.args[2])
                has_offset = len(sargs) > 2 and f.local_ty(_root(os_.args[2])) == "u32" \
                    if _root(os_.args[2]) is not None else False
                zero = ("const", 0, "u32")
                if has_offset:
                    if s_off != sargs[2]:
                        rep.bad(rule, key + "|split-offset", s.at, "the split receives offset %s "
                                "but the sequential operation receives %s: the threaded result "
                                "reads other source rows/columns" % (fmt(s_off), fmt(sargs[2])))
                        continue
                    if targs[2] != zero:
                        rep.bad(rule, key + "|band-offset", ot.at, "the per-band operation "
                                "receives offset %s although the split already applied it"
                                % fmt(targs[2]))
                        continue
                    rest_t, rest_s = targs[3:], sargs[3:]
                else:
                    if s_off != zero:
                        rep.bad(rule, key + "|split-offset", s.at, "operation without an offset "
                                "parameter is split with offset %s" % fmt(s_off))
                        continue
                    rest_t, rest_s = targs[2:], sargs[2:]
                # images: the split must see the same two images as the sequential op
                if sym.operand(s.args[0]) != sargs[0] or sym.operand(s.args[1]) != sargs[1]:
                    rep.bad(rule, key + "|images", s.at, "split(%s, %s) vs operation(%s, %s)" % (
                        fmt(sym.operand(s.args[0])), fmt(sym.operand(s.args[1])),
                        fmt(sargs[0]), fmt(sargs[1])))
                    continue
            else:
                if sym.operand(s.args[0]) != sargs[0]:
                    rep.bad(rule, key + "|images", s.at, "split(%s) vs operation(%s)" % (
                        fmt(sym.operand(s.args[0])), fmt(sargs[0])))
                    continue
                rest_t, rest_s = targs[1:], sargs[1:]
            if [_deref(x) for x in rest_t] != [_deref(x) for x in rest_s]:
                rep.bad(rule, key + "|args", ot.at, "remaining arguments differ: threaded (%s) vs "
                        "sequential (%s)" % (", ".join(fmt(x) for x in rest_t),
                                             ", ".join(fmt(x) for x in rest_s)))
                continue
            rep.ok(rule, key, s.at, "%s: offset once, same operation %s" % (
                s.name.rsplit("::", 1)[-1], ot.name.rsplit("::", 1)[-1]))
    rep.floor(rule, "threading macro expansions", n, 50)


def _root(op):
    if op[0] in ("c", "m"):
        return op[1][0]
    return None


def _deref(e):
    return e


def axis(rep, prog, rule):
    rep.rule(rule, "horizontal passes and alpha operations are split by height (bands of rows), "
             "vertical passes by width; in threading.rs the source is split with (offset, size, n) "
             "and the destination with (0, size, n) for the same size and n on the same axis")
    n = 0
    for f in sorted(prog.fns.values(), key=lambda x: x.id):
        if f.kind == "closure":
            continue
        for c in f.calls():
            if not _splitter(c.name):
                continue
            n += 1
            kind = _splitter(c.name)[0]
            meth = f.d.get("method") or f.name.rsplit("::", 1)[-1]
            want = "v" if meth.startswith("vert_convolution") else "h"
            if kind == want:
                rep.ok(rule, "%s|split-%s" % (f.name, kind), c.at, "%s uses %s" % (meth, c.name))
            else:
                rep.bad(rule, "%s|split-%s" % (f.name, kind), c.at, "%s splits with %s: bands on "
                        "the wrong axis (a vertical pass needs whole columns, a horizontal pass "
                        "whole rows)" % (f.name, c.name))
    rep.floor(rule, "split call sites", n, 50)
    for name, (kind, nimg) in SPLITTERS.items():
        f = prog.fn_by_name(name)
        rep.touch(f)
        sym = Sym(f)
        want = "split_by_height" if kind == "h" else "split_by_width"
        calls = [c for c in f.calls() if c.method and c.method.startswith("split_by_")]
        key = name
        wrong = [c for c in calls if not c.method.startswith(want)]
        if wrong:
            rep.bad(rule, key + "|method", wrong[0].at, "%s calls %s" % (name, wrong[0].method))
            continue
        if len(calls) != nimg:
            # bands of one image built by hand: the proportional boundary floor(i * total / n)
            # is a known-wrong replacement for the splits' own distribution (they give the
            # remainder total % n to the first bands: start_i = i * (total / n) + min(i, total % n))
            prop = None
            for g in f.closures():
                gs = Sym(g)
                for c in g.calls():
                    if not re.search(r"::(from_ref|new)$", c.name):
                        continue
                    for a in c.args:
                        e = gs.operand(a, (c.bb, "term"))
                        s = fmt(e)

                        def div_of_mul(x):
                            if not isinstance(x, tuple) or not x:
                                return False
                            y = x
                            while y[0] in ("cast", "ovf"):
                                y = y[2] if y[0] == "cast" else y[1]
                            if y[0] == "bin" and y[1] == "Div":
                                z = y[2]
                                while z[0] in ("cast", "ovf"):
                                    z = z[2] if z[0] == "cast" else z[1]
                                if z[0] == "bin" and z[1] == "Mul":
                                    return True
                            return any(div_of_mul(w) for w in y if isinstance(w, tuple))
                        if div_of_mul(e) and "Add" in s and "min(" not in s:
                            prop = (c, s)
            if prop is not None and nimg == 2 and len(calls) == 1:
                rep.bad(rule, key + "|hand-made-bands", prop[0].at, "%s splits only one image with "
                        "split_by_* and places the bands of the other at %s: the splits hand the "
                        "remainder total %% n to the first bands (start_i = i*(total/n) + min(i, "
                        "total %% n)), so from the second band on source and destination bands no "
                        "longer correspond when total %% n != 0" % (name, prop[1][:120]))
            else:
                rep.unk(rule, key, f.loc, "%d split calls" % len(calls))
            continue
        if nimg == 2:
            src = [c for c in calls if not c.method.endswith("_mut")]
            dst = [c for c in calls if c.method.endswith("_mut")]
            if len(src) != 1 or len(dst) != 1:
                rep.unk(rule, key, f.loc, "src/dst split calls not recognised")
                continue
            sa = [sym.operand(a) for a in src[0].args]
            da = [sym.operand(a) for a in dst[0].args]
            # roles by type / position: the two views, then the u32 offset
            oi = f.param_index("src_offset")
            if oi is None:
                u32s = [i for i in range(1, f.arg_count + 1) if f.local_ty(i) == "u32"]
                oi = u32s[0] if len(u32s) == 1 else None
            di = f.param_by_role("dst_view")
            if oi is None or di is None:
                rep.unk(rule, key, f.loc, "offset / destination parameters of %s not identified" % name)
                continue
            DSTN = f.local_name(di)
            off_ok = sa[1] == ("param", oi, f.local_name(oi))
            if not off_ok:
                rep.bad(rule, key + "|src-offset", src[0].at, "source split starts at %s"
                        % fmt(sa[1]))
            elif da[1] != ("const", 0, "u32"):
                rep.bad(rule, key + "|dst-offset", dst[0].at, "destination split starts at %s"
                        % fmt(da[1]))
            elif sa[2] != da[2] or sa[3] != da[3]:
                rep.bad(rule, key + "|same-bands", dst[0].at, "source split (%s, %s) and "
                        "destination split (%s, %s) differ: bands do not correspond" % (
                            fmt(sa[2]), fmt(sa[3]), fmt(da[2]), fmt(da[3])))
            else:
                ext = "height" if kind == "h" else "width"
                sz = sa[2]
                szs = fmt(sz)
                if (ext + "(%s)" % DSTN) in szs:
                    rep.ok(rule, key, f.loc, "src(%s,%s,%s) / dst(0,%s,%s)" % (
                        fmt(sa[1]), szs, fmt(sa[3]), szs, fmt(sa[3])))
                else:
                    rep.bad(rule, key + "|size", f.loc, "bands cover %s, not the destination's "
                            "%s" % (szs, ext))
        else:
            rep.ok(rule, key, f.loc, "one image split by %s" % want)


def pool_size_use(rep, prog, rule):
    rep.rule(rule, "the size of the thread pool (rayon::current_num_threads and its relatives) is read "
             "only by the band splitters -- functions that call split_by_height / split_by_width(_mut) "
             "and hand the bands to the pool -- where it bounds the NUMBER of bands. Any other function "
             "that reads it makes a decision that is not about banding depend on the pool: e.g. the "
             "order of the two passes chosen by `num_threads`, which changes the intermediate rounding "
             "of u8 images and so the bytes of the result")
    n = 0
    for f in sorted(prog.fns.values(), key=lambda x: x.id):
        qs = [c for c in f.calls() if re.search(
            r"(^|::)(current_num_threads|current_thread_index|max_num_threads|current_thread_has_pending_tasks)$",
            c.name or "")]
        if not qs:
            continue
        n += 1
        rep.touch(f)
        root = f
        while root is not None and root.kind == "closure":
            root = prog.fns.get(root.d.get("parent"))
        root = root or f
        splits = [c for c in root.calls() if c.method and c.method.startswith("split_by_")]
        key = "%s|%s" % (root.name, qs[0].name.rsplit("::", 1)[-1])
        def only_splitters(g, depth=0):
            cs = prog.callers().get(g.id, [])
            if not cs or depth > 2:
                return False
            for c in cs:
                r = c.fn
                while r is not None and r.kind == "closure":
                    r = prog.fns.get(r.d.get("parent"))
                if r is None:
                    return False
                if any(x.method and x.method.startswith("split_by_") for x in r.calls()):
                    continue
                if not only_splitters(r, depth + 1):
                    return False
            return True
        if splits:
            rep.ok(rule, key, qs[0].at, "read by a band splitter (%d split calls)" % len(splits))
        elif only_splitters(root):
            rep.ok(rule, key, qs[0].at, "a helper that only band splitters call")
        else:
            rep.bad(rule, key + "|not-a-splitter", qs[0].at,
                    "%s reads the size of the thread pool but splits nothing: whatever it decides "
                    "(callers: %s) depends on the number of threads, so the result of a resize can differ "
                    "between pool sizes" % (root.name, ", ".join(sorted(
                        {c.fn.name for c in prog.callers().get(root.id, [])}))[:160] or "-"))
    rep.floor(rule, "functions that read the pool size", n, 3)


def run(rep, tier):
    cfgs = ["x86-rayon"] if tier == "quick" else ["x86-rayon", "arm-rayon"]
    for cfg, prog in programs(cfgs):
        rep.set_cfg(cfg)
        rep.call(offset_once, rep, prog, "C08.offset-once")
        rep.call(axis, rep, prog, "C08.axis")
        rep.call(float_restart, rep, prog, "C08.float-restart")
        rep.call(pool_size_use, rep, prog, "C08.pool-size-use")
        rep.call(c14.aliasing, rep, prog, "C08.aliasing")
        rep.call(c14.guards, rep, prog, "C08.split-guards")
        rep.call(c14.offsets, rep, prog, "C08.split-offsets")
        rep.call(c14.start_used, rep, prog, "C08.start-used")
        # "never panic because of how an image is split into bands ... pools with more threads
        # than rows": no band is empty (the cropped wrappers unwrap a constructor that rejects
        # an empty band)
        rep.call(c14.sizes, rep, prog, "C08.band-sizes", siblings=True)
        n = rep.call(c03.arith, rep, prog, "C08.arith", only=lambda f: f.file == prog.file_now("src/threading.rs")) or 0
        rep.floor("C08.arith", "arithmetic asserts in threading.rs", n, 8)
        rep.call(index_rules.unwraps, rep, prog, "C08.unwrap", only=lambda f: f.file == prog.file_now("src/threading.rs"), floor=6)
    if tier == "thorough":
        rep.set_cfg("witness")
        rep.call(witness.report, rep, "C08.types", ["W3", "W5"])
