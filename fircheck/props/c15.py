"""C15 — fit-into-destination crop (clauses)."""
from ..engines import formulas
from ..progs import programs
from ..sym import Sym, fmt, atoms


def _has(e, pred):
    if not isinstance(e, tuple):
        return False
    if e and isinstance(e[0], str) and pred(e):
        return True
    return any(_has(x, pred) for x in e if isinstance(x, tuple))


def _only_atom(e, pname):
    """e is the parameter `pname` up to value-preserving conversions (casts, From::from)"""
    while isinstance(e, tuple) and e:
        if e[0] == "cast":
            e = e[2]
        elif e[0] in ("call", "callat") and (e[1] if e[0] == "call" else e[2]) in ("from", "into") \
                and len(e[2] if e[0] == "call" else e[3]) == 1:
            e = (e[2] if e[0] == "call" else e[3])[0]
        else:
            break
    return e[0] == "param" and e[2] == pname


def _helper_clamps(g):
    """'clamped-nan-safe' | 'clamped' | None for a helper f64 -> f64: on every path it returns a
    constant of [0, 1] or clamp(param, 0.0, 1.0) (NaN-safe when that path excludes NaN, or
    max / min are used)"""
    gs = Sym(g)
    p1 = ("param", 1, g.local_name(1))
    ok, nan_safe = True, True
    defs = g.defs().get(0, [])
    if not defs:
        return None
    for (bb, j, rv, whole) in defs:
        r = gs.rvalue(rv, bb, (bb, j))
        if r[0] == "const" and isinstance(r[1], float) and 0.0 <= r[1] <= 1.0:
            continue
        if r[0] in ("call", "callat"):
            nm = r[1] if r[0] == "call" else r[2]
            args = r[2] if r[0] == "call" else r[3]
            if nm == "clamp" and len(args) == 3 and args[0] == p1 and args[1] == ("const", 0.0, "f64") \
                    and args[2] == ("const", 1.0, "f64"):
                facts = gs.facts_at(bb)
                if not any(cc[0] in ("call", "callat") and (cc[1] if cc[0] == "call" else cc[2]) == "is_nan"
                           and v is False for cc, v in facts):
                    nan_safe = False
                continue
            if nm == "min" and len(args) == 2 and args[1] == ("const", 1.0, "f64") and \
                    args[0][0] in ("call", "callat") and (args[0][1] if args[0][0] == "call" else args[0][2]) == "max":
                continue
        ok = False
    if not ok:
        return None
    return "clamped-nan-safe" if nan_safe else "clamped"


_INLINE_CACHE = {}


def _inline_one_call(f, ex, F, names):
    """replace one call of a crate-local helper of the same file (or of a closure, through
    Fn::call) inside the box expressions by what it returns, one variant per return
    definition with the branch facts of that definition; None when there is nothing to inline"""
    from ..engines.validators import subst as esubst
    from ..engines.formulas import _project
    prog = f.prog

    def find(e, depth=0):
        if not isinstance(e, tuple) or not e or depth > 40:
            return None
        if isinstance(e[0], tuple):
            for x in e:
                r = find(x, depth + 1)
                if r is not None:
                    return r
            return None
        if e[0] in ("call", "callat"):
            args = e[2] if e[0] == "call" else e[3]
            for a in args:          # innermost first
                r = find(a, depth + 1)
                if r is not None:
                    return r
            nm = e[1] if e[0] == "call" else e[2]
            rid = e[4] if e[0] == "callat" else e[3]
            g = prog.fns.get(rid) if isinstance(rid, str) else None
            if g is not None and (g.file == f.file) and nm not in ("clamp", "max", "min"):
                if g.kind == "closure" and not (nm == "call" and len(args) == 2 and args[1][0] == "agg"):
                    return None
                return e
            return None
        for x in e[1:]:
            if isinstance(x, tuple):
                r = find(x, depth + 1)
                if r is not None:
                    return r
        return None
    call = None
    for nm in names:
        call = find(ex[nm])
        if call is not None:
            break
    if call is None:
        return None
    args = call[2] if call[0] == "call" else call[3]
    g = prog.fns[call[4] if call[0] == "callat" else call[3]]
    if g.id not in _INLINE_CACHE:
        gs = Sym(g)
        rets = []
        ok = True
        for (bb, j, rv, whole) in g.defs().get(0, []):
            if not whole:
                ok = False
            rets.append((gs.rvalue(rv, bb, (bb, j)), list(gs.facts_at(bb))))
        if not rets or len(rets) > 8:
            ok = False
        _INLINE_CACHE[g.id] = rets if ok else None
    rets = _INLINE_CACHE[g.id]
    if rets is None:
        return None
    if g.kind == "closure":
        mapping = {("param", 1, g.local_name(1)): args[0]}
        for i, a in enumerate(args[1][4]):
            mapping[("param", i + 2, g.local_name(i + 2))] = a
    else:
        mapping = {("param", i + 1, g.local_name(i + 1)): a for i, a in enumerate(args)}
    out = []
    for (r, facts) in rets:
        if any(l for l in _locals_left(r)) if False else False:
            return None
        r2 = esubst(r, mapping)
        ex2 = {nm: _project(esubst(ex[nm], {call: r2})) for nm in names}
        F2 = F + [(_project(esubst(c, mapping)), v) for c, v in facts]
        out.append((ex2, F2))
    return out


def box_variants(f, sym):
    """the CropBox aggregates of f with computed margins, one variant per consistent choice of
    the definitions of the multi-definition locals they depend on (tuples assigned in the
    branches of an if / match): [(fields dict, facts, loc)], fully expanded"""
    from ..engines.formulas import _locals_in, _project, _consistent
    from ..engines.validators import subst as esubst
    out = []
    for b, blk in enumerate(f.blocks):
        if blk["c"]:
            continue
        for j, st in enumerate(blk["s"]):
            if not (st[0] == "a" and st[2][0] == "agg" and st[2][1] == "adt" and
                    str(st[2][2]).rsplit("::", 1)[-1] == "CropBox"):
                continue
            ops = st[2][4]
            names = ["left", "top", "width", "height"]
            e0 = {nm: sym.operand(o, (b, j)) for nm, o in zip(names, ops)}
            work = [(e0, list(sym.facts_at(b)))]
            done = []
            guard = 0
            while work and guard < 64:
                guard += 1
                ex, F = work.pop()
                multi = None
                for nm in names:
                    for a in _locals_in(ex[nm]):
                        ds = [d for d in f.defs().get(a[1], []) if d[3]]
                        if len(ds) >= 1 and len(ds) == len(f.defs().get(a[1], [])):
                            multi = (a, ds)
                            break
                    if multi:
                        break
                if multi is None:
                    inl = _inline_one_call(f, ex, F, names)
                    if inl is None:
                        done.append((ex, F))
                    else:
                        work.extend(inl)
                    continue
                a, ds = multi
                keep = [d for d in ds if _consistent(sym.facts_at(d[0]), F)]
                if not keep:
                    keep = ds
                for d in keep:
                    rv = sym.rvalue(d[2], d[0], (d[0], d[1]))
                    if rv == a:
                        done.append((ex, F))
                        break
                    ex2 = {nm: _project(esubst(ex[nm], {a: rv})) for nm in names}
                    work.append((ex2, F + list(sym.facts_at(d[0]))))
            for ex, F in done:
                out.append((ex, F, st[3]))
    return out


def _locals_left(e):
    if not isinstance(e, tuple) or not e:
        return False
    if e[0] == "local":
        return True
    return any(_locals_left(x) for x in e if isinstance(x, tuple))


def rules(rep, prog):
    import re
    f = prog.fn_by_name("crop_box::CropBox::fit_src_into_dst_size")
    rep.touch(f)
    sym = Sym(f)
    r_axis, r_clamp, r_span = "C15.axis", "C15.clamp", "C15.full-span"
    rep.rule(r_axis, "on every path the crop box returned by fit_src_into_dst_size has a left that does "
             "not depend on centering.1 or the source height and a top that does not depend on "
             "centering.0 or the source width (the box is evaluated per path: definitions made in the "
             "branches of an if / match are chosen consistently)")
    rep.rule(r_clamp, "every use of a component of the caller's centering in the returned box goes "
             "through clamp(0.0, 1.0)")
    rep.rule(r_span, "on every path the returned width is the source width or the returned height is "
             "the source height")
    variants = box_variants(f, sym)
    rep.floor(r_axis, "paths to a CropBox", len(variants), 2)

    nan_through = []        # centering components that reach the box through a NaN-preserving clamp

    def cent_uses(e, F=()):
        """[(component index, clamped?)] of the uses of the `centering` parameter in e"""
        out = []

        def nan_excluded(x):
            for (cc, v) in F:
                if cc[0] in ("call", "callat") and (cc[1] if cc[0] == "call" else cc[2]) == "is_nan" \
                        and v is False and (cc[2] if cc[0] == "call" else cc[3])[0] == x:
                    return True
                # x == x / x >= c / x <= c taken as true: all false for NaN
                if cc[0] == "bin" and v is True and cc[1] in ("Eq", "Ge", "Le", "Gt", "Lt") and \
                        x in (cc[2], cc[3]):
                    return True
            return False

        def walk(x, clamped, nan_safe=False):
            if not isinstance(x, tuple) or not x:
                return
            if x[0] in ("call", "callat"):
                nm = x[1] if x[0] == "call" else x[2]
                args = x[2] if x[0] == "call" else x[3]
                if nm == "clamp" and len(args) == 3 and args[1] == ("const", 0.0, "f64") \
                        and args[2] == ("const", 1.0, "f64"):
                    a0 = args[0]
                    if a0[0] == "field" and str(a0[2]).isdigit() and re.search(r"\bcentering\b", fmt(a0[1])) \
                            and not nan_safe and not nan_excluded(a0):
                        nan_through.append(int(str(a0[2])))
                    walk(a0, True, nan_safe)
                    return
                if nm in ("max", "min") and len(args) == 2:
                    # f64::max / f64::min return the other operand for NaN
                    for a in args:
                        walk(a, clamped, True)
                    return
                rid = x[4] if x[0] == "callat" else x[3]
                g = prog.fns.get(rid) if isinstance(rid, str) else None
                if g is not None and g.kind != "closure" and g.arg_count == 1 and len(args) == 1 and \
                        (g.d.get("output") or "") == "f64":
                    # a crate-local helper applied to the component: what it returns on each path
                    verdict = _helper_clamps(g)
                    if verdict == "clamped-nan-safe":
                        walk(args[0], True, True)
                    elif verdict == "clamped":
                        a0 = args[0]
                        if a0[0] == "field" and str(a0[2]).isdigit() and not nan_excluded(a0):
                            nan_through.append(int(str(a0[2])))
                        walk(a0, True, nan_safe)
                    else:
                        walk(args[0], None, nan_safe)       # not understood: undecided
                    return
            if x[0] == "field" and str(x[2]).isdigit() and re.search(r"\bcentering\b", fmt(x[1])):
                # the outermost numeric projection of something derived from the parameter:
                # (centering as Some).0.k, unwrap_or(centering, ..).k, centering.k
                out.append((int(str(x[2])), clamped))
                return
            for y in x:
                if isinstance(y, tuple):
                    walk(y, clamped, nan_safe)
        walk(e, False)
        return out

    def mentions(e, name):
        return re.search(r"\b%s\b" % name, fmt(e)) is not None
    for k, (ex, F, loc) in enumerate(variants):
        tag = "#%d" % k
        if ex["left"] == ("const", 0.0, "f64") and ex["top"] == ("const", 0.0, "f64") and \
                _only_atom(ex["width"], "src_width") and _only_atom(ex["height"], "src_height"):
            rep.ok(r_axis, "whole-source" + tag, loc, "full source")
            rep.ok(r_span, "path" + tag, loc, "full source")
            continue
        lu, tu = cent_uses(ex["left"], F), cent_uses(ex["top"], F)
        bad_l = [i for i, _ in lu if i != 0] or mentions(ex["left"], "src_height")
        bad_t = [i for i, _ in tu if i != 1] or mentions(ex["top"], "src_width")
        if bad_l and not mentions(ex["left"], "src_width"):
            rep.bad(r_axis, "left" + tag, loc, "crop left = %s: depends on the vertical centering / "
                    "the source height only" % fmt(ex["left"])[:140])
        elif [i for i, _ in lu if i != 0]:
            rep.bad(r_axis, "left" + tag, loc, "crop left = %s uses centering.%s" % (
                fmt(ex["left"])[:140], sorted({i for i, _ in lu})))
        else:
            rep.ok(r_axis, "left" + tag, loc, fmt(ex["left"])[:100])
        if [i for i, _ in tu if i != 1]:
            rep.bad(r_axis, "top" + tag, loc, "crop top = %s uses centering.%s" % (
                fmt(ex["top"])[:140], sorted({i for i, _ in tu})))
        else:
            rep.ok(r_axis, "top" + tag, loc, fmt(ex["top"])[:100])
        raw = [i for i, c in lu + tu if c is False]
        unknown = [i for i, c in lu + tu if c is None]
        if unknown and not raw:
            rep.unk(r_clamp, "centering" + tag, loc, "component %s of the centering goes through a helper "
                    "that is not understood" % sorted(set(unknown)))
        elif raw:
            rep.bad(r_clamp, "centering" + tag, loc, "component %s of the caller's centering scales a "
                    "margin without clamp(0.0, 1.0): a value outside [0, 1] moves the box out of the "
                    "source (fit_src_into_dst_size and SrcCropping::FitIntoDestination are public, "
                    "the builder is not the only way in)" % sorted(set(raw)))
        elif lu or tu:
            rep.ok(r_clamp, "centering" + tag, loc, "clamp(0.0, 1.0) on every use")
        else:
            rep.ok(r_clamp, "centering" + tag, loc, "constants")
        if _only_atom(ex["width"], "src_width") or _only_atom(ex["height"], "src_height"):
            rep.ok(r_span, "path" + tag, loc, "crop = (%s, %s)" % (fmt(ex["width"])[:50], fmt(ex["height"])[:50]))
        elif _locals_left(ex["width"]) or _locals_left(ex["height"]):
            rep.unk(r_span, "path" + tag, loc, "size (%s, %s) not resolved" % (
                fmt(ex["width"])[:50], fmt(ex["height"])[:50]))
        else:
            rep.bad(r_span, "path" + tag, loc, "neither dimension spans the source: crop = (%s, %s)"
                    % (fmt(ex["width"])[:80], fmt(ex["height"])[:80]))
    # plumbing
    r_pl = "C15.plumbing"
    rep.rule(r_pl, "ResizeOptions::get_crop_box passes (src.width(), src.height(), dst.width(), "
             "dst.height(), centering) to fit_src_into_dst_size in that order")
    g = prog.fn_by_name("resizer::ResizeOptions::get_crop_box")
    rep.touch(g)
    gs = Sym(g)
    calls = [c for c in g.calls() if c.name.endswith("fit_src_into_dst_size")]
    rep.floor(r_pl, "fit_src_into_dst_size calls", len(calls), 1)
    for c in calls:
        a = [fmt(gs.operand(x)) for x in c.args[:4]]
        # get_crop_box(&self, source view, destination view): the views by position
        views = [i for i in range(1, g.arg_count + 1) if "ImageView" in (g.local_ty(i) or "")]
        if len(views) != 2:
            rep.unk(r_pl, "args", c.at, "the two view parameters of get_crop_box are not identified")
            continue
        sv, dv = g.local_name(views[0]), g.local_name(views[1])
        want = ["width(%s)" % sv, "height(%s)" % sv, "width(%s)" % dv, "height(%s)" % dv]
        if a == want:
            rep.ok(r_pl, "args", c.at, ", ".join(a))
        else:
            rep.bad(r_pl, "args", c.at, "fit_src_into_dst_size(%s), expected (%s)" % (
                ", ".join(a), ", ".join(want)))
    rep.rule("C15.nan", "a NaN component of the caller's centering does not reach the crop box: "
             "f64::clamp returns NaN for NaN, the origin of the box becomes NaN, the crop validator "
             "rejects it and the resize fails with a cropping error although FitIntoDestination was "
             "requested (the component must pass f64::max / f64::min, which drop NaN, or a branch "
             "that excludes NaN: is_nan, or a comparison taken as true)")
    if nan_through:
        for k in sorted(set(nan_through)):
            rep.bad("C15.nan", "centering.%d|clamp" % k, f.loc,
                    "centering.%d reaches the box through clamp(0.0, 1.0) only: "
                    "fit_into_destination(Some((NaN, ..))) makes the crop origin NaN and the resize "
                    "returns SrcCroppingError(PositionIsOutOfImageBoundaries)" % k)
    else:
        rep.ok("C15.nan", "centering", f.loc, "no NaN-preserving route from the centering to the box")



def _ratio_side(e):
    s = fmt(e)
    src = "src_width" in s or "src_height" in s
    dst = "dst_width" in s or "dst_height" in s
    if src and not dst:
        return "image"
    if dst and not src:
        return "required"
    return None


def inside(rep, prog, rule):
    rep.rule(rule, "a crop dimension that fit_src_into_dst_size computes from the ratios "
             "(required_ratio * height, or width / required_ratio) is assigned only where the "
             "image ratio is STRICTLY on the right side of the required ratio (strict comparison, "
             "or a non-strict one after the approximately-equal branch took the equal case), or "
             "is clamped with min(.., source dimension); with equal ratios fl(fl(dw/dh) * h) can "
             "exceed w by one ulp (252x108 -> 28x12 gives 252.00000000000003), the box then "
             "leaves the source and the resize fails with a cropping error")
    f = prog.fn_by_name("crop_box::CropBox::fit_src_into_dst_size")
    rep.touch(f)
    sym = Sym(f)
    n = 0
    for nm, need, dim in (("crop_width", ">", "src_width"), ("crop_height", "<", "src_height")):
        ls = [i for i, l in enumerate(f.locals) if l[1] == nm]
        if len(ls) != 1:
            rep.unk(rule, nm, f.loc, "local `%s` not found" % nm)
            continue
        for k, (bb, j, rv, whole) in enumerate(sorted(f.defs().get(ls[0], []))):
            e = sym.rvalue(rv, bb, (bb, j))
            if _only_atom(e, dim):
                continue
            n += 1
            key = "%s#%d" % (nm, k)
            s = fmt(e)
            if e[0] == "call" and e[1] in ("min", "clamp") and any(_only_atom(a, dim) for a in e[2]):
                rep.ok(rule, key, f.loc, "%s = %s is clamped to the source" % (nm, s[:80]))
                continue
            if not (e[0] == "bin" and e[1] in ("Mul", "Div")):
                rep.unk(rule, key, f.loc, "%s = %s: form not recognised" % (nm, s[:100]))
                continue
            rel, excluded = None, False
            for cond, val in sym.facts_at(bb):
                if cond[0] != "bin" or not isinstance(val, bool):
                    continue
                if cond[1] == "Lt" and "abs(" in fmt(cond[2]) and cond[3][0] == "const" \
                        and val is False and isinstance(cond[3][1], float) and cond[3][1] > 0 \
                        and _ratio_side(cond[2]) is None and "Sub" in fmt(cond[2]):
                    excluded = True
                    continue
                if cond[1] not in ("Ge", "Gt", "Le", "Lt"):
                    continue
                a, b = _ratio_side(cond[2]), _ratio_side(cond[3])
                if {a, b} != {"image", "required"}:
                    continue
                op = cond[1]
                if not val:
                    op = {"Ge": "Lt", "Gt": "Le", "Le": "Gt", "Lt": "Ge"}[op]
                if a == "required":
                    op = {"Ge": "Le", "Gt": "Lt", "Le": "Ge", "Lt": "Gt"}[op]
                rel = op            # image <op> required
            if rel is None:
                rep.unk(rule, key, f.loc, "%s = %s: no comparison of the two ratios dominates "
                        "the assignment" % (nm, s[:80]))
                continue
            right_dir = rel in (("Gt", "Ge") if need == ">" else ("Lt", "Le"))
            strict = rel in ("Gt", "Lt")
            if not right_dir:
                rep.bad(rule, key + "|direction", f.loc, "%s = %s is assigned where the image "
                        "ratio is %s the required ratio: the computed dimension exceeds the "
                        "source" % (nm, s[:80], {"Gt": "above", "Ge": "not below", "Lt": "below",
                                                 "Le": "not above"}[rel]))
            elif strict or excluded:
                rep.ok(rule, key, f.loc, "%s = %s only where image ratio %s required ratio%s" % (
                    nm, s[:60], {"Gt": ">", "Ge": ">=", "Lt": "<", "Le": "<="}[rel],
                    " and the ratios are not approximately equal" if excluded else ""))
            else:
                rep.bad(rule, key + "|equal-ratio", f.loc, "%s = %s is also used when the two "
                        "ratios are equal (comparison %s, no approximately-equal branch before "
                        "it): fl(fl(dw/dh) * h) can exceed w by one ulp (e.g. 252x108 -> 28x12), "
                        "so the box leaves the source and the resize fails with a cropping error"
                        % (nm, s[:80], {"Ge": ">=", "Le": "<="}[rel]))
    rep.floor(rule, "computed crop dimensions", n, 2)


def origin_strict(rep, prog, rule):
    """the fitted origin stays strictly inside the source"""
    rep.rule(rule, "the crop validator demands left < width and top < height strictly; "
             "fit_src_into_dst_size computes the origin as fl(fl(dim - crop) * centering). The "
             "difference rounds onto dim itself when the crop extent is below half an ulp of dim, "
             "and the crop extent (dw / dh) * h has no lower bound above 2^-32 while half an ulp of "
             "a u32 dimension reaches 2^-22: for a source of 2^27 x 1, a destination of 1 x 2^27 and "
             "centering 1.0 the computed left equals the width and the resize fails with a cropping "
             "error. Only this recognised form of the origin is judged (violation); an origin that is "
             "clamped or computed otherwise is undecided")
    f = prog.fn_by_name("crop_box::CropBox::fit_src_into_dst_size")
    rep.touch(f)
    sym = Sym(f)
    seen = set()
    n = 0
    for (ex, F, loc) in box_variants(f, sym):
        for nm, dim, crop in (("left", "src_width", "crop_width"), ("top", "src_height", "crop_height")):
            e = ex[nm]
            while e[0] == "cast":
                e = e[2]
            if e[0] == "const":
                continue
            key = "%s|rounds-onto-border" % nm
            if key in seen:
                continue
            n += 1
            if e[0] == "bin" and e[1] == "Mul":
                diffs = [x for x in (e[2], e[3]) if x[0] == "bin" and x[1] == "Sub" and _only_atom(x[2], dim)]
                if diffs and ("Mul" in fmt(diffs[0][3]) or "Div" in fmt(diffs[0][3])):
                    seen.add(key)
                    rep.bad(rule, key, loc,
                            "%s = %s: the difference can round to the source dimension itself (crop "
                            "extent below half an ulp of it), the validator's strict `%s < dimension` "
                            "then rejects the box (2^27 x 1 -> 1 x 2^27, centering 1.0)" % (nm, fmt(e)[:110], nm))
                    continue
                if diffs:
                    continue        # dim - dim: the full-span axis, origin 0
            seen.add(key + "|unk")
            rep.unk(rule, nm, loc, "%s = %s" % (nm, fmt(e)[:110]))
    rep.floor(rule, "fitted origins", n, 2)


def centering_stored(rep, prog, rule):
    rep.rule(rule, "ResizeOptions::fit_into_destination stores the caller's centering as it is (the default "
             "(0.5, 0.5) for None): the payload of SrcCropping::FitIntoDestination is `centering.unwrap_or("
             "default)` and nothing else. The clamp of each component to [0, 1] belongs to "
             "fit_src_into_dst_size (C15.clamp); a builder that filters, replaces or pre-clamps the pair "
             "(`centering.filter(|(x, y)| in_range(x) && in_range(y))`) turns an out-of-range request "
             "such as (1.5, 0.5) into centre cropping instead of cropping at the border")
    fs = [f for f in prog.fns.values() if f.name.rsplit("::", 1)[-1] == "fit_into_destination" and f.kind != "closure"]
    if len(fs) != 1:
        rep.unk(rule, "anchor", "", "%d functions named fit_into_destination" % len(fs))
        return
    f = fs[0]
    rep.touch(f)
    sym = Sym(f)
    found = False
    for b, blk in enumerate(f.blocks):
        if blk["c"]:
            continue
        for j, st in enumerate(blk["s"]):
            if not (st[0] == "a" and st[2][0] == "agg" and st[2][1] == "adt"
                    and str(st[2][2]).rsplit("::", 1)[-1] == "SrcCropping" and st[2][4]):
                continue
            found = True
            e = sym.operand(st[2][4][0], (b, j))
            while isinstance(e, tuple) and e and e[0] in ("copy", "ref", "deref"):
                e = e[1]
            key = "fit_into_destination|payload"
            ok_ = (isinstance(e, tuple) and e and e[0] == "call" and e[1] in ("unwrap_or", "unwrap_or_else", "unwrap_or_default")
                   and e[2] and e[2][0][0] == "param")
            direct = isinstance(e, tuple) and e and e[0] == "param"
            if ok_ or direct:
                rep.ok(rule, key, st[3], "stores %s" % fmt(e)[:70])
            elif "centering" in fmt(e) or any(a[0] == "param" for a in atoms(e)):
                rep.bad(rule, key + "|altered", st[3],
                        "fit_into_destination stores %s: the caller's centering is filtered / changed before "
                        "fit_src_into_dst_size sees it" % fmt(e)[:120])
            else:
                rep.unk(rule, key, st[3], "stored centering %s" % fmt(e)[:100])
    if not found:
        rep.unk(rule, "fit_into_destination|payload", f.loc, "no SrcCropping value is built here")


def run(rep, tier):
    cfgs = ["x86"] if tier == "quick" else ["x86", "arm", "wasm"]
    for cfg, prog in programs(cfgs):
        rep.set_cfg(cfg)
        rep.call(rules, rep, prog)
        rep.call(inside, rep, prog, "C15.inside")
        rep.call(origin_strict, rep, prog, "C15.origin-strict")
        rep.call(formulas.fit_formula, rep, prog, "C15.formula")
        # "so the resize never fails with a cropping error": the fitted box is placed with
        # left = fl(w - cw); it passes the validator because fl(left + cw) <= w is what the validator
        # tests (the half-ulp of left is absorbed by the sum). A validator that compares the size
        # with fl(w - left) instead rejects fitted boxes whose left was rounded up.
        from ..engines import validators
        rep.call(validators.crop_f64, rep, prog, "C15.validator-form")
        rep.call(validators.crop_route, rep, prog, "C15.crop-route")
        rep.call(centering_stored, rep, prog, "C15.centering-stored")
        # integer arithmetic on the way to the fitted box must not wrap (a wrapped product in a
        # ratio test selects the wrong box in release builds and panics in debug builds)
        from . import c03
        n = rep.call(c03.arith, rep, prog, "C15.arith",
                     only=lambda f: f.name.endswith("ResizeOptions::get_crop_box")
                     or "CropBox::fit_src_into_dst_size" in f.name) or 0
