"""C15 — fit-into-destination crop (clauses)."""
from ..engines import formulas
from ..progs import programs
from ..sym import Sym, fmt


def _has(e, pred):
    if not isinstance(e, tuple):
        return False
    if e and isinstance(e[0], str) and pred(e):
        return True
    return any(_has(x, pred) for x in e if isinstance(x, tuple))


def _only_atom(e, pname):
    """e is the parameter `pname` up to value-preserving conversions (casts, From::from)"""
    while isinstance(e, tuple) and e:
        if e[0] == "cast":
            e = e[2]
        elif e[0] in ("call", "callat") and (e[1] if e[0] == "call" else e[2]) in ("from", "into") \
                and len(e[2] if e[0] == "call" else e[3]) == 1:
            e = (e[2] if e[0] == "call" else e[3])[0]
        else:
            break
    return e[0] == "param" and e[2] == pname


def rules(rep, prog):
    f = prog.fn_by_name("crop_box::CropBox::fit_src_into_dst_size")
    rep.touch(f)
    sym = Sym(f)
    r_axis, r_clamp, r_span = "C15.axis", "C15.clamp", "C15.full-span"
    rep.rule(r_axis, "the crop box returned by fit_src_into_dst_size has left = (width margin) * "
             "centering.0 and top = (height margin) * centering.1: left does not depend on "
             "centering.1 or the height margin and vice versa")
    rep.rule(r_clamp, "both centering factors are derived through clamp(0.0, 1.0) (or are the "
             "constants of the default)")
    rep.rule(r_span, "on each of the three ratio branches crop_width is the source width or "
             "crop_height is the source height")
    # returned aggregates of CropBox
    aggs = []
    for b, blk in enumerate(f.blocks):
        if blk["c"]:
            continue
        for j, st in enumerate(blk["s"]):
            if st[0] == "a" and st[2][0] == "agg" and st[2][1] == "adt" and \
                    st[2][2].endswith("crop_box::CropBox"):
                aggs.append((b, j, st))
    rep.floor(r_axis, "CropBox aggregates", len(aggs), 2)
    cent = [i for i, l in enumerate(f.locals) if l[1] == "centering" and i > f.arg_count]
    for (b, j, st) in aggs:
        names = ["left", "top", "width", "height"]
        ops = {nm: sym.operand(o, (b, j)) for nm, o in zip(names, st[2][4])}
        if ops["left"] == ("const", 0.0, "f64") and ops["top"] == ("const", 0.0, "f64"):
            rep.ok(r_axis, "degenerate", st[3], "zero-size input: full source")
            continue

        def cent_idx(e):
            out = set()

            def walk(x):
                if not isinstance(x, tuple):
                    return
                if x and x[0] == "field" and isinstance(x[2], int) and \
                        "centering" in fmt(x[1]):
                    out.add(x[2])
                for y in x:
                    if isinstance(y, tuple):
                        walk(y)
            walk(e)
            return out
        li, ti = cent_idx(ops["left"]), cent_idx(ops["top"])
        ls, ts = fmt(ops["left"]), fmt(ops["top"])
        ok_l = li == {0} and "crop_width" in ls and "crop_height" not in ls
        ok_t = ti == {1} and "crop_height" in ts and "crop_width" not in ts
        if ok_l:
            rep.ok(r_axis, "left", st[3], ls[:100])
        else:
            rep.bad(r_axis, "left", st[3], "crop left = %s (uses centering components %s)" % (
                ls[:140], sorted(li)))
        if ok_t:
            rep.ok(r_axis, "top", st[3], ts[:100])
        else:
            rep.bad(r_axis, "top", st[3], "crop top = %s (uses centering components %s)" % (
                ts[:140], sorted(ti)))
        ws, hs = fmt(ops["width"]), fmt(ops["height"])
        if "crop_width" in ws and "crop_height" in hs:
            rep.ok(r_axis, "size", st[3], "width=crop_width height=crop_height")
        else:
            rep.bad(r_axis, "size", st[3], "returned size is (%s, %s)" % (ws[:60], hs[:60]))
    # clamp
    if len(cent) == 1:
        ok_all = True
        details = []
        for (bb, j, rv, whole) in f.defs().get(cent[0], []):
            e = sym.rvalue(rv, bb, (bb, j))
            if e[0] != "agg" or len(e[4]) != 2:
                ok_all = None
                continue
            for comp in e[4]:
                c = comp
                if c[0] == "const" and 0.0 <= c[1] <= 1.0:
                    continue
                if c[0] == "call" and c[1] == "clamp" and c[2][1] == ("const", 0.0, "f64") \
                        and c[2][2] == ("const", 1.0, "f64"):
                    continue
                ok_all = False
                details.append(fmt(c)[:80])
        if ok_all is True:
            rep.ok(r_clamp, "centering", f.loc, "clamp(0.0, 1.0) on both components")
        elif ok_all is False:
            rep.bad(r_clamp, "centering", f.loc, "centering component not clamped to [0,1]: %s"
                    % details)
        else:
            # not an aggregate: e.g. `centering.unwrap_or((0.5, 0.5))`
            exprs = [sym.rvalue(rv, bb, (bb, j)) for (bb, j, rv, whole) in f.defs().get(cent[0], [])]
            raw = [e for e in exprs if e[0] in ("call", "callat") and "clamp" not in fmt(e)
                   and any(a[0] == "param" and a[2] == "centering"
                           for a in (e[2] if e[0] == "call" else e[3]))]
            if raw and len(raw) == len(exprs):
                rep.bad(r_clamp, "centering", f.loc, "the centering that scales the margins is %s: "
                        "the caller's value is used without clamp(0.0, 1.0), so a component outside "
                        "[0, 1] moves the box out of the source (fit_src_into_dst_size and "
                        "SrcCropping::FitIntoDestination are public, the builder is not the only "
                        "way in)" % fmt(raw[0])[:100])
            else:
                rep.unk(r_clamp, "centering", f.loc, "shape not recognised")
    else:
        rep.unk(r_clamp, "centering", f.loc, "local `centering` not found")
    # full span
    cw = [i for i, l in enumerate(f.locals) if l[1] == "crop_width"]
    ch = [i for i, l in enumerate(f.locals) if l[1] == "crop_height"]
    if len(cw) == 1 and len(ch) == 1:
        dw = {bb: sym.rvalue(rv, bb, (bb, j)) for (bb, j, rv, w) in f.defs().get(cw[0], [])}
        dh = {bb: sym.rvalue(rv, bb, (bb, j)) for (bb, j, rv, w) in f.defs().get(ch[0], [])}
        rep.floor(r_span, "ratio branches", len(dw), 3)
        for k, bb in enumerate(sorted(dw)):
            w, h = dw[bb], dh.get(bb)
            full_w = _only_atom(w, "src_width")
            full_h = h is not None and _only_atom(h, "src_height")
            if full_w or full_h:
                rep.ok(r_span, "branch#%d" % k, f.loc, "crop = (%s, %s)" % (
                    fmt(w)[:50], fmt(h)[:50] if h else "?"))
            else:
                rep.bad(r_span, "branch#%d" % k, f.loc, "neither dimension spans the source: "
                        "crop = (%s, %s)" % (fmt(w)[:80], fmt(h)[:80] if h else "?"))
    else:
        rep.unk(r_span, "locals", f.loc, "crop_width / crop_height not found")
    # plumbing
    r_pl = "C15.plumbing"
    rep.rule(r_pl, "ResizeOptions::get_crop_box passes (src.width(), src.height(), dst.width(), "
             "dst.height(), centering) to fit_src_into_dst_size in that order")
    g = prog.fn_by_name("resizer::ResizeOptions::get_crop_box")
    rep.touch(g)
    gs = Sym(g)
    calls = [c for c in g.calls() if c.name.endswith("fit_src_into_dst_size")]
    rep.floor(r_pl, "fit_src_into_dst_size calls", len(calls), 1)
    for c in calls:
        a = [fmt(gs.operand(x)) for x in c.args[:4]]
        want = ["width(src_view)", "height(src_view)", "width(dst_view)", "height(dst_view)"]
        if a == want:
            rep.ok(r_pl, "args", c.at, ", ".join(a))
        else:
            rep.bad(r_pl, "args", c.at, "fit_src_into_dst_size(%s), expected (%s)" % (
                ", ".join(a), ", ".join(want)))


def _ratio_side(e):
    s = fmt(e)
    src = "src_width" in s or "src_height" in s
    dst = "dst_width" in s or "dst_height" in s
    if src and not dst:
        return "image"
    if dst and not src:
        return "required"
    return None


def inside(rep, prog, rule):
    rep.rule(rule, "a crop dimension that fit_src_into_dst_size computes from the ratios "
             "(required_ratio * height, or width / required_ratio) is assigned only where the "
             "image ratio is STRICTLY on the right side of the required ratio (strict comparison, "
             "or a non-strict one after the approximately-equal branch took the equal case), or "
             "is clamped with min(.., source dimension); with equal ratios fl(fl(dw/dh) * h) can "
             "exceed w by one ulp (252x108 -> 28x12 gives 252.00000000000003), the box then "
             "leaves the source and the resize fails with a cropping error")
    f = prog.fn_by_name("crop_box::CropBox::fit_src_into_dst_size")
    rep.touch(f)
    sym = Sym(f)
    n = 0
    for nm, need, dim in (("crop_width", ">", "src_width"), ("crop_height", "<", "src_height")):
        ls = [i for i, l in enumerate(f.locals) if l[1] == nm]
        if len(ls) != 1:
            rep.unk(rule, nm, f.loc, "local `%s` not found" % nm)
            continue
        for k, (bb, j, rv, whole) in enumerate(sorted(f.defs().get(ls[0], []))):
            e = sym.rvalue(rv, bb, (bb, j))
            if _only_atom(e, dim):
                continue
            n += 1
            key = "%s#%d" % (nm, k)
            s = fmt(e)
            if e[0] == "call" and e[1] in ("min", "clamp") and any(_only_atom(a, dim) for a in e[2]):
                rep.ok(rule, key, f.loc, "%s = %s is clamped to the source" % (nm, s[:80]))
                continue
            if not (e[0] == "bin" and e[1] in ("Mul", "Div")):
                rep.unk(rule, key, f.loc, "%s = %s: form not recognised" % (nm, s[:100]))
                continue
            rel, excluded = None, False
            for cond, val in sym.facts_at(bb):
                if cond[0] != "bin" or not isinstance(val, bool):
                    continue
                if cond[1] == "Lt" and "abs(" in fmt(cond[2]) and cond[3][0] == "const" \
                        and val is False and isinstance(cond[3][1], float) and cond[3][1] > 0 \
                        and _ratio_side(cond[2]) is None and "Sub" in fmt(cond[2]):
                    excluded = True
                    continue
                if cond[1] not in ("Ge", "Gt", "Le", "Lt"):
                    continue
                a, b = _ratio_side(cond[2]), _ratio_side(cond[3])
                if {a, b} != {"image", "required"}:
                    continue
                op = cond[1]
                if not val:
                    op = {"Ge": "Lt", "Gt": "Le", "Le": "Gt", "Lt": "Ge"}[op]
                if a == "required":
                    op = {"Ge": "Le", "Gt": "Lt", "Le": "Ge", "Lt": "Gt"}[op]
                rel = op            # image <op> required
            if rel is None:
                rep.unk(rule, key, f.loc, "%s = %s: no comparison of the two ratios dominates "
                        "the assignment" % (nm, s[:80]))
                continue
            right_dir = rel in (("Gt", "Ge") if need == ">" else ("Lt", "Le"))
            strict = rel in ("Gt", "Lt")
            if not right_dir:
                rep.bad(rule, key + "|direction", f.loc, "%s = %s is assigned where the image "
                        "ratio is %s the required ratio: the computed dimension exceeds the "
                        "source" % (nm, s[:80], {"Gt": "above", "Ge": "not below", "Lt": "below",
                                                 "Le": "not above"}[rel]))
            elif strict or excluded:
                rep.ok(rule, key, f.loc, "%s = %s only where image ratio %s required ratio%s" % (
                    nm, s[:60], {"Gt": ">", "Ge": ">=", "Lt": "<", "Le": "<="}[rel],
                    " and the ratios are not approximately equal" if excluded else ""))
            else:
                rep.bad(rule, key + "|equal-ratio", f.loc, "%s = %s is also used when the two "
                        "ratios are equal (comparison %s, no approximately-equal branch before "
                        "it): fl(fl(dw/dh) * h) can exceed w by one ulp (e.g. 252x108 -> 28x12), "
                        "so the box leaves the source and the resize fails with a cropping error"
                        % (nm, s[:80], {"Ge": ">=", "Le": "<="}[rel]))
    rep.floor(rule, "computed crop dimensions", n, 2)


def run(rep, tier):
    cfgs = ["x86"] if tier == "quick" else ["x86", "arm", "wasm"]
    for cfg, prog in programs(cfgs):
        rep.set_cfg(cfg)
        rep.call(rules, rep, prog)
        rep.call(inside, rep, prog, "C15.inside")
        rep.call(formulas.fit_formula, rep, prog, "C15.formula")
        # integer arithmetic on the way to the fitted box must not wrap (a wrapped product in a
        # ratio test selects the wrong box in release builds and panics in debug builds)
        from . import c03
        n = rep.call(c03.arith, rep, prog, "C15.arith",
                     only=lambda f: f.name.endswith("ResizeOptions::get_crop_box")
                     or "CropBox::fit_src_into_dst_size" in f.name) or 0
