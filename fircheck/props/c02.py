"""C02 — SIMD back-ends equal the portable one: routing and table clauses (DESIGN §4 C02)."""
from ..engines import (alpha_rules, alphapair, dispatch_rules, simd_rules, lanepair, loadwidth, rounding,
                       roundbudget, row_coverage)
from ..progs import programs


def run(rep, tier):
    cfgs = ["x86"] if tier == "quick" else ["x86", "x86-rayon", "arm", "wasm"]
    for cfg, prog in programs(cfgs):
        rep.set_cfg(cfg)
        rep.call(dispatch_rules.t_dispatch, rep, prog, "C02.dispatch")
        rep.call(dispatch_rules.t_feature, rep, prog, "C02.feature")
        rep.call(dispatch_rules.t_precision, rep, prog, "C02.precision")
        rep.call(dispatch_rules.headroom, rep, prog, "C02.headroom")
        rep.call(simd_rules.conv_saturate, rep, prog, "C02.saturate")
        rep.call(simd_rules.zero_extend, rep, prog, "C02.zero-extend")
        rep.call(row_coverage.group_tail, rep, prog, "C02.kernel-rows")
        rep.call(loadwidth.guard_adequacy, rep, prog, "C02.loadwidth", loadwidth.FLOOR.get(cfg, 50))
        rep.call(loadwidth.offset_flows, rep, prog, "C02.offset-flows", {"x86": 30, "x86-rayon": 30, "arm": 8, "arm-rayon": 8, "wasm": 15}.get(cfg, 8))
        rep.call(loadwidth.cursor_advance, rep, prog, "C02.cursor-advance", {"x86": 16, "x86-rayon": 16, "wasm": 4}.get(cfg, 0))
        rep.call(simd_rules.f64_accumulate, rep, prog, "C02.f64-accumulate", {"x86": 100, "x86-rayon": 100}.get(cfg, 8))
        rep.call(roundbudget.budget, rep, prog, "C02.round-budget", {"x86": 110, "arm": 60, "wasm": 55}.get(cfg, 40))
        # alpha multiplication/division: the SIMD primitives against the portable routines
        rep.call(alpha_rules.zero_guard, rep, prog, "C02.zero-guard")
        rep.call(rounding.round_div, rep, prog, "C02.round-div")
        rep.call(simd_rules.lane_bypass, rep, prog, "C02.lane-bypass")
        if cfg.startswith("x86"):
            rep.call(alphapair.provenance, rep, prog, "C02.alpha-provenance")
            rep.call(lanepair.pairing, rep, prog, "C02.lane-pairing")
            rep.call(lanepair.stores, rep, prog, "C02.lane-store")
